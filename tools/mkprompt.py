import json,sys
pid=sys.argv[1]; wt=sys.argv[2]; variant=sys.argv[3] if len(sys.argv)>3 else ""
p=[json.loads(l) for l in open('/verif/properties.jsonl') if json.loads(l)['id']==pid][0]
txt=json.dumps({k:p[k] for k in ['id','title','statement','quantifier','why_tests_cant','anchors']},indent=1,ensure_ascii=False)
print(f"""You are helping to evaluate a verification effort for the Rust project michaelklishin/edp-rs (an Erlang External Term Format codec plus an Erlang Distribution Protocol client and node library). Your job is to play the role of a developer who introduces a REALISTIC BUG.

Your private scratch copy of the repository is the git worktree {wt} (already created, at the project's current HEAD). Work ONLY inside {wt}. Do NOT read or touch /repo, /verif or any other directory outside {wt} (except the cargo registry, which cargo uses by itself). There is no network: always run cargo with --offline.

Here is one semantic property that the library is supposed to satisfy:

{txt}

TASK: make ONE small change to the library source (under {wt}/crates/*/src) that BREAKS this property, such that
 1. the workspace still compiles (`cargo build --offline --workspace`), and
 2. the existing test suite still passes exactly as before. Run `cargo test --offline -p <crate>` for the crate(s) you touched and anything depending on them (or `cargo test --offline --workspace --no-fail-fast`). NOTE: about 42 tests (mostly in edp_node, edp_examples and some edp_client integration tests) need a running EPMD / Erlang node and FAIL ON THE UNCHANGED TREE TOO; ignore those, but make sure no test that passed before your change fails after it (compare with a run on the unchanged source; do NOT use `git stash`, it is shared between worktrees).
 3. The bug must need something SPECIFIC to manifest: a particular interleaving, a crash or fault at a particular point, a multi-step sequence of operations, an unusual input or boundary value, or two cooperating sites that each look fine alone. It must NOT be something ordinary use or a trivial smoke test would expose at once. Think of the kind of regression a plausible refactoring, 'optimisation' or 'simplification' would introduce. {variant}
 4. Do not modify or remove lines guarded by `#[cfg(feature = "verif-hooks")]` (instrumentation hooks; leave them exactly as they are) and do not edit existing tests.

Then write a DEMONSTRATION: a new test file (e.g. {wt}/crates/<crate>/tests/seeded_demo.rs) or a small example program that FAILS with your change and PASSES without it (verify both; revert your source change temporarily with `git diff -- crates/*/src > my.patch && git apply -R my.patch`, re-apply with `git apply my.patch`; never use `git stash`). The demonstration must not need a real Erlang node or EPMD (plain in-process code, or loopback sockets you create yourself, are fine).

DELIVERABLES, all inside {wt}/SEEDED/ (create the directory):
 - patch.diff : `git diff` of the library source change ONLY (not the demo)
 - the demonstration file(s) (copy), plus
 - meta.json : {{"property": "{pid}", "summary": "<one paragraph: what the change is and why it breaks the property>", "needs_to_manifest": "<what specific input/sequence/interleaving is needed>", "demo": "<file name>", "demo_cmd": "<exact command to run the demo from the worktree root>", "files_changed": [...]}}
Leave your source change and the demo applied in the worktree as well. Keep the build output small: do not build in release mode, and prefer `-p <crate>` invocations.

Finish with a short report: the diff, what is needed to trigger it, and the output of the demo with and without the change.""")
