#!/usr/bin/env python3
"""Apply each seeded change under /verif/seeded/<name>/patch.diff to /repo, run the quick (or given)
check of the property it breaks, undo it, and report which checks caught it.

  ./seeded_eval.py [name ...] [--tier quick|thorough] [--all-props]
"""
import json, os, subprocess, sys, time

SEEDED = '/verif/seeded'

def sh(cmd, **kw):
    return subprocess.run(cmd, shell=True, stdout=subprocess.PIPE, stderr=subprocess.STDOUT, text=True, **kw)

def clean():
    return sh('git -C /repo status --porcelain').stdout.strip() == ''

def main():
    args = [a for a in sys.argv[1:] if not a.startswith('--')]
    tier = 'quick'
    if '--tier' in sys.argv:
        tier = sys.argv[sys.argv.index('--tier') + 1]
        args = [a for a in args if a != tier]
    names = args or sorted(d for d in os.listdir(SEEDED) if os.path.isfile(f'{SEEDED}/{d}/patch.diff'))
    if not clean():
        print('refusing: /repo has uncommitted changes'); return 2
    rows = []
    for n in names:
        d = f'{SEEDED}/{n}'
        meta = json.load(open(f'{d}/meta.json'))
        prop = meta['property']
        r = sh(f'git -C /repo apply {d}/patch.diff')
        if r.returncode != 0:
            rows.append((n, prop, 'PATCH DOES NOT APPLY', r.stdout[-200:])); continue
        try:
            t0 = time.time()
            props = [prop] + [p for p in meta.get('also_check', [])]
            caught = []
            detail = []
            for p in props:
                c = sh(f'./check {p} --tier {tier}', cwd='/verif')
                viol = [l for l in c.stdout.splitlines() if l.startswith('VIOLATION')]
                sigs = [l.strip() for l in c.stdout.splitlines() if l.startswith('  C') and ':' in l][:6]
                if c.returncode == 1 and viol:
                    caught.append(p)
                detail.append(dict(check=p, exit=c.returncode, violations=len(viol), signatures=sigs))
            res = dict(name=n, property=prop, tier=tier, caught_by=caught, detail=detail, wall_s=round(time.time() - t0, 1))
            json.dump(res, open(f'{d}/result_{tier}.json', 'w'), indent=1)
            rows.append((n, prop, 'CAUGHT by ' + ','.join(caught) if caught else 'MISSED', '; '.join(s for x in detail for s in x['signatures'][:2])[:160]))
        finally:
            sh('git -C /repo checkout -- .')
            if not clean():
                print('WARNING: /repo not clean after', n)
    for r in rows:
        print(' | '.join(r))
    return 0

if __name__ == '__main__':
    sys.exit(main())
