#!/usr/bin/env python3
"""Regenerates MANIFEST.json from the table below (kept next to the checks it describes)."""
import json, subprocess

props = [json.loads(l) for l in open('/verif/properties.jsonl')]
ids = [p['id'] for p in props]

# id -> (technique, level text, level note, design ref)
DONE = {
 "C01": ("differential runtime oracle: independent ETF reader + denotation over boundary corpus and seeded random term trees",
         "Runs the real encoder/decoder on ~7e4 (quick) / ~3e6 (thorough) term trees covering every variant and every encoding boundary of the quantifier; every encoding is read by an independent implementation of the format and compared by value, re-encoded and compared byte-wise. Held-on-observed, not proof.",
         "Trusted base: /verif/harness/src/refmodel (Val, ref_decode, val_of/term_of), transcribed from erl_ext_dist. Generator only builds well-formed terms.", "6/C01"),
 "C03": ("differential runtime oracle: independent ETF writer enumerating all admissible encodings, decoded by the library",
         "For each generated value the independent writer walks the admissible encodings (exhaustively for values with <=200 combinations, randomly beyond) and the library's decode must denote exactly that value; trailing bytes must be reported. Cause-class signatures separate encoding alternatives and merged map keys.",
         "Trusted base: refmodel encode/decode pair (continuously self-checked against each other); LOCAL_EXT read as hash8+term.", "6/C03"),
 "C10": ("runtime byte-identity monitor over decode->conversion chain->encode, plus equality/hash/order oracle across identifier forms",
         "3e4 (quick) / 2e6 (thorough) identifiers in plain and node-local form, in 9 term contexts, through random clone/borrow/move chains; re-encoded bytes must equal the received bytes; both forms must be ==/hash-equal/cmp-Equal and differ from identifiers with one field changed.",
         "Trusted: hand-assembled context bytes use only encodings the library emits canonically; LOCAL_EXT layout as documented by the library.", "6/C10"),
 "C11": ("runtime law checker over the full comparison matrix of a term universe (all pairs, all triples), owned vs zero-copy, plus std collections as consequence oracles",
         "Every pair and every triple of a universe of ~300 (quick) / ~900 (thorough) terms covering all representation boundaries is checked for antisymmetry, transitivity, ==>Equal, ==>equal hash, owned/borrowed agreement; sort/BTreeSet/HashSet behaviour is checked as a consequence. Exhaustive over the stated universe only.",
         "Universe construction (harness/src/props/c11.rs) decides reach; well-formed terms only.", "6/C11"),
 "C12": ("differential runtime oracle: independent implementation of Erlang's term order over all pairs of a term universe",
         "All ordered pairs of a universe of ~340 (quick) / ~1200 (thorough) terms are compared by the library and by an independent exact implementation of Erlang's term order on the denoted values.",
         "Trusted base: refmodel::val::erl_cmp (exact int/float comparison, list/bit-string/map rules); identifier/fun order only checked for equality; maps with mixed int/float keys excluded.", "6/C12"),
 "C13": ("differential runtime monitor: zero-copy decoder vs owned decoder on valid modern encodings, truncations, mutations and random bytes",
         "~2e5 (quick) / ~1e7 (thorough) inputs; structural comparison does not go through the library's ==.",
         "Modern tag set as listed in the evidence assumptions; inputs that make a decoder panic/abort are left to C02.", "6/C13"),
}

checks = []
na = []
for pid in ids:
    if pid in DONE:
        tech, text, note, ref = DONE[pid]
        checks.append({
            "property_id": pid,
            "quick_cmd": f"./check {pid} --tier quick",
            "thorough_cmd": f"./check {pid} --tier thorough",
            "evidence_file": f"/verif/evidence/{pid}.json",
            "replay_cmd_template": f"./check {pid} --replay {{path}}",
            "engine": "vh",
            "level_claimed": {"category": "exploration", "text": text, "design_ref": f"DESIGN.md section {ref}"},
            "level_note": note,
            "technique": tech,
        })
    else:
        na.append({"property_id": pid, "reason": "check not built yet (work in progress; DESIGN.md section 6 describes the planned runtime monitor)"})

hooks = subprocess.run(["git", "-C", "/repo", "log", "--format=%h %s", "--grep=^verif-hooks"], capture_output=True, text=True).stdout.strip().splitlines()
m = {
 "version": 1,
 "setup_cmd": "cd /verif/harness && CARGO_NET_OFFLINE=true cargo build --offline --release && CARGO_NET_OFFLINE=true cargo build --offline",
 "hooks": {
  "guard": "cargo feature `verif-hooks` on crates edp_client and edp_node (off by default)",
  "enable": "the harness crate /verif/harness depends on /repo/crates/{edp_client,edp_node} by path with features = [\"verif-hooks\"]",
  "baseline_off_cmd": "cd /repo && cargo test --workspace --no-fail-fast --offline",
  "source_commits": [h.split()[0] for h in hooks][::-1],
  "add_only": True,
 },
 "engines": [{"name": "vh", "path": "/verif/harness", "serves_properties": [c["property_id"] for c in checks],
              "kind_free_text": "Rust harness: seeded workloads + runtime monitors (independent reference models, history checkers, process-level observers) run against the library built from /repo's working tree; driven by /verif/check"}],
 "checks": checks,
 "not_applicable": na,
 "notes": "Known findings: /verif/known_findings.json (open = KNOWN-FINDING line, fixed = suppresses nothing). Witnesses: /verif/replay/<id>/. VERIF_SEED seeds every random choice.",
}
json.dump(m, open('/verif/MANIFEST.json', 'w'), indent=1)
print(len(checks), "checks,", len(na), "not yet")
