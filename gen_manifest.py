#!/usr/bin/env python3
"""Regenerates MANIFEST.json from the table below (kept next to the checks it describes)."""
import json, subprocess

props = [json.loads(l) for l in open('/verif/properties.jsonl')]
ids = [p['id'] for p in props]

# id -> (technique, level text, level note, design ref)
DONE = {
 "C01": ("differential runtime oracle: independent ETF reader + denotation over boundary corpus and seeded random term trees",
         "Runs the real encoder/decoder on ~7e4 (quick) / ~3e6 (thorough) term trees covering every variant and every encoding boundary of the quantifier; every encoding is read by an independent implementation of the format and compared by value, re-encoded and compared byte-wise; a history-independence probe repeats a fixed set of ordinary calls (incl. encode_to_writer and the deepest legal nesting) before and after calls that fail or are unusual, issued once, a few times or 300 times; the names real nodes send also in terms whose atoms are put together field by field, and a constructor that names another atom than asked is reported as such. Held-on-observed, not proof.",
         "Trusted base: /verif/harness/src/refmodel (Val, ref_decode, val_of/term_of), transcribed from erl_ext_dist. Generator only builds well-formed terms.", "6/C01"),
 "C02": ("process-level runtime observer: decoders run in child processes on a 2 MiB-stack thread under a counting allocator; exit status, signal and requested allocation sizes are the oracle",
         "~1.5e5 (quick) / ~2e6 (thorough) hostile inputs (tag x count grid, nesting bombs to depth 4e6, truncations, mutations, zip bombs, hostile headers, valid maps keyed by pairs of sibling values - the decoders order keys while building maps - ~200 atoms of the OTP vocabulary under every tag and position, and a text-boundary family: ASCII runs of every length 0..300 followed by a 2/3/4-byte character as atom, map key, map value, node name, binary and string) through all 8 decoding entry points plus decode_with_atom_cache against the cache a running connection leaves behind (with a grid of cache references inside, just past and far beyond the current header), in a debug and a release build; a crash is attributed to the case in flight and the child restarted.",
         "Memory limit = 1 MiB + 256 x (input + really inflated bytes); stack = 2 MiB. Allocation above 6 GiB is reported by the allocator instead of being served.", "6/C02"),
 "C03": ("differential runtime oracle: independent ETF writer enumerating all admissible encodings, decoded by the library",
         "For each generated value the independent writer walks the admissible encodings (exhaustively for values with <=200 combinations, randomly beyond) and the library's decode must denote exactly that value; maps keyed by every pair of sibling values (numeric neighbours across representations, identifiers one field apart, lists differing in tail kind ...) are included; trailing bytes must be reported; all small structures exhaustively; a history-independence probe with truncations exactly at term boundaries. Cause-class signatures separate encoding alternatives and merged map keys.",
         "Trusted base: refmodel encode/decode pair (continuously self-checked against each other); LOCAL_EXT read as hash8+term.", "6/C03"),
 "C04": ("online trace checker over the handshake API (shadow of the handshake epoch, own MD5) + scripted deviating peer over loopback with a fake EPMD",
         "All API-call sequences up to length 4 (quick) / 5 (thorough) over 23 symbolic actions plus random longer ones are checked online: Connected only after a reply emitted in this epoch and a later matching digest; reply digest, flag intersection and byte layouts checked against independent models. 33 peer behaviours (incl. frames of length zero before each step and as a flood, silence inside a frame at every step, 24 structured digest corruptions, 90 garbage statuses with multi-byte characters at every offset) x flag sets against Connection::connect on real sockets.",
         "Own MD5 (RFC 1321 vectors checked at start); cookie digested as UTF-8; timing bound measured from the peer's silence, overruns are inconclusive, only the 15 s watchdog is a violation.", "6/C04"),
 "C05": ("runtime monitor with scripted AsyncRead and AsyncWrite transports: all chunkings of short streams, random cuts of long ones, scripted short/vectored writes and a filling pipe on the write side, allocation measured; second read loop over real loopback sockets",
         "All 2^(n-1) chunkings of streams up to 11 (quick) / 15 (thorough) bytes with Pending between chunks in both framing modes, boundary lengths, over-long lengths (no large allocation), EOF at every offset; framers and deframers made for their mode, switched to it, or switched away and back, and one pair carried across the handshake-to-distribution switch with frames of every size class behind it; the streaming writer over transports accepting 1..6 bytes per call (plain and vectored, with Pending) and through pipes of capacity 1..24 (64) against a concurrent reader; handshakes whose last message arrives glued to the first distribution frames, read across the hand-over of the read half; one transport object over its whole life (writes failing for want of a connection, by reset or by timeout, close, connect to the next socket) with every peer's received bytes compared against the writes reported successful; the node's duplicate read loop on a real socket written in scripted slices.",
         "Independent framing model: big-endian 2/4-byte length prefix.", "6/C05"),
 "C08": ("differential runtime oracle against a transcription of the protocol's control-message table; lossless parse/serialise monitor over a tag x arity grid",
         "Every tag 0..255 x arity 1..10 x random fields parsed and serialised back (value equality through the denotation), both serialisers compared, wire trip, unlink ids over the 64-bit range in both integer representations, non-messages rejected (heads outside 0..255 over the whole integer range incl. values congruent to a tag modulo 2^8/2^16/2^32), and each named operation - built from its variant and through its public helper constructor - compared with the protocol table.",
         "Protocol table transcribed from erl_dist_protocol (DESIGN.md appendix A).", "6/C08"),
 "C09": ("history checker against a sequential model of the assembler; exhaustive arrival permutations for small fragment counts",
         "All n! arrival orders for n <= 6 (quick) / 7 (thorough) x cut patterns, every fragment (header included) duplicated at every later position of every order for n <= 4 (5), random orders up to n = 64, random duplicates / id 0 / out-of-range ids, 2..4 interleaved sequences with arbitrary ids, assemblers made by new / default / with_timeout with a sweep before every arrival, slowly arriving sequences with a sweep before each arrival, expiry; the same through a real connection with duplicates after completion and re-used sequence ids; every return value and pending_count compared with the model.",
         "Fragments are derived from an original message the protocol's way (first fragment numbered n, counting down).", "6/C09"),
 "C10": ("runtime byte-identity monitor over decode->conversion chain->encode, plus equality/hash/order oracle across identifier forms",
         "3e4 (quick) / 2e6 (thorough) identifiers in plain and node-local form, in 9 term contexts, through random chains of clone / borrow / move / box / clone_from over a slot that held another identifier (directly and through Vec, Option, Box); re-encoded bytes must equal the received bytes, also behind a distribution header (single term and next to a control tuple); both forms must be ==/hash-equal/cmp-Equal and differ from identifiers with one field changed; every ordered pair of sibling identifiers (one field / one trailing reference word apart) in all four form combinations as the two keys of one map.",
         "Trusted: hand-assembled context bytes use only encodings the library emits canonically; LOCAL_EXT layout as documented by the library.", "6/C10"),
 "C11": ("runtime law checker over the full comparison matrix of a term universe (all pairs, all triples), owned vs zero-copy, plus std collections as consequence oracles",
         "Every pair and every triple of a universe of ~1100 (quick) / ~1700 (thorough) terms covering all representation boundaries and families of sibling values (genr/near.rs) is checked for antisymmetry, transitivity, ==>Equal, ==>equal hash, owned/borrowed agreement; sort/BTreeSet/HashSet behaviour is checked as a consequence. Exhaustive over the stated universe only.",
         "Universe construction (harness/src/props/c11.rs) decides reach; well-formed terms only.", "6/C11"),
 "C12": ("differential runtime oracle: independent implementation of Erlang's term order over all pairs of a term universe",
         "All ordered pairs of a universe of ~1100 (quick) / ~2000 (thorough) terms (incl. the sibling-value families) are compared by the library and by an independent exact implementation of Erlang's term order on the denoted values.",
         "Trusted base: refmodel::val::erl_cmp (exact int/float comparison, list/bit-string/map rules); identifier/fun order only checked for equality; maps with mixed int/float keys excluded.", "6/C12"),
 "C13": ("differential runtime monitor: zero-copy decoder vs owned decoder on valid modern encodings, truncations, mutations and random bytes",
         "~3.4e5 (quick) / ~1e7 (thorough) inputs incl. every value also in legacy-tag encodings and 6e4 maps keyed by sibling values (also pairs Erlang's == identifies and non-finite floats); every valid input with one place spelled another way the format offers (judged as valid modern input when an independent reader confirms); structural comparison does not go through the library's ==.",
         "Modern tag set as listed in the evidence assumptions; inputs that make a decoder panic/abort are left to C02.", "6/C13"),
 "C14": ("differential runtime oracle: independent distribution-header reader for the library's writer, and an atom-cache sender model producing message histories for the library's reader",
         "Writer: 0..300 distinct atoms, even/odd counts, all length classes, read by an independent header reader and by the library. Reader: 300 (quick) / 6e4 (thorough) histories of up to 50 messages (a third of them control-only) with new entries, re-use, overwrites, all segments, header position != slot, messages with a faultless header and undecodable terms in between, decoded with one persistent cache.",
         "Header layout per erl_dist_protocol; the reference writer/reader pair is self-checked at start.", "6/C14"),
 "C15": ("runtime round-trip monitor over a family of Rust types on both paths (term, bytes), classifying equal / altered / error",
         "All integer widths with boundary values, floats, char, strings, options, unit, tuples, sequences, maps with string and integer keys, plain and ElixirStruct structs (also with raw-identifier fields, nested), all four enum variant shapes (compound payloads; variants and fields spelled like the format's own atoms), options of empty containers, nestings; a history-independence probe; ~1.6e4 (quick) / ~1e6 (thorough) values.",
         "Excluded shapes as in the property (nested options, Option<()>, NaN, an Option directly around a variant spelled nil/undefined).", "6/C15"),
 "C16": ("runtime uniqueness oracle under a turn-based deterministic scheduler driven by sync-point hooks (interleavings enumerated), free-running stress with injected delays, sequential wrap runs",
         "Interleavings of 2x1, 2x2, 3x1 (+3x2, 4x1 thorough) allocations enumerated depth-first over the hook points from counter positions at and before the wrap; 2..16-thread stress with seeded delays; 2..5 sequential wraps; histories of allocations interleaved with set_creation to new, the same and earlier values; 16-thread make_reference; make_reference among unlink / monitor requests of the same node that succeed or fail behind a busy connection. Evidence reports the distinct step orders actually realised.",
         "Needs the verif-hooks sync points and lock probe in PidAllocator::allocate; uniqueness only within 2^32 serial increments.", "6/C16"),
 "C06": ("history checker at the client boundary: a scripted peer sends uniquely identified messages in every wire form over a real socket, the values returned by Connection::receive_message are compared with the sent sequence",
         "240 (quick) / 9000 (thorough) peer histories under three negotiated flag sets: every control kind, payloads to 70 kB, distribution headers from the atom-cache sender model, 1..5 fragments (also interleaved sequences), long-lived connections that learn atoms in more than 256 cache slots, ticks and 21 kinds of junk frames at random positions - also between the fragments of an open sequence and claiming to belong to it - random TCP slicing, histories ending with the peer dying inside a frame. Exactly-once, in-order, intact delivery; junk costs at most one error; no panic. Slow-peer timelines (ticks, silences longer than the caller's timeout, frames in pieces) for receive_message_from_read_half.",
         "Scripted peer and fake EPMD are independent of edp_client (own layouts, own MD5); needs the EPMD port override hook.", "6/C06"),
 "C07": ("frame-level monitor at a scripted peer with an independent protocol reader, plus exactly-once / per-caller-order / no-interleaving checker for concurrent senders under seeded yields at the partial-write hooks",
         "Every operation x argument class x both framing modes against a directly driven Connection (one frame, right control tuple, payload, node-local ids verbatim and plain ids plain, nothing before the handshake nor after a handshake that failed at its last step - the peer records any byte that still arrives), with planned and random histories re-using a destination and its twin in the other wire form; frames of 1..13 MiB written while the peer is not reading yet; operations that cannot be sent inside histories; 9..16 MiB remote calls with 1..150 ms timeouts through a Node followed by ordinary operations; 2..64 tasks x 5..40 operations through one Node on a current-thread runtime with injected yields between the partial writes and on a multi-thread runtime.",
         "Unique ids travel in payloads / from-pids; needs the EPMD override and the conn:send yield points.", "6/C07"),
 "C17": ("history checker over concurrent remote calls against a scripted rex peer (permuted / late / duplicated / missing / misaddressed replies, faults) with a quiescence invariant on the outstanding-call table read through a hook",
         "36+18 (quick) / 3000+1500 (thorough) scenarios with 1..64 concurrent callers, 9 reply scripts, a second wave of calls outstanding while late and repeated replies of the first wave arrive, callers looping while the peer's socket goes away (the suspension point between registration and connection lookup widened by the hook), calls made before Node::start answered while later calls wait (EPMD creations 1..3 and 32-bit), replies misaddressed by serial / creation / node name, payload-less SENDs, a call to an unconnected node and a call whose request cannot be sent; seeded yields at the insert/send/remove and lookup/remove hooks. Own reply only, every call ends, table empty at quiescence.",
         "Needs pending_rpc_count() and the node:rpc / node:route yield points; real-time call timeouts (overruns = inconclusive); a plain-thread stall watchdog (120 s without a scenario heartbeat) reports a blocked runtime.", "6/C17"),
 "C18": ("offline checkers over a recorded event log: per-sender FIFO exactly-once delivery, exactly-once exit/monitor notices, name lifecycle, exact per-name linearizability search, one reply per behaviour call",
         "60 (quick) / 8000 (thorough) random operation histories (3..8 processes, 2..6 tasks, 1..3 contended names) on a multi-thread runtime and on a current-thread runtime with yields at the exit-propagation hooks; histories recorded at the client boundary with one logical clock; bursts of 400..3000 messages from 1..3 senders to a gated process (exactly once, in each sender's order); 2..6 tasks racing to register the same 150..1200 names; names of live processes with a past (given up by a process that then fails) must keep resolving; behaviour calls from a caller parked in the middle of terminating mixed with calls from a live caller.",
         "Links/monitors are compared as of a quiescent barrier before the failure; per-name histories are cut at quiescent instants and checked exactly (<= 22 overlapping operations).", "6/C18"),
 "C19": ("scripted inbound histories over a real connection with a probe-after-fault oracle and connection-membership sampling",
         "45 (quick) / 3000 (thorough) histories: routed sends / exits / monitor exits / rpc replies must reach exactly their target with fields intact, also right after the registered name changed hands or was given up locally; after each of 14 survivable faults (incl. messages for a process whose handler crashed or panicked, over-deep frames followed by the deepest legal payload, control tuples with odd heads) a probe must be delivered and the connection still be registered; bursts of 150..2600 frames for a gated or slow process must each be delivered exactly once; close / EOF inside a frame / over-long length must deregister within 5 s, after which a second connection to the same peer must register, deliver, survive a fault and deregister in turn; 12.5 s quiet periods: silence then a frame in pieces, tick then silence, then an ordinary frame.",
         "Verdict by probe delivery, never by timing; the node's 10 s read timeout is fixed in the library, so the quiet scenario needs real time.", "6/C19"),
 "C20": ("runtime round-trip / no-fabrication monitor for the Elixir wrappers, i128 reference model for ranges (debug and release builds), model-based check of proplist/map helpers and builders",
         "Every wrapper through term and wire with extreme field values, mutated terms must be rejected or accepted without fabricating a field; range len/contains/iteration/size_hint against an i128 reference over a bounds x steps grid in both build profiles; proplist<->map conversions on well-formed proplists; both builders driven through every method (conditional ones, extend with keys already present) against a model; derive(ElixirStruct) mappings (raw-identifier fields, no fields, nested, fields named like words of the format) through term, bytes and the plain codec, wrong shapes rejected.",
         "Judgement calls listed in DESIGN.md 7a (Elixir. prefix normalisation, nil as absent optional).", "6/C20"),
}

checks = []
na = []
for pid in ids:
    if pid in DONE:
        tech, text, note, ref = DONE[pid]
        checks.append({
            "property_id": pid,
            "quick_cmd": f"./check {pid} --tier quick",
            "thorough_cmd": f"./check {pid} --tier thorough",
            "evidence_file": f"/verif/evidence/{pid}.json",
            "replay_cmd_template": f"./check {pid} --replay {{path}}",
            "engine": "vh",
            "level_claimed": {"category": "exploration", "text": text, "design_ref": f"DESIGN.md section {ref}"},
            "level_note": note,
            "technique": tech,
        })
    else:
        na.append({"property_id": pid, "reason": "check not built yet (work in progress; DESIGN.md section 6 describes the planned runtime monitor)"})

hooks = subprocess.run(["git", "-C", "/repo", "log", "--format=%h %s", "--grep=^verif-hooks"], capture_output=True, text=True).stdout.strip().splitlines()
m = {
 "version": 1,
 "setup_cmd": "cd /verif/harness && CARGO_NET_OFFLINE=true cargo build --offline --release && CARGO_NET_OFFLINE=true cargo build --offline",
 "hooks": {
  "guard": "cargo feature `verif-hooks` on crates edp_client and edp_node (off by default)",
  "enable": "the harness crate /verif/harness depends on /repo/crates/{edp_client,edp_node} by path with features = [\"verif-hooks\"]",
  "baseline_off_cmd": "cd /repo && cargo test --workspace --no-fail-fast --offline",
  "source_commits": [h.split()[0] for h in hooks][::-1],
  "add_only": True,
 },
 "engines": [{"name": "vh", "path": "/verif/harness", "serves_properties": [c["property_id"] for c in checks],
              "kind_free_text": "Rust harness: seeded workloads + runtime monitors (independent reference models, history checkers, process-level observers) run against the library built from /repo's working tree; driven by /verif/check"}],
 "checks": checks,
 "not_applicable": na,
 "notes": "Known findings: /verif/known_findings.json (open = KNOWN-FINDING line, fixed = suppresses nothing). Witnesses: /verif/replay/<id>/. VERIF_SEED seeds every random choice.",
}
json.dump(m, open('/verif/MANIFEST.json', 'w'), indent=1)
print(len(checks), "checks,", len(na), "not yet")
