#!/usr/bin/env python3
"""Independent confirmation of a delivered seeded change before it is kept:
 patch applies to /repo HEAD (in a scratch worktree of it, /tmp/sv/wt, so /repo itself is never touched), compiles, the 808-test baseline still passes with it, the
 demonstration fails with it and passes without it. Usage: seeded_verify.py <src SEEDED dir> <name>"""
import json, os, shutil, subprocess, sys, re

WT = '/tmp/sv/wt'

def sh(cmd, cwd=None):
    cwd = cwd or WT
    return subprocess.run(cmd, shell=True, cwd=cwd, stdout=subprocess.PIPE, stderr=subprocess.STDOUT, text=True)

def clean():
    return sh('git status --porcelain').stdout.strip() == ''

src, name = sys.argv[1], sys.argv[2]
head = subprocess.run('git -C /repo rev-parse HEAD', shell=True, stdout=subprocess.PIPE, text=True).stdout.strip()
if not os.path.isdir(WT):
    os.makedirs('/tmp/sv', exist_ok=True)
    subprocess.run(f'git -C /repo worktree add --detach {WT} {head}', shell=True, check=True, stdout=subprocess.DEVNULL, stderr=subprocess.DEVNULL)
else:
    sh(f'git checkout -q --detach {head}')
meta = json.load(open(f'{src}/meta.json'))
demo = meta['demo'] if isinstance(meta['demo'], str) else meta['demo'][0]
demo = os.path.basename(demo)
demo = re.search(r'[\w.-]+\.rs', demo).group(0)
cmd = meta['demo_cmd']
m = re.search(r'-p\s+(\S+)', cmd)
crate = m.group(1)
assert clean(), 'scratch worktree not clean'
dest_demo = f'{WT}/crates/{crate}/tests/{demo}'
report = {}
try:
    shutil.copy(f'{src}/{demo}', dest_demo)
    # without the change
    r = sh(cmd)
    report['demo_without_change_passes'] = r.returncode == 0
    report['demo_without_tail'] = r.stdout[-400:]
    a = sh(f'git apply {src}/patch.diff')
    report['patch_applies'] = a.returncode == 0
    if a.returncode == 0:
        b = sh('cargo build --offline --workspace')
        report['compiles'] = b.returncode == 0
        r = sh(cmd)
        report['demo_with_change_fails'] = r.returncode != 0
        report['demo_with_tail'] = r.stdout[-600:]
        os.remove(dest_demo)
        t = subprocess.run(['python3', '/verif/baseline_check.py'], env=dict(os.environ, VERIF_REPO=WT), stdout=subprocess.PIPE, stderr=subprocess.STDOUT, text=True)
        report['baseline_passes_with_change'] = t.returncode == 0
        report['baseline_summary'] = t.stdout.strip().splitlines()[-1] if t.stdout.strip() else ''
finally:
    if os.path.exists(dest_demo):
        os.remove(dest_demo)
    sh('git checkout -- .')
ok = all(report.get(k) for k in ['demo_without_change_passes', 'patch_applies', 'compiles', 'demo_with_change_fails', 'baseline_passes_with_change'])
report['confirmed'] = ok
print(json.dumps({k: v for k, v in report.items() if not k.endswith('_tail')}, indent=1))
if ok:
    d = f'/verif/seeded/{name}'
    os.makedirs(d, exist_ok=True)
    shutil.copy(f'{src}/patch.diff', f'{d}/patch.diff')
    shutil.copy(f'{src}/{demo}', f'{d}/{demo}')
    meta['confirmed_by_main'] = {k: v for k, v in report.items() if not k.endswith('_tail')}
    meta['what_i_ran'] = [cmd + ' (without the change: passes)', '(scratch worktree of /repo HEAD) git apply patch.diff; cargo build --offline --workspace', cmd + ' (with the change: fails)', 'python3 /verif/baseline_check.py (808 stable tests pass with the change)']
    json.dump(meta, open(f'{d}/meta.json', 'w'), indent=1)
else:
    print(report.get('demo_without_tail', '')[-300:]); print(report.get('demo_with_tail', '')[-300:])
sys.exit(0 if ok else 1)
