//! C16 – allocated pids and references are unique under any interleaving.
//!
//! (a) sequential runs across several wraps; (b) a turn-based deterministic scheduler driven by the
//! `pid_alloc:*` sync points and the lock probe, enumerating interleavings of small configurations;
//! (c) free-running stress with seeded delays at the hooks; (d) make_reference from many threads.

use crate::out::Ctx;
use crate::rng::Rng;
use edp_client::PidAllocator;
use erltf::types::Atom;
use serde_json::json;
use std::cell::Cell;
use std::collections::HashSet;
use std::sync::atomic::{AtomicU64, Ordering};
use std::sync::{Arc, Barrier, Condvar, Mutex};

const MAX_ID: u32 = 1_048_576;

thread_local! {
    static WORKER: Cell<Option<usize>> = const { Cell::new(None) };
}

#[derive(Clone, Copy, PartialEq, Eq, Debug)]
enum St {
    NotStarted,
    Ready,   // parked at a sync point, may be scheduled
    Blocked, // parked at the lock probe, waits for another worker to finish an allocation
    Running,
    Done,
}

struct Sched {
    status: Vec<St>,
    turn: Option<usize>,
    trace: Vec<(usize, &'static str)>,
    /// the controller is shutting the run down: everybody runs freely
    free_run: bool,
}

struct Shared {
    m: Mutex<Sched>,
    cv: Condvar,
}

impl Shared {
    /// Called by worker `w` at a hook point: hand the turn back and wait to be scheduled again.
    fn park(&self, w: usize, name: &'static str, st: St) {
        let mut g = self.m.lock().unwrap();
        if g.free_run {
            return;
        }
        g.trace.push((w, name));
        g.status[w] = st;
        g.turn = None;
        self.cv.notify_all();
        while g.turn != Some(w) && !g.free_run {
            g = self.cv.wait(g).unwrap();
        }
        g.status[w] = St::Running;
    }
}

/// One schedule = a sequence of (chosen index, number of candidates) at every decision.
#[derive(Default)]
struct Odometer {
    trail: Vec<(usize, usize)>,
    cursor: usize,
}
impl Odometer {
    fn begin(&mut self) {
        self.cursor = 0;
    }
    fn choose(&mut self, n: usize) -> usize {
        let i = self.cursor;
        self.cursor += 1;
        if i < self.trail.len() {
            let c = self.trail[i].0.min(n - 1);
            self.trail[i] = (c, n);
            c
        } else {
            self.trail.push((0, n));
            0
        }
    }
    fn advance(&mut self) -> bool {
        self.trail.truncate(self.cursor);
        while let Some((c, n)) = self.trail.pop() {
            if c + 1 < n {
                self.trail.push((c + 1, n));
                return true;
            }
        }
        false
    }
}

struct RunResult {
    pids: Vec<(usize, u32, u32, u32)>, // worker, id, serial, creation
    trace: Vec<(usize, &'static str)>,
    stalled: bool,
}

/// Run `threads` workers doing `allocs` allocations each under the controller; `pick(n)` decides
/// which of the n schedulable workers runs next.
fn run_schedule(threads: usize, allocs: usize, start_id: u32, start_serial: u64, creation: u32, pick: &mut dyn FnMut(usize) -> usize) -> RunResult {
    let alloc = Arc::new(PidAllocator::new(Atom::new("n@h"), creation));
    alloc.next_id_test_only().store(start_id, Ordering::SeqCst);
    alloc.next_serial_test_only().store(start_serial, Ordering::SeqCst);
    let shared = Arc::new(Shared {
        m: Mutex::new(Sched { status: vec![St::NotStarted; threads], turn: None, trace: vec![], free_run: false }),
        cv: Condvar::new(),
    });
    let sh2 = shared.clone();
    edp_client::verif::set_callback(Some(Arc::new(move |name: &'static str| -> u32 {
        if let Some(w) = WORKER.with(|c| c.get()) {
            if name.starts_with("pid_alloc:") {
                let st = if name.ends_with(":blocked") { St::Blocked } else { St::Ready };
                sh2.park(w, name, st);
            }
        }
        0
    })));
    let results: Arc<Mutex<Vec<(usize, u32, u32, u32)>>> = Arc::new(Mutex::new(Vec::new()));
    let mut handles = Vec::new();
    for w in 0..threads {
        let alloc = alloc.clone();
        let shared = shared.clone();
        let results = results.clone();
        handles.push(std::thread::spawn(move || {
            WORKER.with(|c| c.set(Some(w)));
            shared.park(w, "start", St::Ready);
            for _ in 0..allocs {
                let p = alloc.allocate().expect("allocate");
                results.lock().unwrap().push((w, p.id, p.serial, p.creation));
                // an allocation finished: blocked workers may try again
                let mut g = shared.m.lock().unwrap();
                for s in g.status.iter_mut() {
                    if *s == St::Blocked {
                        *s = St::Ready;
                    }
                }
                drop(g);
                shared.park(w, "allocated", St::Ready);
            }
            let mut g = shared.m.lock().unwrap();
            g.status[w] = St::Done;
            g.turn = None;
            shared.cv.notify_all();
            WORKER.with(|c| c.set(None));
        }));
    }
    // controller
    let mut stalled = false;
    loop {
        let mut g = shared.m.lock().unwrap();
        // wait until nobody holds the turn and every worker has reached its first park
        let deadline = std::time::Instant::now() + std::time::Duration::from_secs(20);
        while g.turn.is_some() || g.status.iter().any(|s| *s == St::NotStarted || *s == St::Running) {
            let (ng, to) = shared.cv.wait_timeout(g, std::time::Duration::from_millis(200)).unwrap();
            g = ng;
            if to.timed_out() && std::time::Instant::now() > deadline {
                stalled = true;
                break;
            }
        }
        if stalled {
            g.free_run = true;
            shared.cv.notify_all();
            break;
        }
        if g.status.iter().all(|s| *s == St::Done) {
            break;
        }
        let mut cands: Vec<usize> = (0..threads).filter(|w| g.status[*w] == St::Ready).collect();
        if cands.is_empty() {
            // only blocked workers left although nobody runs: let them re-probe
            cands = (0..threads).filter(|w| g.status[*w] == St::Blocked).collect();
            if cands.is_empty() {
                break;
            }
        }
        let k = pick(cands.len());
        let w = cands[k.min(cands.len() - 1)];
        g.status[w] = St::Running;
        g.turn = Some(w);
        shared.cv.notify_all();
    }
    for h in handles {
        let _ = h.join();
    }
    edp_client::verif::set_callback(None);
    let trace = shared.m.lock().unwrap().trace.clone();
    let pids = results.lock().unwrap().clone();
    RunResult { pids, trace, stalled }
}

fn check_pids(ctx: &Ctx, pids: &[(usize, u32, u32, u32)], creation: u32, origin: &str, extra: serde_json::Value) -> bool {
    check_pids_from(ctx, pids, creation, origin, extra, None)
}

/// `start`: the counter position the allocator was preset to. An allocator that reaches
/// (start_id, start_serial) has already handed out every id below start_id with that serial, so a
/// pid <id.start_serial> with id < start_id is a re-issue even if this run sees it only once.
fn check_pids_from(ctx: &Ctx, pids: &[(usize, u32, u32, u32)], creation: u32, origin: &str, extra: serde_json::Value, start: Option<(u32, u64)>) -> bool {
    let mut seen: HashSet<(u32, u32)> = HashSet::new();
    let mut ok = true;
    if let Some((sid, sser)) = start {
        let era = (sser % (1u64 << 32)) as u32;
        for (w, id, serial, _) in pids {
            if *serial == era && *id < sid {
                ctx.viol(
                    &format!("C16:reissued-pid:{}", origin),
                    "a pid number of the current serial era was handed out again instead of the serial advancing",
                    json!({"pid": format!("<{}.{}>", id, serial), "worker": w, "counters_started_at": format!("next_id={}, serial={}", sid, sser), "all": pids.iter().map(|p| format!("w{}:<{}.{}>", p.0, p.1, p.2)).collect::<Vec<_>>(), "detail": extra}),
                );
                ok = false;
            }
        }
    }
    for (w, id, serial, cr) in pids {
        if !seen.insert((*id, *serial)) {
            ctx.viol(
                &format!("C16:duplicate-pid:{}", origin),
                "the same (id, serial) pair was handed out twice",
                json!({"pid": format!("<{}.{}>", id, serial), "worker": w, "all": pids.iter().map(|p| format!("w{}:<{}.{}>", p.0, p.1, p.2)).collect::<Vec<_>>(), "detail": extra}),
            );
            ok = false;
        }
        if *id == 0 || *id > MAX_ID {
            ctx.viol(&format!("C16:id-out-of-range:{}", origin), "pid number outside 1..=2^20", json!({"id": id, "detail": extra}));
            ok = false;
        }
        if *cr != creation {
            ctx.viol(&format!("C16:creation-mismatch:{}", origin), "pid does not carry the creation in force", json!({"creation": cr, "expected": creation, "detail": extra}));
            ok = false;
        }
    }
    ok
}

fn sequential(ctx: &Ctx) {
    // (a) from the initial state across several wraps
    let wraps = ctx.pick(2usize, 5usize);
    let n = wraps * MAX_ID as usize + 17;
    let alloc = PidAllocator::new(Atom::new("n@h"), 7u32);
    let mut keys: Vec<u64> = Vec::with_capacity(n);
    let mut bad_range = 0u64;
    let mut prev: Option<(u32, u32)>;
    for _ in 0..n {
        let p = alloc.allocate().expect("allocate");
        if p.id == 0 || p.id > MAX_ID || p.creation != 7 {
            bad_range += 1;
        }
        prev = Some((p.id, p.serial));
        keys.push(((p.serial as u64) << 32) | p.id as u64);
    }
    ctx.eval(n as u64);
    keys.sort_unstable();
    let before = keys.len();
    keys.dedup();
    if keys.len() != before {
        ctx.viol("C16:duplicate-pid:sequential-wrap", "sequential allocation re-issued an (id, serial) pair across a wrap", json!({"allocations": before, "distinct": keys.len()}));
    }
    if bad_range > 0 {
        ctx.viol("C16:id-out-of-range:sequential", "id outside 1..=2^20 or wrong creation", json!({"count": bad_range}));
    }
    ctx.class(&format!("sequential/{}wraps", wraps));
    ctx.extra("sequential_allocations", json!(n));
    // (a2) from just before the id wrap and just before the serial's 32-bit wrap
    for (sid, sser) in [(MAX_ID - 2, 0u64), (MAX_ID - 1, 5), (MAX_ID, 0), (MAX_ID - 3, (1u64 << 32) - 2), (MAX_ID - 1, (1u64 << 32) - 1), (MAX_ID, (1u64 << 32) - 1), (MAX_ID, u64::MAX - 1), (MAX_ID - 1, u64::MAX)] {
        let alloc = PidAllocator::new(Atom::new("n@h"), 3u32);
        alloc.next_id_test_only().store(sid, Ordering::SeqCst);
        alloc.next_serial_test_only().store(sser, Ordering::SeqCst);
        alloc.set_creation(99u32);
        let pids: Vec<(usize, u32, u32, u32)> = (0..12).map(|_| { let p = alloc.allocate().unwrap(); (0, p.id, p.serial, p.creation) }).collect();
        ctx.eval(12);
        ctx.class(&format!("sequential/start-id{}-serial{}", sid, if sser > 1 << 31 { "near-wrap" } else { "small" }));
        check_pids_from(ctx, &pids, 99, "sequential-near-wrap", json!({"start_id": sid, "start_serial": sser}), Some((sid, sser)));
    }
}

/// Allocation interleaved with creation changes (a node learns its creation from EPMD after it was built, and
/// may be told the same value again or return to an earlier one): identifiers stay pairwise distinct as
/// (id, serial, creation) triples and each carries the creation in force when it was made.
fn creation_histories(ctx: &Ctx, rng: &mut Rng) {
    for round in 0..ctx.pick(40usize, 2000usize) {
        let start_creation = *rng.pick(&[0u32, 1, 2, 7, u32::MAX]);
        let alloc = PidAllocator::new(Atom::new("n@h"), start_creation);
        if rng.chance(1, 3) {
            // sometimes close to the id wrap, so that the serial has advanced before a creation returns
            alloc.next_id_test_only().store(MAX_ID - rng.below(4) as u32, Ordering::SeqCst);
            alloc.next_serial_test_only().store(*rng.pick(&[0u64, 5, (1u64 << 32) - 1]), Ordering::SeqCst);
        }
        let mut in_force = start_creation;
        let pool = [start_creation, start_creation.wrapping_add(1), 0, 1, 3, 4, u32::MAX];
        let mut seen: HashSet<(u32, u32, u32)> = HashSet::new();
        let mut history: Vec<String> = Vec::new();
        let steps = 4 + rng.below(12);
        let mut bad = false;
        for _ in 0..steps {
            if rng.chance(1, 3) {
                let c = *rng.pick(&pool);
                alloc.set_creation(c);
                in_force = c;
                history.push(format!("set_creation({})", c));
            } else {
                for _ in 0..1 + rng.below(4) {
                    let p = alloc.allocate().expect("allocate");
                    ctx.eval(1);
                    history.push(format!("<{}.{}.{}>", p.id, p.serial, p.creation));
                    if p.creation != in_force && !bad {
                        bad = true;
                        ctx.viol("C16:creation-mismatch:creation-history", "a pid does not carry the creation in force when it was made", json!({"history": history, "in_force": in_force}));
                    }
                    if !seen.insert((p.id, p.serial, p.creation)) && !bad {
                        bad = true;
                        ctx.viol("C16:duplicate-pid:creation-history", "the same (id, serial, creation) triple was handed out twice by one allocator", json!({"history": history}));
                    }
                }
            }
        }
        ctx.class(&format!("creation-history/{}", if history.iter().filter(|h| h.starts_with("set")).count() > 1 { "several-changes" } else { "at-most-one-change" }));
        if round == 0 {
            ctx.sample(json!({"creation_history": history}));
        }
    }
}

fn enumerated(ctx: &Ctx, rng: &mut Rng) {
    let configs: Vec<(usize, usize, u64)> = if ctx.quick() { vec![(2, 1, 400), (2, 2, 600), (3, 1, 500)] } else { vec![(2, 1, 100_000), (2, 2, 400_000), (3, 1, 400_000), (3, 2, 100_000), (4, 1, 100_000)] };
    let starts: &[(u32, u64)] = &[(1, 0), (MAX_ID - 1, 0), (MAX_ID, 0), (MAX_ID, (1u64 << 32) - 1)];
    let mut distinct_traces: HashSet<u64> = HashSet::new();
    let mut total = 0u64;
    for (threads, allocs, cap) in configs {
        for (sid, sser) in starts {
            let mut od = Odometer::default();
            let mut n = 0u64;
            let mut exhausted = false;
            let mut local_traces: HashSet<u64> = HashSet::new();
            loop {
                if !ctx.time_left() {
                    break;
                }
                od.begin();
                let r = run_schedule(threads, allocs, *sid, *sser, 42, &mut |k| od.choose(k));
                n += 1;
                ctx.eval(1);
                if r.stalled {
                    ctx.inconclusive("scheduler stalled (a worker did not reach its next sync point within 20 s)");
                    break;
                }
                let th = crate::rng::fnv(format!("{:?}", r.trace).as_bytes());
                local_traces.insert(th);
                distinct_traces.insert(th ^ ((threads as u64) << 56) ^ ((*sid as u64) << 20));
                let tr: Vec<String> = r.trace.iter().map(|(w, p)| format!("{}:{}", w, p.trim_start_matches("pid_alloc:"))).collect();
                if r.pids.len() != threads * allocs {
                    ctx.viol("C16:allocation-lost", "a worker did not get its pid", json!({"got": r.pids.len(), "trace": tr}));
                }
                check_pids_from(ctx, &r.pids, 42, "interleaving", json!({"threads": threads, "allocs_each": allocs, "start_id": sid, "start_serial": sser, "schedule": tr}), Some((*sid, *sser)));
                if n == 1 && *sid == MAX_ID && threads == 2 && allocs == 1 {
                    ctx.sample(json!({"threads": threads, "allocs_each": allocs, "start_id": sid, "schedule": tr, "pids": r.pids.iter().map(|p| format!("w{}:<{}.{}>", p.0, p.1, p.2)).collect::<Vec<_>>()}));
                }
                if n >= cap {
                    break;
                }
                if !od.advance() {
                    exhausted = true;
                    break;
                }
            }
            total += n;
            ctx.class(&format!("enumerated/{}x{}/start{}/{}", threads, allocs, sid, if exhausted { "exhaustive" } else { "capped" }));
            ctx.count(&format!("schedules_{}x{}_start{}{}", threads, allocs, sid, if exhausted { "_exhaustive" } else { "" }), n);
            ctx.count(&format!("distinct_step_orders_{}x{}_start{}", threads, allocs, sid), local_traces.len() as u64);
        }
    }
    // random schedules for 4 threads x 2
    let rounds = ctx.pick(150, 40_000);
    for _ in 0..rounds {
        if !ctx.time_left() {
            break;
        }
        let (sid, sser) = *rng.pick(starts);
        let threads = 2 + rng.below(3);
        let r = run_schedule(threads, 2, sid, sser, 42, &mut |k| rng.below(k));
        ctx.eval(1);
        total += 1;
        if r.stalled {
            ctx.inconclusive("scheduler stalled");
            break;
        }
        distinct_traces.insert(crate::rng::fnv(format!("{:?}", r.trace).as_bytes()));
        let tr: Vec<String> = r.trace.iter().map(|(w, p)| format!("{}:{}", w, p.trim_start_matches("pid_alloc:"))).collect();
        check_pids_from(ctx, &r.pids, 42, "interleaving", json!({"threads": threads, "allocs_each": 2, "start_id": sid, "start_serial": sser, "schedule": tr}), Some((sid, sser)));
    }
    for h in distinct_traces.iter().take(200_000) {
        ctx.class_hash(*h);
    }
    ctx.extra("schedules_run", json!(total));
    ctx.extra("distinct_step_orders_observed", json!(distinct_traces.len()));
}

fn stress(ctx: &Ctx, rng: &mut Rng) {
    // free-running threads, start barrier, seeded spin/yield delays at the hook points
    let rounds = ctx.pick(300usize, 40_000usize);
    let seed = rng.next_u64();
    let counter = Arc::new(AtomicU64::new(seed));
    let c2 = counter.clone();
    edp_client::verif::set_callback(Some(Arc::new(move |name: &'static str| -> u32 {
        if name.starts_with("pid_alloc:") && WORKER.with(|c| c.get()).is_some() {
            let x = c2.fetch_add(0x9E37_79B9_7F4A_7C15, Ordering::Relaxed);
            let z = (x ^ (x >> 31)).wrapping_mul(0xBF58_476D_1CE4_E5B9);
            match z % 8 {
                0 => std::thread::yield_now(),
                1 => {
                    for _ in 0..(z >> 8) % 200 {
                        std::hint::spin_loop();
                    }
                }
                2 => std::thread::sleep(std::time::Duration::from_micros((z >> 8) % 30)),
                _ => {}
            }
        }
        0
    })));
    for r in 0..rounds {
        if !ctx.time_left() {
            break;
        }
        let threads = *rng.pick(&[2usize, 3, 4, 8, 16]);
        let per = *rng.pick(&[1usize, 2, 5, 20]);
        let (sid, sser) = *rng.pick(&[(1u32, 0u64), (MAX_ID - 3, 0), (MAX_ID - 1, 9), (MAX_ID, (1u64 << 32) - 1), (MAX_ID - 10, (1u64 << 32) - 2)]);
        let alloc = Arc::new(PidAllocator::new(Atom::new("n@h"), 11u32));
        alloc.next_id_test_only().store(sid, Ordering::SeqCst);
        alloc.next_serial_test_only().store(sser, Ordering::SeqCst);
        let barrier = Arc::new(Barrier::new(threads));
        let mut hs = Vec::new();
        for w in 0..threads {
            let alloc = alloc.clone();
            let barrier = barrier.clone();
            hs.push(std::thread::spawn(move || {
                WORKER.with(|c| c.set(Some(w)));
                barrier.wait();
                let v: Vec<(usize, u32, u32, u32)> = (0..per).map(|_| { let p = alloc.allocate().unwrap(); (w, p.id, p.serial, p.creation) }).collect();
                WORKER.with(|c| c.set(None));
                v
            }));
        }
        let mut pids = Vec::new();
        for h in hs {
            pids.extend(h.join().unwrap());
        }
        ctx.eval(pids.len() as u64);
        ctx.class(&format!("stress/{}threads/{}each/start{}", threads, per, sid));
        check_pids_from(ctx, &pids, 11, "stress", json!({"round": r, "threads": threads, "each": per, "start_id": sid, "start_serial": sser}), Some((sid, sser)));
    }
    edp_client::verif::set_callback(None);
}

fn references(ctx: &Ctx) {
    let node = Arc::new(edp_node::Node::new("refs@localhost", "cookie"));
    let threads = 16usize;
    let per = ctx.pick(20_000usize, 200_000usize);
    let barrier = Arc::new(Barrier::new(threads));
    let mut hs = Vec::new();
    for _ in 0..threads {
        let node = node.clone();
        let barrier = barrier.clone();
        hs.push(std::thread::spawn(move || {
            barrier.wait();
            let mut v: Vec<(u32, u32, u32, u32)> = Vec::with_capacity(per);
            for _ in 0..per {
                let r = node.make_reference();
                let ids = &r.ids;
                v.push((ids.first().copied().unwrap_or(0), ids.get(1).copied().unwrap_or(0), ids.get(2).copied().unwrap_or(0), r.creation));
            }
            v
        }));
    }
    let mut all: Vec<(u32, u32, u32, u32)> = Vec::new();
    for h in hs {
        all.extend(h.join().unwrap());
    }
    ctx.eval(all.len() as u64);
    let creation = node.creation();
    let wrong_creation = all.iter().filter(|r| r.3 != creation).count();
    let mut keys: Vec<(u32, u32, u32)> = all.iter().map(|r| (r.0, r.1, r.2)).collect();
    keys.sort_unstable();
    let n = keys.len();
    keys.dedup();
    ctx.class("references/16threads");
    if keys.len() != n {
        ctx.viol("C16:duplicate-reference", "make_reference returned the same reference words twice", json!({"made": n, "distinct": keys.len()}));
    }
    if wrong_creation > 0 {
        ctx.viol("C16:reference-creation-mismatch", "reference does not carry the node's creation", json!({"count": wrong_creation}));
    }
    ctx.extra("references_made", json!(n));
}

/// References made while other operations of the same node draw numbers from the same source (unlink ids, monitor
/// references) and succeed or fail: towards a live scripted peer, towards a connection entry that never completed its
/// handshake, towards a node nobody is connected to. Every reference handed out (by `make_reference` and by
/// `monitor`) must still be unique.
fn references_among_other_operations(ctx: &Ctx, rng: &mut Rng) {
    use crate::mon::net::{self, PEER_BASE_FLAGS};
    use erltf::types::{Atom, ExternalPid};
    let rt = tokio::runtime::Builder::new_multi_thread().worker_threads(8).enable_all().build().expect("runtime");
    rt.block_on(async {
        let epmd = net::start_epmd().await;
        for round in 0..ctx.pick(3usize, 60usize) {
            let name = format!("refpeer{}", round);
            let pl = net::listen_as(&epmd, &name).await;
            let peer_task = tokio::spawn(async move {
                let Ok(mut peer) = pl.accept("cookie", PEER_BASE_FLAGS, 84).await else { return };
                if peer.handshake().await.is_err() {
                    return;
                }
                while peer.read_frame4().await.is_ok() {}
            });
            let mut node = edp_node::Node::new(format!("refnode{}@127.0.0.1", round), "cookie");
            if let Err(e) = node.start(0).await {
                ctx.inconclusive(&format!("Node::start failed: {}", e));
                peer_task.abort();
                continue;
            }
            let live = format!("{}@127.0.0.1", name);
            if let Err(e) = node.connect(live.clone()).await {
                ctx.inconclusive(&format!("Node::connect failed: {}", e));
                peer_task.abort();
                continue;
            }
            // an entry whose handshake never happened: every request over it is refused
            let dead = "never_connected@127.0.0.1".to_string();
            let dead_conn = Arc::new(tokio::sync::Mutex::new(edp_client::Connection::new(edp_client::ConnectionConfig::new(node.name().as_str(), dead.clone(), "cookie"))));
            node.connections().insert(dead.clone(), dead_conn.clone());
            // connections are used by one caller at a time: somebody else keeps holding this one for short whiles, so
            // that requests queue up behind it the way they do behind a slow send
            let stop = Arc::new(std::sync::atomic::AtomicBool::new(false));
            let holder = {
                let stop = stop.clone();
                tokio::spawn(async move {
                    while !stop.load(std::sync::atomic::Ordering::Relaxed) {
                        let g = dead_conn.lock().await;
                        for _ in 0..20 {
                            tokio::task::yield_now().await;
                        }
                        drop(g);
                        tokio::task::yield_now().await;
                    }
                })
            };
            let node = Arc::new(node);
            let per = ctx.pick(1500usize, 6000usize);
            let seed = rng.next_u64();
            let mut makers = Vec::new();
            for t in 0..6u64 {
                let node = node.clone();
                makers.push(tokio::spawn(async move {
                    let mut r = Rng::new(seed ^ t);
                    let mut v: Vec<(u32, Vec<u32>)> = Vec::with_capacity(per);
                    for k in 0..per {
                        let x = node.make_reference();
                        v.push((x.creation, x.ids.clone()));
                        if k % 4 == 0 || r.chance(1, 8) {
                            tokio::task::yield_now().await;
                        }
                    }
                    v
                }));
            }
            let mut others = Vec::new();
            for t in 0..8u64 {
                let node = node.clone();
                let (live, dead) = (live.clone(), dead.clone());
                others.push(tokio::spawn(async move {
                    let mut r = Rng::new(seed ^ (t + 100));
                    let from = ExternalPid::new(node.name().clone(), 10 + t as u32, 0, node.creation());
                    let mut v: Vec<(u32, Vec<u32>)> = Vec::new();
                    let (mut ok, mut failed) = (0u64, 0u64);
                    for _ in 0..per / 2 {
                        let target = match r.below(4) {
                            0 => &live,
                            3 => "nobody@127.0.0.1",
                            _ => &dead,
                        };
                        let to = ExternalPid::new(Atom::new(target), 20, 0, 1);
                        let res = match r.below(3) {
                            0 | 1 => node.unlink(&from, &to).await.map(|_| None),
                            _ => node.monitor(&from, &to).await.map(Some),
                        };
                        match res {
                            Ok(Some(x)) => {
                                v.push((x.creation, x.ids.clone()));
                                ok += 1;
                            }
                            Ok(None) => ok += 1,
                            Err(_) => failed += 1,
                        }
                        if r.chance(1, 3) {
                            tokio::task::yield_now().await;
                        }
                    }
                    (v, ok, failed)
                }));
            }
            let mut all: Vec<(u32, Vec<u32>)> = Vec::new();
            for m in makers {
                if let Ok(v) = m.await {
                    all.extend(v);
                }
            }
            let (mut ok, mut failed) = (0u64, 0u64);
            for o in others {
                if let Ok((v, a, b)) = o.await {
                    all.extend(v);
                    ok += a;
                    failed += b;
                }
            }
            stop.store(true, std::sync::atomic::Ordering::Relaxed);
            let _ = holder.await;
            peer_task.abort();
            ctx.eval(all.len() as u64);
            ctx.class("references/among-unlinks-and-monitors-that-succeed-or-fail");
            ctx.count("other_operations_ok", ok);
            ctx.count("other_operations_failed", failed);
            let n = all.len();
            let mut keys = all.clone();
            keys.sort();
            let dup = keys.windows(2).find(|w| w[0] == w[1]).map(|w| w[0].clone());
            if let Some(d) = dup {
                keys.dedup();
                ctx.viol(
                    "C16:duplicate-reference:among-other-operations",
                    "a reference was handed out twice while unlink / monitor requests of the same node (some of them failing) drew from the same number source",
                    json!({"round": round, "references": n, "distinct": keys.len(), "one_duplicate": {"creation": d.0, "ids": d.1}, "other_operations_ok": ok, "other_operations_failed": failed}),
                );
            }
        }
    });
}

struct Idle;
impl edp_node::Process for Idle {
    async fn handle_message(&mut self, _msg: edp_node::Message) -> edp_node::Result<()> {
        Ok(())
    }
}

/// A started node: EPMD assigns the creation at registration; every identifier made afterwards - pids of spawned
/// processes, references, the node's own report - carries exactly that value.
fn started_nodes(ctx: &Ctx) {
    let rt = tokio::runtime::Builder::new_current_thread().enable_all().build().expect("runtime");
    rt.block_on(async {
        let epmd = crate::mon::net::start_epmd().await;
        for (k, assigned) in [1u32, 2, 3, 0x5EED_0016, 0x7fff_ffff, u32::MAX, 0].into_iter().enumerate() {
            *epmd.creation.lock().unwrap() = assigned;
            let mut node = edp_node::Node::new(format!("started{}@127.0.0.1", k), "cookie");
            if let Err(e) = node.start(0).await {
                ctx.inconclusive(&format!("Node::start against the fake EPMD failed: {}", e));
                continue;
            }
            ctx.eval(1);
            ctx.class(&format!("started-node/creation-{}", if assigned == 1 { "1" } else if assigned == 0 { "0" } else { "other" }));
            let reported = node.creation();
            let r1 = node.make_reference();
            let pid = node.spawn(Idle).await.ok();
            let r2 = node.make_reference();
            let seen = json!({"epmd_assigned": assigned, "node_reports": reported, "reference_before_spawn": r1.creation, "pid": pid.as_ref().map(|p| p.creation), "reference_after_spawn": r2.creation});
            let all_match = reported == assigned && r1.creation == assigned && r2.creation == assigned && pid.as_ref().map(|p| p.creation == assigned).unwrap_or(true);
            if !all_match {
                let which = if r1.creation != assigned || r2.creation != assigned { "reference" } else if reported != assigned { "node" } else { "pid" };
                ctx.viol(&format!("C16:creation-mismatch:started-node:{}", which), "an identifier made by a started node does not carry the creation EPMD assigned", seen);
            }
        }
    });
}

pub fn run(ctx: &Ctx) {
    ctx.rule("(a) sequential allocations across 2..5 wraps and from counters preset just before the id wrap and the serial's 32-bit wrap; (a') histories of allocations interleaved with set_creation to new, the same and earlier values; (b) turn-based scheduler over the pid_alloc sync points + lock probe: interleavings of 2x1, 2x2, 3x1 (and 3x2, 4x1 thorough) allocations enumerated depth-first (exhaustive where marked), random schedules for 2..4 threads; (c) free-running stress 2..16 threads with seeded spin/yield/sleep at the hook points; (d) 16 threads x make_reference; (d') make_reference from 6 tasks while 8 tasks issue unlink / monitor requests of the same node towards a live peer, a connection entry that never completed its handshake and an unknown node (all references handed out, also by monitor, must be unique); (e) nodes started against a fake EPMD assigning creations 0, 1, 2, ..., 2^32-1: pids, references and the node's report must carry it; evaluations = schedules/rounds/allocations judged by the uniqueness oracle; distinct = distinct step orders actually realised (trace hashes) + configuration classes");
    ctx.assume("uniqueness is only claimed within 2^32 serial increments (a serial that wraps after 2^52 allocations re-issues pairs by construction)");
    let mut rng = Rng::derive(ctx.seed, 16, 1);
    sequential(ctx);
    creation_histories(ctx, &mut rng);
    enumerated(ctx, &mut rng);
    stress(ctx, &mut rng);
    references(ctx);
    references_among_other_operations(ctx, &mut rng);
    started_nodes(ctx);
}
