//! C11 – comparison is a lawful total preorder consistent with `==` and `Hash`.
//! C12 – comparison agrees with Erlang's term order (same universe, other oracle).

use super::common::guarded;
use crate::genr::val::{Gen, GenCfg, boundary_floats, boundary_ints};
use crate::out::Ctx;
use crate::refmodel::denote::{Style, deep_eq, term_of, val_of};
use crate::refmodel::val::{
    Int, Val, contains_unordered_kind, erl_cmp, has_mixed_numeric_map_keys,
};
use crate::rng::Rng;
use erltf::{BorrowedTerm, OwnedTerm};
use serde_json::json;
use std::cmp::Ordering;
use std::collections::hash_map::DefaultHasher;
use std::collections::{BTreeSet, HashSet};
use std::hash::{Hash, Hasher};

pub fn variant(t: &OwnedTerm) -> &'static str {
    match t {
        OwnedTerm::Atom(_) => "Atom",
        OwnedTerm::Integer(_) => "Integer",
        OwnedTerm::Float(_) => "Float",
        OwnedTerm::Pid(_) => "Pid",
        OwnedTerm::Port(_) => "Port",
        OwnedTerm::Reference(_) => "Reference",
        OwnedTerm::Binary(_) => "Binary",
        OwnedTerm::BitBinary { .. } => "BitBinary",
        OwnedTerm::String(_) => "String",
        OwnedTerm::List(_) => "List",
        OwnedTerm::ImproperList { .. } => "ImproperList",
        OwnedTerm::Map(_) => "Map",
        OwnedTerm::Tuple(_) => "Tuple",
        OwnedTerm::BigInt(_) => "BigInt",
        OwnedTerm::ExternalFun(_) => "ExternalFun",
        OwnedTerm::InternalFun(_) => "InternalFun",
        OwnedTerm::Nil => "Nil",
    }
}

/// Descend to the innermost pair responsible for a disagreement: first differing element of
/// equally shaped containers.
pub fn leaf_pair<'a>(a: &'a OwnedTerm, b: &'a OwnedTerm) -> (&'a OwnedTerm, &'a OwnedTerm) {
    match (a, b) {
        (OwnedTerm::Tuple(x), OwnedTerm::Tuple(y)) | (OwnedTerm::List(x), OwnedTerm::List(y))
            if x.len() == y.len() =>
        {
            for (p, q) in x.iter().zip(y) {
                if !deep_eq(p, q) {
                    return leaf_pair(p, q);
                }
            }
            (a, b)
        }
        (
            OwnedTerm::ImproperList { elements: x, tail: tx },
            OwnedTerm::ImproperList { elements: y, tail: ty },
        ) if x.len() == y.len() => {
            for (p, q) in x.iter().zip(y) {
                if !deep_eq(p, q) {
                    return leaf_pair(p, q);
                }
            }
            if !deep_eq(tx, ty) {
                return leaf_pair(tx, ty);
            }
            (a, b)
        }
        (OwnedTerm::Map(x), OwnedTerm::Map(y)) if x.len() == y.len() => {
            for ((k1, v1), (k2, v2)) in x.iter().zip(y.iter()) {
                if !deep_eq(k1, k2) {
                    return (a, b); // differing key sets: the maps themselves are the cause
                }
                if !deep_eq(v1, v2) {
                    return leaf_pair(v1, v2);
                }
            }
            (a, b)
        }
        _ => (a, b),
    }
}

fn pair_sig(a: &OwnedTerm, b: &OwnedTerm) -> String {
    let (x, y) = leaf_pair(a, b);
    let mut v = [variant(x), variant(y)];
    v.sort();
    format!("{}~{}", v[0], v[1])
}

fn hash_of(t: &OwnedTerm) -> u64 {
    let mut h = DefaultHasher::new();
    t.hash(&mut h);
    h.finish()
}

fn ord_code(o: Ordering) -> i8 {
    match o {
        Ordering::Less => -1,
        Ordering::Equal => 0,
        Ordering::Greater => 1,
    }
}

pub struct Universe {
    pub vals: Vec<Val>,
    pub terms: Vec<OwnedTerm>,
}

/// Deterministic core + seeded random terms, each value in every library representation.
pub fn universe(ctx: &Ctx, rng: &mut Rng, target: usize, for_c12: bool) -> Universe {
    let mut vals: Vec<Val> = Vec::new();
    // numbers around every representation boundary
    let ints = boundary_ints();
    let important: Vec<i128> = vec![
        0, 1, -1, 2, 255, 256, (1 << 31) - 1, 1 << 31, (1 << 31) + 1, (1 << 53) - 1, 1 << 53, (1 << 53) + 1, (1 << 53) + 2,
        (1i128 << 63) - 1, 1i128 << 63, (1i128 << 63) + 1, (1i128 << 64) - 1, 1i128 << 64, (1i128 << 64) + 1,
        100_000_000_000_000_000_000, 100_000_000_000_000_000_001,
    ];
    for i in &important {
        vals.push(Val::int(*i));
        vals.push(Val::int(-*i));
    }
    for i in ints.iter().filter(|i| i.mag.len() >= 12 && i.mag.len() <= 12) {
        vals.push(Val::Int(i.clone()));
    }
    vals.push(Val::Int(Int::from_parts(false, vec![1, 0, 0, 0, 0, 0, 0, 0, 2]))); // equal length, low/high digit
    vals.push(Val::Int(Int::from_parts(false, vec![2, 0, 0, 0, 0, 0, 0, 0, 1])));
    vals.push(Val::Int(Int::from_parts(true, vec![1, 0, 0, 0, 0, 0, 0, 0, 2])));
    vals.push(Val::Int(Int::from_parts(true, vec![2, 0, 0, 0, 0, 0, 0, 0, 1])));
    for f in boundary_floats() {
        vals.push(Val::float(f));
    }
    for f in [9007199254740992.0f64, 9007199254740994.0, 9223372036854775808.0, 18446744073709551616.0, 1e20, 0.5, 1.5, 2.5] {
        vals.push(Val::float(f));
        vals.push(Val::float(-f));
    }
    // atoms
    for a in ["", "a", "aa", "ab", "b", "Z", "z", "é", "日本", "ok", "true"] {
        vals.push(Val::atom(a));
    }
    // bit-strings: prefixes / extensions
    for b in [&[][..], &[1], &[1, 2], &[1, 2, 3], &[2], &[255], &[1, 255]] {
        vals.push(Val::binary(b));
    }
    for (bytes, bits) in [(&[1u8][..], 7u8), (&[1, 2], 1), (&[1, 2], 7), (&[0x80], 1), (&[0x80], 2), (&[0xff], 3), (&[1, 0x80], 1), (&[2], 7)] {
        vals.push(Val::bitstring(bytes, bits));
    }
    // lists
    vals.push(Val::Nil);
    vals.push(Val::list(vec![Val::int(1)]));
    vals.push(Val::list(vec![Val::int(1), Val::int(2)]));
    vals.push(Val::list(vec![Val::int(2)]));
    vals.push(Val::list(vec![Val::atom("a")]));
    vals.push(Val::cons(vec![Val::int(1)], Val::int(2)));
    vals.push(Val::cons(vec![Val::int(1)], Val::atom("a")));
    vals.push(Val::cons(vec![Val::int(1), Val::int(2)], Val::int(3)));
    vals.push(Val::cons(vec![Val::int(1)], Val::binary(&[1])));
    vals.push(Val::cons(vec![Val::int(2)], Val::int(0)));
    vals.push(Val::list(vec![Val::list(vec![Val::int(1)])]));
    // tuples
    vals.push(Val::Tuple(vec![]));
    vals.push(Val::Tuple(vec![Val::int(1)]));
    vals.push(Val::Tuple(vec![Val::int(2)]));
    vals.push(Val::Tuple(vec![Val::int(1), Val::int(1)]));
    vals.push(Val::Tuple(vec![Val::atom("a"), Val::int(0)]));
    // maps: size, keys, then values
    vals.push(Val::Map(vec![]));
    vals.push(Val::Map(vec![(Val::atom("a"), Val::int(2))]));
    vals.push(Val::Map(vec![(Val::atom("b"), Val::int(1))]));
    vals.push(Val::Map(vec![(Val::atom("a"), Val::int(2)), (Val::atom("b"), Val::int(1))]));
    vals.push(Val::Map(vec![(Val::atom("a"), Val::int(1)), (Val::atom("c"), Val::int(0))]));
    vals.push(Val::Map(vec![(Val::atom("a"), Val::int(3)), (Val::atom("b"), Val::int(0))]));
    vals.push(Val::Map(vec![(Val::int(1), Val::atom("x")), (Val::int(2), Val::atom("y"))]));
    vals.push(Val::Map(vec![(Val::int(1), Val::atom("y")), (Val::int(3), Val::atom("a"))]));
    // identifiers and funs (both forms are added below for identifiers)
    for (id, serial, creation) in [(1u32, 0u32, 1u32), (1, 0, 2), (2, 0, 1), (1, 1, 1)] {
        vals.push(Val::Pid { node: "n@h".into(), id, serial, creation });
    }
    vals.push(Val::Pid { node: "m@h".into(), id: 1, serial: 0, creation: 1 });
    vals.push(Val::Port { node: "n@h".into(), id: 1, creation: 1 });
    vals.push(Val::Port { node: "n@h".into(), id: 2, creation: 1 });
    vals.push(Val::Ref { node: "n@h".into(), creation: 1, ids: vec![1, 2, 3] });
    vals.push(Val::Ref { node: "n@h".into(), creation: 1, ids: vec![1, 2] });
    vals.push(Val::ExtFun { module: "m".into(), function: "f".into(), arity: 1 });
    vals.push(Val::ExtFun { module: "m".into(), function: "f".into(), arity: 2 });
    let fun = |arity: u8, nfree: usize| Val::IntFun {
        arity,
        uniq: [3u8; 16],
        index: 1,
        num_free: nfree as u32,
        module: "m".into(),
        old_index: Int::from_i128(1),
        old_uniq: Int::from_i128(2),
        pid: Box::new(Val::Pid { node: "n@h".into(), id: 1, serial: 0, creation: 1 }),
        free: (0..nfree).map(|i| Val::int(i as i128)).collect(),
    };
    vals.push(fun(1, 0));
    vals.push(fun(2, 0));
    vals.push(fun(1, 1));
    // compound terms built from the tricky leaves
    let tricky: Vec<Val> = vec![
        Val::int(1 << 53), Val::float(9007199254740992.0), Val::int((1 << 53) + 1), Val::float(0.0), Val::float(-0.0),
        Val::binary(&[1]), Val::bitstring(&[1], 7), Val::Nil, Val::cons(vec![Val::int(1)], Val::int(2)), Val::list(vec![Val::int(1)]),
        Val::Int(Int::from_parts(false, vec![1, 0, 0, 0, 0, 0, 0, 0, 2])), Val::Int(Int::from_parts(false, vec![2, 0, 0, 0, 0, 0, 0, 0, 1])),
    ];
    for t in &tricky {
        vals.push(Val::Tuple(vec![Val::atom("k"), t.clone()]));
        vals.push(Val::list(vec![t.clone(), Val::atom("z")]));
        if !matches!(t, Val::Float(_)) {
            vals.push(Val::Map(vec![(t.clone(), Val::int(1))]));
        }
        vals.push(Val::Map(vec![(Val::atom("k"), t.clone())]));
    }
    // every bit-string of up to 5 bits, and every one of 8..10 bits over a fixed first byte pattern pair
    for nbits in 0..=5u32 {
        for v in 0..(1u32 << nbits) {
            let byte = if nbits == 0 { 0u8 } else { (v << (8 - nbits)) as u8 };
            vals.push(if nbits == 0 { Val::binary(&[]) } else { Val::bitstring(&[byte], nbits as u8) });
        }
    }
    for first in [0x01u8, 0x03] {
        for nbits in 0..=2u32 {
            for v in 0..(1u32 << nbits) {
                if nbits == 0 {
                    vals.push(Val::binary(&[first]));
                } else {
                    vals.push(Val::bitstring(&[first, (v << (8 - nbits)) as u8], nbits as u8));
                }
            }
        }
    }
    // sibling families: members differ in one digit / field / trailing word / tail kind / padding bit
    for fam in crate::genr::near::families(rng) {
        for v in fam.members {
            // keep the universe cubic-affordable: long-digit families contribute every other member in the quick tier
            vals.push(v);
        }
    }
    let target = target + vals.len();
    // seeded random values
    let mut tries = 0;
    while vals.len() < target && tries < target * 20 {
        tries += 1;
        let cfg = GenCfg {
            max_depth: 1 + rng.below(3),
            max_nodes: 2 + rng.below(10),
            huge_leaves: false,
            float_keys: false,
            ..GenCfg::default()
        };
        let v = {
            let mut g = Gen::new(rng, cfg);
            g.value()
        };
        if for_c12 && has_mixed_numeric_map_keys(&v) {
            continue;
        }
        vals.push(v);
    }
    // dedupe by exact identity
    let mut uniq: Vec<Val> = Vec::new();
    let mut seen: HashSet<String> = HashSet::new();
    for v in vals {
        let k = format!("{:?}|{}", v, crate::out::hex(&crate::refmodel::encode::ref_encode_canonical(&v).unwrap_or_default()));
        if seen.insert(k) {
            uniq.push(v);
        }
    }
    // each value in its library representations
    let mut out_vals = Vec::new();
    let mut terms = Vec::new();
    for v in uniq {
        let mut reps: Vec<OwnedTerm> = Vec::new();
        for style in [Style::User, Style::Wire] {
            if let Some(t) = term_of(&v, rng, style) {
                if !reps.iter().any(|r| deep_eq(r, &t)) {
                    reps.push(t);
                }
            }
        }
        // extra representations for leaves
        match &v {
            Val::Bits { bytes, bits } if bits % 8 == 0 => {
                if let Ok(s) = String::from_utf8(bytes.clone()) {
                    reps.push(OwnedTerm::String(s));
                }
            }
            Val::Nil => reps.push(OwnedTerm::List(vec![])),
            // a list spelled as cons cells: the first element in front of the rest (itself a list term, proper or
            // improper), and every element in a cell of its own; the same value as the flat spelling
            Val::List { elems, tail } if elems.len() >= 2 && elems.len() <= 6 => {
                let ets: Option<Vec<OwnedTerm>> = elems.iter().map(|e| term_of(e, rng, Style::User)).collect();
                let tt = term_of(tail, rng, Style::User);
                if let (Some(ets), Some(tt)) = (ets, tt) {
                    let proper = matches!(**tail, Val::Nil);
                    let rest = |from: usize| -> OwnedTerm {
                        if proper { OwnedTerm::List(ets[from..].to_vec()) } else { OwnedTerm::ImproperList { elements: ets[from..].to_vec(), tail: Box::new(tt.clone()) } }
                    };
                    reps.push(OwnedTerm::ImproperList { elements: vec![ets[0].clone()], tail: Box::new(rest(1)) });
                    if ets.len() >= 3 {
                        reps.push(OwnedTerm::ImproperList { elements: ets[..2].to_vec(), tail: Box::new(rest(2)) });
                    }
                    let mut cells = if proper { OwnedTerm::List(vec![ets[ets.len() - 1].clone()]) } else { OwnedTerm::ImproperList { elements: vec![ets[ets.len() - 1].clone()], tail: Box::new(tt.clone()) } };
                    for e in ets[..ets.len() - 1].iter().rev() {
                        cells = OwnedTerm::ImproperList { elements: vec![e.clone()], tail: Box::new(cells) };
                    }
                    reps.push(cells);
                }
            }
            Val::Int(i) if !i.is_zero() && i.mag.len() <= 8 => {
                let t = OwnedTerm::BigInt(erltf::BigInt::new(i.neg, i.mag.clone()));
                if !reps.iter().any(|r| deep_eq(r, &t)) {
                    reps.push(t);
                }
            }
            Val::Pid { node, id, serial, creation } => {
                reps.push(OwnedTerm::Pid(erltf::ExternalPid::with_local_ext_bytes(
                    erltf::Atom::new(node), *id, *serial, *creation, vec![9u8, 9, 9, 9, 9, 9, 9, 9, 88],
                )));
            }
            Val::Port { node, id, creation } => {
                reps.push(OwnedTerm::Port(erltf::ExternalPort::with_local_ext_bytes(
                    erltf::Atom::new(node), *id, *creation, vec![1u8, 2, 3, 4, 5, 6, 7, 8, 120],
                )));
            }
            Val::Ref { node, creation, ids } => {
                reps.push(OwnedTerm::Reference(erltf::ExternalReference::with_local_ext_bytes(
                    erltf::Atom::new(node), *creation, ids.clone(), vec![7u8; 9],
                )));
            }
            _ => {}
        }
        for t in reps {
            let vt = val_of(&t);
            if !vt.same(&v) {
                ctx.inconclusive("self-check: representation does not denote its value");
                continue;
            }
            out_vals.push(v.clone());
            terms.push(t);
        }
    }
    Universe { vals: out_vals, terms }
}

pub fn run_c11(ctx: &Ctx) {
    ctx.rule("universe U = deterministic core (every type rank, numeric neighbours of 2^31/2^53/2^63/2^64/10^20 in every representation, -0.0/0.0, equal-length bignums, binaries vs bit-strings vs strings, nil/List([])/proper/improper lists (also spelled as cons cells), funs, identifiers in both forms, compounds of those) + seeded random terms; every pair also through partial_cmp and the comparison operators of both term types; evaluations = pair comparisons + triple checks; distinct = distinct unordered (variant,variant) leaf-pairs compared");
    ctx.assume("well-formed terms: finite floats, minimal big-integer digits, zero padding bits");
    let mut rng = Rng::derive(ctx.seed, 11, 1);
    let target = ctx.pick(260usize, 900usize);
    let u = universe(ctx, &mut rng, target, false);
    let n = u.terms.len();
    ctx.extra("universe_size", json!(n));
    // full comparison matrix (catching panics)
    let mut m = vec![0i8; n * n];
    for i in 0..n {
        for j in 0..n {
            let (a, b) = (&u.terms[i], &u.terms[j]);
            match guarded(|| a.cmp(b)) {
                Ok(o) => m[i * n + j] = ord_code(o),
                Err(p) => {
                    ctx.viol(&format!("C11:panic:cmp:{}", pair_sig(a, b)), "cmp panicked", json!({"a": format!("{:?}", a), "b": format!("{:?}", b), "panic": p}));
                }
            }
        }
    }
    ctx.eval((n * n) as u64);
    let show = |t: &OwnedTerm| {
        let s = format!("{:?}", t);
        if s.len() > 300 { format!("{}…", &s[..s.char_indices().take_while(|(i, _)| *i < 300).last().map(|(i, _)| i).unwrap_or(0)]) } else { s }
    };
    // antisymmetry, reflexivity, eq => Equal, eq => hash equal, owned vs borrowed
    for i in 0..n {
        for j in 0..n {
            let (a, b) = (&u.terms[i], &u.terms[j]);
            ctx.class(&pair_sig(a, b));
            let (ab, ba) = (m[i * n + j], m[j * n + i]);
            if ab != -ba {
                ctx.viol(
                    &format!("C11:antisymmetry:{}", pair_sig(a, b)),
                    "cmp(a,b) is not the reverse of cmp(b,a)",
                    json!({"a": show(a), "b": show(b), "ab": ab, "ba": ba}),
                );
            }
            if a == b {
                if ab != 0 {
                    ctx.viol(
                        &format!("C11:eq-not-cmp-equal:{}", pair_sig(a, b)),
                        "a == b but cmp(a,b) != Equal",
                        json!({"a": show(a), "b": show(b), "cmp": ab}),
                    );
                }
                if hash_of(a) != hash_of(b) {
                    ctx.viol(
                        &format!("C11:eq-hash-differs:{}", pair_sig(a, b)),
                        "a == b but their hashes differ",
                        json!({"a": show(a), "b": show(b)}),
                    );
                }
            }
            // the other doors to the same order: partial_cmp and the operators, for both term types
            {
                let want = match ab { -1 => std::cmp::Ordering::Less, 0 => std::cmp::Ordering::Equal, _ => std::cmp::Ordering::Greater };
                let (ba_, bb_) = (BorrowedTerm::from(a), BorrowedTerm::from(b));
                let doors = guarded(|| {
                    let mut bad: Vec<&'static str> = Vec::new();
                    if a.partial_cmp(b) != Some(want) {
                        bad.push("owned partial_cmp");
                    }
                    if (a < b) != (want == std::cmp::Ordering::Less) || (a <= b) != (want != std::cmp::Ordering::Greater) || (a > b) != (want == std::cmp::Ordering::Greater) || (a >= b) != (want != std::cmp::Ordering::Less) {
                        bad.push("owned operators");
                    }
                    if ba_.partial_cmp(&bb_) != Some(want) {
                        bad.push("borrowed partial_cmp");
                    }
                    if (ba_ < bb_) != (want == std::cmp::Ordering::Less) || (ba_ >= bb_) != (want != std::cmp::Ordering::Less) {
                        bad.push("borrowed operators");
                    }
                    bad
                });
                match doors {
                    Ok(bad) => {
                        for which in bad {
                            ctx.viol(
                                &format!("C11:partial-order-differs-from-cmp:{}:{}", which.replace(' ', "-"), pair_sig(a, b)),
                                "partial_cmp / the comparison operators give another answer than cmp for the same pair",
                                json!({"a": show(a), "b": show(b), "cmp": ab, "door": which}),
                            );
                        }
                    }
                    Err(p) => ctx.viol("C11:panic:partial_cmp", "partial_cmp or an operator panicked", json!({"a": show(a), "b": show(b), "panic": p})),
                }
            }
            if i <= j {
                let (ba_, bb_) = (BorrowedTerm::from(a), BorrowedTerm::from(b));
                match guarded(|| ba_.cmp(&bb_)) {
                    Ok(o) => {
                        if ord_code(o) != ab {
                            ctx.viol(
                                &format!("C11:borrowed-differs:{}", pair_sig(a, b)),
                                "BorrowedTerm orders the pair differently from OwnedTerm",
                                json!({"a": show(a), "b": show(b), "owned": ab, "borrowed": ord_code(o)}),
                            );
                        }
                    }
                    Err(p) => ctx.viol("C11:panic:borrowed-cmp", "borrowed cmp panicked", json!({"a": show(a), "b": show(b), "panic": p})),
                }
            }
        }
    }
    // transitivity of <= on all triples, from the matrix
    let mut triples = 0u64;
    let mut reported: HashSet<String> = HashSet::new();
    for i in 0..n {
        for j in 0..n {
            if m[i * n + j] > 0 {
                continue; // need a <= b
            }
            for k in 0..n {
                if m[j * n + k] <= 0 && m[i * n + k] > 0 {
                    // a<=b, b<=c but a>c
                    let (a, b, c) = (&u.terms[i], &u.terms[j], &u.terms[k]);
                    let (la, lb) = leaf_pair(a, b);
                    let (_, lc) = leaf_pair(b, c);
                    let mut vs = [variant(la), variant(lb), variant(lc)];
                    vs.sort();
                    let sig = format!("C11:transitivity:{}~{}~{}", vs[0], vs[1], vs[2]);
                    if reported.insert(sig.clone()) || reported.len() < 40 {
                        ctx.viol(&sig, "a<=b and b<=c but a>c", json!({"a": show(a), "b": show(b), "c": show(c)}));
                    }
                }
            }
            triples += n as u64;
        }
    }
    ctx.eval(triples);
    ctx.extra("triples_checked", json!(triples));
    // consequences: sort must not panic, ordered/hashed sets keep one entry per ==-class
    for round in 0..ctx.pick(4, 20) {
        let mut xs = u.terms.clone();
        rng.shuffle(&mut xs);
        if let Err(p) = guarded(|| {
            let mut ys = xs.clone();
            ys.sort();
            ys
        }) {
            ctx.viol("C11:sort-panics", "slice::sort detected an inconsistent order", json!({"round": round, "panic": p}));
        }
        // element-wise insertion (what the decoder's map construction does); `collect()` would sort and
        // then drop neighbours by `==`, which is a different, weaker deduplication
        let mut bt: BTreeSet<OwnedTerm> = BTreeSet::new();
        for x in &xs {
            bt.insert(x.clone());
        }
        let hs: HashSet<OwnedTerm> = xs.iter().cloned().collect();
        // number of cmp-classes according to the matrix (union of Equal pairs must be an equivalence for a lawful order)
        let mut reps: Vec<usize> = Vec::new();
        for i in 0..n {
            if !reps.iter().any(|r| m[*r * n + i] == 0) {
                reps.push(i);
            }
        }
        // every member must be findable again
        let missing = xs.iter().filter(|t| !bt.contains(*t)).count();
        if missing > 0 {
            ctx.viol("C11:btreeset-loses-entry", "an inserted term is not found in the BTreeSet built from U", json!({"missing": missing, "round": round}));
        }
        let missing_h = xs.iter().filter(|t| !hs.contains(*t)).count();
        if missing_h > 0 {
            ctx.viol("C11:hashset-loses-entry", "an inserted term is not found in the HashSet built from U", json!({"missing": missing_h, "round": round}));
        }
        if bt.len() != reps.len() {
            ctx.viol(
                "C11:btreeset-cardinality",
                "a BTreeSet filled by insertion does not hold exactly one entry per comparison class",
                json!({"set": bt.len(), "classes": reps.len(), "round": round}),
            );
        }
        // number of ==-classes: HashSet must hold exactly that many
        let mut eq_reps: Vec<usize> = Vec::new();
        for i in 0..n {
            if !eq_reps.iter().any(|r| u.terms[*r] == u.terms[i]) {
                eq_reps.push(i);
            }
        }
        if hs.len() != eq_reps.len() {
            ctx.viol(
                "C11:hashset-cardinality",
                "a HashSet does not hold exactly one entry per ==-class",
                json!({"set": hs.len(), "classes": eq_reps.len(), "round": round}),
            );
        }
        if round == 0 {
            ctx.extra("eq_classes", json!(eq_reps.len()));
            ctx.extra("btreeset_len", json!(bt.len()));
            ctx.extra("cmp_classes", json!(reps.len()));
            ctx.extra("hashset_len", json!(hs.len()));
        }
        // BTreeSet cardinality must not depend on insertion order
        let mut xs2 = xs.clone();
        xs2.reverse();
        let mut bt2: BTreeSet<OwnedTerm> = BTreeSet::new();
        for x in xs2 {
            bt2.insert(x);
        }
        if bt2.len() != bt.len() {
            ctx.viol("C11:btreeset-size-depends-on-order", "BTreeSet cardinality depends on insertion order", json!({"a": bt.len(), "b": bt2.len()}));
        }
    }
    for i in (0..n).step_by((n / 6).max(1)) {
        ctx.sample(json!({"term": show(&u.terms[i]), "denotes": u.vals[i].show()}));
    }
    ctx.exhaustive(true);
}

pub fn run_c12(ctx: &Ctx) {
    ctx.rule("all ordered pairs of the universe U (C11's core extended with neighbours of representation boundaries, floats adjacent to integers, prefixes/extensions of bit-strings, nested containers and maps) compared by the library (cmp, partial_cmp, the operators; both term types) and by an independent implementation of Erlang's term order; plus all pairs of all bit-strings of up to 9 (quick) / 11 (thorough) bits, owned and zero-copy; distinct = distinct unordered (variant,variant) leaf-pairs");
    ctx.assume("order among identifiers/funs of the same kind is only checked for equality; maps with mixed integer/float keys are excluded (not representable in the library's map)");
    let mut rng = Rng::derive(ctx.seed, 12, 1);
    let target = ctx.pick(300usize, 1200usize);
    let u = universe(ctx, &mut rng, target, true);
    let n = u.terms.len();
    ctx.extra("universe_size", json!(n));
    let show = |t: &OwnedTerm| {
        let s = format!("{:?}", t);
        if s.len() > 300 { format!("{}…", s.chars().take(300).collect::<String>()) } else { s }
    };
    let mut skipped = 0u64;
    for i in 0..n {
        for j in 0..n {
            let (a, b) = (&u.terms[i], &u.terms[j]);
            let (va, vb) = (&u.vals[i], &u.vals[j]);
            if has_mixed_numeric_map_keys(va) || has_mixed_numeric_map_keys(vb) {
                skipped += 1;
                continue;
            }
            ctx.eval(1);
            let expect = erl_cmp(va, vb);
            let got = match guarded(|| a.cmp(b)) {
                Ok(o) => o,
                Err(p) => {
                    ctx.viol("C12:panic:cmp", "cmp panicked", json!({"a": show(a), "b": show(b), "panic": p}));
                    continue;
                }
            };
            ctx.class(&pair_sig(a, b));
            // the order is one order, whichever door it is asked through (sort() and the operators go through partial_cmp)
            match guarded(|| (a.partial_cmp(b), a < b, a > b, BorrowedTerm::from(a).partial_cmp(&BorrowedTerm::from(b)))) {
                Ok((p, lt, gt, bp)) => {
                    if p != Some(got) || lt != (got == Ordering::Less) || gt != (got == Ordering::Greater) || bp != Some(got) {
                        ctx.viol(
                            &format!("C12:partial_cmp-or-operators-differ-from-cmp:{}", pair_sig(a, b)),
                            "partial_cmp / the comparison operators order the pair differently from cmp (and so from Erlang's order or from each other)",
                            json!({"a": show(a), "b": show(b), "cmp": ord_code(got), "partial_cmp": p.map(ord_code), "lt": lt, "gt": gt, "borrowed_partial_cmp": bp.map(ord_code), "erlang": ord_code(expect)}),
                        );
                    }
                }
                Err(p) => ctx.viol("C12:panic:partial_cmp", "partial_cmp panicked", json!({"a": show(a), "b": show(b), "panic": p})),
            }
            // among identifiers / funs only equality is specified
            let unordered = contains_unordered_kind(va) || contains_unordered_kind(vb);
            let ok = if unordered {
                // the order is only pinned when the pair is decided before reaching an identifier; be
                // conservative: require agreement on equality, and on rank when the kinds differ
                let rank_differs = std::mem::discriminant(va) != std::mem::discriminant(vb)
                    && !(matches!(va, Val::Int(_) | Val::Float(_)) && matches!(vb, Val::Int(_) | Val::Float(_)))
                    && !(matches!(va, Val::ExtFun { .. } | Val::IntFun { .. }) && matches!(vb, Val::ExtFun { .. } | Val::IntFun { .. }));
                if rank_differs {
                    got == expect
                } else {
                    (got == Ordering::Equal) == (expect == Ordering::Equal)
                }
            } else {
                got == expect
            };
            if !ok {
                ctx.viol(
                    &format!("C12:{}:{}->{}", pair_sig(a, b), ord_code(expect), ord_code(got)),
                    "library order differs from Erlang's term order",
                    json!({"a": show(a), "b": show(b), "erlang": ord_code(expect), "library": ord_code(got), "a_denotes": va.show(), "b_denotes": vb.show()}),
                );
            }
            if i < 3 && j == i + 1 {
                ctx.sample(json!({"a": show(a), "b": show(b), "erlang": ord_code(expect), "library": ord_code(got)}));
            }
        }
    }
    ctx.extra("pairs_skipped_mixed_numeric_map_keys", json!(skipped));
    // all pairs of ALL bit-strings of up to 9 (quick) / 11 (thorough) bits: bit-wise order, owned and zero-copy
    {
        let max_bits = ctx.pick(9u32, 11u32);
        let mut bs: Vec<(Val, OwnedTerm)> = Vec::new();
        for nbits in 0..=max_bits {
            for v in 0..(1u32 << nbits) {
                let nbytes = ((nbits + 7) / 8) as usize;
                let shifted = if nbits == 0 { 0u32 } else { v << (nbytes as u32 * 8 - nbits) };
                let bytes: Vec<u8> = (0..nbytes).map(|i| (shifted >> (8 * (nbytes - 1 - i))) as u8).collect();
                let last = if nbits % 8 == 0 { 8 } else { (nbits % 8) as u8 };
                let val = if nbits == 0 { Val::binary(&[]) } else { Val::bitstring(&bytes, last) };
                if let Some(t) = term_of(&val, &mut rng, Style::User) {
                    bs.push((val, t));
                }
            }
        }
        let mut bad = 0u64;
        for (va, a) in &bs {
            let ba = BorrowedTerm::from(a);
            for (vb, b) in &bs {
                let expect = erl_cmp(va, vb);
                let got = a.cmp(b);
                let gotb = ba.cmp(&BorrowedTerm::from(b));
                if got != expect || gotb != expect {
                    bad += 1;
                    if bad <= 5 {
                        ctx.viol(
                            &format!("C12:bit-strings:{}->{}", ord_code(expect), ord_code(if got != expect { got } else { gotb })),
                            "bit-strings are not ordered bit-wise",
                            json!({"a": va.show(), "b": vb.show(), "erlang": ord_code(expect), "owned": ord_code(got), "borrowed": ord_code(gotb)}),
                        );
                    }
                }
            }
        }
        ctx.eval((bs.len() * bs.len()) as u64);
        ctx.class("bit-strings/exhaustive");
        ctx.extra("bit_strings_exhaustive_up_to_bits", json!(max_bits));
        ctx.extra("bit_string_pairs_disagreeing", json!(bad));
    }
    ctx.exhaustive(true);
}

#[allow(dead_code)]
pub fn debug_classes(ctx: &Ctx) {
    let mut rng = Rng::derive(ctx.seed, 11, 1);
    let u = universe(ctx, &mut rng, 260, false);
    let bt: BTreeSet<OwnedTerm> = u.terms.iter().cloned().collect();
    let v: Vec<&OwnedTerm> = bt.iter().collect();
    let mut shown = 0;
    for i in 0..v.len() {
        for j in i + 1..v.len() {
            if v[i].cmp(v[j]) == Ordering::Equal && shown < 10 {
                println!("EQUAL IN SET: {:?} | {:?}", v[i], v[j]);
                shown += 1;
            }
        }
    }
    println!("set {} terms {}", bt.len(), u.terms.len());
}
