//! C18 – local processes: ordered exactly-once delivery, exit notices, name lifecycle.
//! Instrumented `Process` implementations write to one append-only event log; driver tasks record
//! call/return events at the client boundary; offline checkers judge the history.

use crate::mon::net;
use crate::out::Ctx;
use crate::rng::Rng;
use edp_node::{CallResult, GenEventCallResult, EventResult, GenEventHandler, GenEventManager, GenServer, GenServerProcess, Message, Node, Process};
use erltf::OwnedTerm;
use erltf::types::{Atom, ExternalPid, ExternalReference};
use serde_json::json;
use std::collections::{HashMap, HashSet};
use std::future::Future;
use std::pin::Pin;
use std::sync::atomic::{AtomicU64, Ordering};
use std::sync::{Arc, Mutex};
use std::time::Duration;

type PidKey = (u32, u32);
const REPLY_ERROR: i64 = i64::MIN;
const REPLY_OTHER_ATOM: i64 = i64::MIN + 1;
fn key(p: &ExternalPid) -> PidKey {
    (p.id, p.serial)
}

#[derive(Clone, Debug)]
enum Ev {
    Handled { by: PidKey, sender: usize, n: u64 },
    ExitNotice { by: PidKey, from: PidKey },
    MonitorNotice { by: PidKey, monitored: PidKey, reference: Vec<u32> },
    Reply { by: PidKey, reference: Vec<u32>, value: i64 },
    Failed { by: PidKey },
}

#[derive(Default)]
struct Log {
    seq: AtomicU64,
    events: Mutex<Vec<(u64, Ev)>>,
}
impl Log {
    fn now(&self) -> u64 {
        self.seq.fetch_add(1, Ordering::SeqCst)
    }
    fn push(&self, e: Ev) {
        let mut g = self.events.lock().unwrap();
        let s = self.seq.fetch_add(1, Ordering::SeqCst);
        g.push((s, e));
    }
}

/// A process that records what it is handed. `{msg, Sender, N}` is a numbered message,
/// the atom `poison` makes the handler fail.
struct Recorder {
    me: Arc<Mutex<Option<PidKey>>>,
    log: Arc<Log>,
}

impl Process for Recorder {
    async fn handle_message(&mut self, msg: Message) -> edp_node::Result<()> {
        let me = self.me.lock().unwrap().unwrap_or((0, 0));
        match msg {
            Message::Regular { body, .. } => {
                if body.is_atom_with_name("poison") {
                    self.log.push(Ev::Failed { by: me });
                    return Err(edp_node::Error::InvalidMessage("poisoned".into()));
                }
                if let OwnedTerm::Tuple(t) = &body {
                    if t.len() == 3 && t[0].is_atom_with_name("msg") {
                        if let (Some(s), Some(n)) = (t[1].as_integer(), t[2].as_integer()) {
                            self.log.push(Ev::Handled { by: me, sender: s as usize, n: n as u64 });
                        }
                    } else if t.len() == 2 {
                        if let (OwnedTerm::Reference(r), Some(v)) = (&t[0], t[1].as_integer()) {
                            self.log.push(Ev::Reply { by: me, reference: r.ids.clone(), value: v });
                        } else if let (OwnedTerm::Reference(r), OwnedTerm::Atom(a)) = (&t[0], &t[1]) {
                            // a reply that is an atom: `error` is what a behaviour answers when it cannot serve the call
                            self.log.push(Ev::Reply { by: me, reference: r.ids.clone(), value: if a.as_str() == "error" { REPLY_ERROR } else { REPLY_OTHER_ATOM } });
                        }
                    }
                }
                Ok(())
            }
            Message::Exit { from, .. } => {
                self.log.push(Ev::ExitNotice { by: me, from: key(&from) });
                Ok(())
            }
            Message::MonitorExit { monitored, reference, .. } => {
                self.log.push(Ev::MonitorNotice { by: me, monitored: key(&monitored), reference: reference.ids.clone() });
                Ok(())
            }
            _ => Ok(()),
        }
    }
}

struct Doubler;
impl GenServer for Doubler {
    async fn init(&mut self, _args: Vec<OwnedTerm>) -> edp_node::Result<()> {
        Ok(())
    }
    async fn handle_call(&mut self, msg: OwnedTerm, _from: ExternalPid) -> edp_node::Result<CallResult> {
        match msg.as_integer() {
            Some(i) => Ok(CallResult::Reply(OwnedTerm::Integer(i * 2))),
            None => Ok(CallResult::NoReply),
        }
    }
    async fn handle_cast(&mut self, _msg: OwnedTerm) -> edp_node::Result<()> {
        Ok(())
    }
    async fn handle_info(&mut self, _msg: OwnedTerm) -> edp_node::Result<()> {
        Ok(())
    }
}

struct Tripler;
impl GenEventHandler for Tripler {
    fn init<'a>(&'a mut self, _args: OwnedTerm) -> Pin<Box<dyn Future<Output = edp_node::Result<()>> + Send + 'a>> {
        Box::pin(async { Ok(()) })
    }
    fn handle_event<'a>(&'a mut self, _event: OwnedTerm) -> Pin<Box<dyn Future<Output = edp_node::Result<EventResult>> + Send + 'a>> {
        Box::pin(async { Ok(EventResult::Ok) })
    }
    fn handle_call<'a>(&'a mut self, request: OwnedTerm) -> Pin<Box<dyn Future<Output = edp_node::Result<GenEventCallResult>> + Send + 'a>> {
        Box::pin(async move { Ok(GenEventCallResult::Reply(OwnedTerm::Integer(request.as_integer().unwrap_or(0) * 3))) })
    }
    fn id(&self) -> OwnedTerm {
        OwnedTerm::atom("tripler")
    }
}

#[derive(Clone, Debug)]
struct NameOp {
    call: u64,
    ret: u64,
    kind: u8, // 0 register, 1 unregister, 2 whereis
    pid: Option<PidKey>,
    ok: bool,
    seen: Option<PidKey>,
}

/// All states the sequential name table (Option<pid>) can be in after some valid linearization of
/// `ops` started from one of `init`; empty = not linearizable.
fn lin_states(ops: &[NameOp], init: &HashSet<Option<PidKey>>) -> HashSet<Option<PidKey>> {
    fn go(ops: &[NameOp], done: u32, state: Option<PidKey>, memo: &mut HashSet<(u32, Option<PidKey>)>, out: &mut HashSet<Option<PidKey>>) {
        if done.count_ones() as usize == ops.len() {
            out.insert(state);
            return;
        }
        if !memo.insert((done, state)) {
            return;
        }
        // an operation may be linearised next if no other pending operation returned before it was called
        let min_ret = ops.iter().enumerate().filter(|(i, _)| done & (1 << i) == 0).map(|(_, o)| o.ret).min().unwrap();
        for (i, o) in ops.iter().enumerate() {
            if done & (1 << i) != 0 || o.call > min_ret {
                continue;
            }
            let (ok, next) = match o.kind {
                0 => {
                    if state.is_none() {
                        (o.ok, o.pid)
                    } else {
                        (!o.ok, state)
                    }
                }
                1 => {
                    if state.is_some() {
                        (o.ok, None)
                    } else {
                        (!o.ok, state)
                    }
                }
                _ => (o.seen == state, state),
            };
            if ok {
                go(ops, done | (1 << i), next, memo, out);
            }
        }
    }
    let mut out = HashSet::new();
    for st in init {
        go(ops, 0, *st, &mut HashSet::new(), &mut out);
    }
    out
}

/// Exact linearizability check of one name's history: the history is cut at quiescent instants
/// (no operation spans them) and the possible states are chained through the segments.
/// Returns None when a segment is too long for the exact search.
fn linearizable(ops: &[NameOp]) -> Option<bool> {
    let mut sorted = ops.to_vec();
    sorted.sort_by_key(|o| o.call);
    let mut states: HashSet<Option<PidKey>> = HashSet::new();
    states.insert(None);
    let mut start = 0usize;
    let mut max_ret = 0u64;
    for i in 0..sorted.len() {
        max_ret = max_ret.max(sorted[i].ret);
        let cut = i + 1 == sorted.len() || sorted[i + 1].call > max_ret;
        if cut {
            let seg = &sorted[start..=i];
            if seg.len() > 22 {
                return None;
            }
            states = lin_states(seg, &states);
            if states.is_empty() {
                return Some(false);
            }
            start = i + 1;
        }
    }
    Some(true)
}

async fn spawn_recorder(node: &Node, log: &Arc<Log>) -> Option<ExternalPid> {
    let me = Arc::new(Mutex::new(None));
    let p = node.spawn(Recorder { me: me.clone(), log: log.clone() }).await.ok()?;
    *me.lock().unwrap() = Some(key(&p));
    Some(p)
}

async fn wait_gone(node: &Node, pid: &ExternalPid) -> bool {
    for _ in 0..400 {
        if node.registry().get(pid).await.is_none() {
            return true;
        }
        tokio::time::sleep(Duration::from_millis(5)).await;
    }
    false
}

/// A process that does not start handling before the gate opens, then records the numbers it is handed.
struct GatedRecorder {
    open: Arc<std::sync::atomic::AtomicBool>,
    seen: Arc<Mutex<Vec<(u32, i64)>>>,
    /// exit notices (from) and monitor notices (monitored, reference words) handed to this process
    notices: Arc<Mutex<Vec<(PidKey, Option<Vec<u32>>)>>>,
}

impl Process for GatedRecorder {
    async fn handle_message(&mut self, msg: Message) -> edp_node::Result<()> {
        while !self.open.load(Ordering::Acquire) {
            tokio::time::sleep(Duration::from_millis(1)).await;
        }
        match msg {
            Message::Regular { body: OwnedTerm::Tuple(t), .. } => {
                if let (Some(OwnedTerm::Integer(sender)), Some(OwnedTerm::Integer(n))) = (t.first(), t.get(1)) {
                    self.seen.lock().unwrap().push((*sender as u32, *n));
                }
            }
            Message::Exit { from, .. } => self.notices.lock().unwrap().push((key(&from), None)),
            Message::MonitorExit { monitored, reference, .. } => self.notices.lock().unwrap().push((key(&monitored), Some(reference.ids.clone()))),
            _ => {}
        }
        Ok(())
    }
}

/// 1..3 senders each issue a burst of numbered messages (by pid and by name) to one busy process; the burst
/// is larger than, equal to or smaller than the mailbox. Every accepted message is handled exactly once and
/// each sender's messages in the order that sender issued them.
async fn burst(ctx: &Ctx, rng: &mut Rng, hid: usize) {
    ctx.beat(&format!("burst/{}", hid));
    let mut node = Node::new(format!("burst{}@127.0.0.1", hid), "cookie");
    if let Err(e) = node.start(0).await {
        ctx.inconclusive(&format!("Node::start failed: {}", e));
        return;
    }
    let node = Arc::new(node);
    let open = Arc::new(std::sync::atomic::AtomicBool::new(false));
    let seen: Arc<Mutex<Vec<(u32, i64)>>> = Default::default();
    let notices: Arc<Mutex<Vec<(PidKey, Option<Vec<u32>>)>>> = Default::default();
    let Ok(target) = node.spawn(GatedRecorder { open: open.clone(), seen: seen.clone(), notices: notices.clone() }).await else {
        ctx.inconclusive("spawn failed");
        return;
    };
    let _ = node.register(Atom::new("busy"), target.clone()).await;
    // the busy process watches two others, which fail while its mailbox is being filled: the notices have to wait for
    // room like everything else, and arrive exactly once
    let wlog: Arc<Log> = Arc::new(Log::default());
    let mut watched: Vec<(ExternalPid, Option<Vec<u32>>)> = Vec::new();
    for w in 0..2 {
        if let Some(p) = spawn_recorder(&node, &wlog).await {
            if w == 0 {
                if node.link(&target, &p).await.is_ok() {
                    watched.push((p.clone(), None));
                }
            }
            if let Ok(r) = node.monitor(&target, &p).await {
                watched.push((p.clone(), Some(r.ids.clone())));
            }
        }
    }
    let senders = 1 + rng.below(3);
    let per: usize = *rng.pick(&[400usize, 1000, 1001, 1100, 1800, 3000]);
    ctx.class(&format!("burst/{}senders/{}each", senders, per));
    let mut hs = Vec::new();
    for sidx in 0..senders {
        let node = node.clone();
        let target = target.clone();
        let by_name = rng.bool();
        hs.push(tokio::spawn(async move {
            let mut accepted: Vec<i64> = Vec::new();
            for i in 0..per as i64 {
                let body = OwnedTerm::Tuple(vec![OwnedTerm::Integer(sidx as i64), OwnedTerm::Integer(i)]);
                let r = if by_name && i % 2 == 1 { node.send_to_name(&Atom::new("busy"), body).await } else { node.send(&target, body).await };
                if r.is_ok() {
                    accepted.push(i);
                }
            }
            accepted
        }));
    }
    // let the bursts pile up against the closed gate; the watched processes fail meanwhile; then open it
    tokio::time::sleep(Duration::from_millis(*rng.pick(&[20u64, 120]))).await;
    let mut failed: Vec<PidKey> = Vec::new();
    for (p, _) in &watched {
        if !failed.contains(&key(p)) {
            let _ = node.send(p, OwnedTerm::atom("poison")).await;
            failed.push(key(p));
        }
    }
    tokio::time::sleep(Duration::from_millis(40)).await;
    open.store(true, Ordering::Release);
    let mut accepted: Vec<Vec<i64>> = Vec::new();
    for h in hs {
        match tokio::time::timeout(Duration::from_secs(60), h).await {
            Ok(Ok(a)) => accepted.push(a),
            _ => {
                ctx.viol("C18:burst:sender-stalled", "a sender of a burst to a busy local process did not return within 60 s", json!({"burst": hid, "senders": senders, "each": per}));
                return;
            }
        }
    }
    let total: usize = accepted.iter().map(|a| a.len()).sum();
    let t0 = std::time::Instant::now();
    while t0.elapsed() < Duration::from_secs(20) && seen.lock().unwrap().len() < total {
        tokio::time::sleep(Duration::from_millis(5)).await;
    }
    tokio::time::sleep(Duration::from_millis(20)).await;
    ctx.eval(total as u64);
    // the notices for the busy process
    {
        let t1 = std::time::Instant::now();
        while t1.elapsed() < Duration::from_secs(5) && notices.lock().unwrap().len() < watched.len() {
            tokio::time::sleep(Duration::from_millis(5)).await;
        }
        let got = notices.lock().unwrap().clone();
        for (p, r) in &watched {
            ctx.eval(1);
            let n = got.iter().filter(|(k, rr)| *k == key(p) && rr == r).count();
            if n != 1 {
                ctx.viol(
                    &format!("C18:{}:{}:watcher-with-a-full-mailbox", if r.is_some() { "monitor-notice" } else { "exit-notice" }, if n == 0 { "missing" } else { "duplicate" }),
                    "a live process that was linked to / monitoring a process that failed was not notified exactly once (its mailbox was full at the time)",
                    json!({"burst": hid, "senders": senders, "each": per, "notices_for_this_pair": n, "all_notices": got.len(), "expected_notices": watched.len()}),
                );
            }
        }
    }
    let got = seen.lock().unwrap().clone();
    for (sidx, acc) in accepted.iter().enumerate() {
        let mine: Vec<i64> = got.iter().filter(|(s, _)| *s as usize == sidx).map(|(_, n)| *n).collect();
        if mine == *acc {
            continue;
        }
        let mut sorted = mine.clone();
        sorted.sort_unstable();
        let mut want = acc.clone();
        want.sort_unstable();
        let (sig, msg) = if sorted == want {
            ("C18:delivery:out-of-order:burst", "messages of one sender were handled in another order than it issued them")
        } else if sorted.windows(2).any(|w| w[0] == w[1]) {
            ("C18:delivery:duplicate:burst", "a message was handled more than once")
        } else {
            ("C18:delivery:lost:burst", "an accepted message for a live process was never handled")
        };
        let first_bad = mine.iter().zip(acc.iter()).position(|(a, b)| a != b).unwrap_or(mine.len().min(acc.len()));
        ctx.viol(sig, msg, json!({"burst": hid, "senders": senders, "each": per, "sender": sidx, "accepted": acc.len(), "handled": mine.len(), "first_difference_at": first_bad,
            "handled_there": mine.iter().skip(first_bad.saturating_sub(2)).take(6).collect::<Vec<_>>(), "issued_there": acc.iter().skip(first_bad.saturating_sub(2)).take(6).collect::<Vec<_>>()}));
    }
}

/// Several tasks race to register the same fresh names for different processes: each name is granted exactly
/// once, and it resolves to the process it was granted to.
async fn name_race(ctx: &Ctx, rng: &mut Rng, hid: usize) {
    ctx.beat(&format!("name-race/{}", hid));
    let mut node = Node::new(format!("race{}@127.0.0.1", hid), "cookie");
    if let Err(e) = node.start(0).await {
        ctx.inconclusive(&format!("Node::start failed: {}", e));
        return;
    }
    let node = Arc::new(node);
    let log: Arc<Log> = Arc::new(Log::default());
    let tasks = 2 + rng.below(5);
    let names = *rng.pick(&[150usize, 400, 1200]);
    let mut pids = Vec::new();
    for _ in 0..tasks {
        match spawn_recorder(&node, &log).await {
            Some(p) => pids.push(p),
            None => {
                ctx.inconclusive("spawn failed");
                return;
            }
        }
    }
    let barrier = Arc::new(tokio::sync::Barrier::new(tasks));
    let mut hs = Vec::new();
    for (t, pid) in pids.iter().enumerate() {
        let (node, pid, barrier) = (node.clone(), pid.clone(), barrier.clone());
        hs.push(tokio::spawn(async move {
            barrier.wait().await;
            let mut won: Vec<usize> = Vec::new();
            for i in 0..names {
                // a few lookups in between, like real callers do (and to vary where a task gets descheduled)
                if (i + t) % 3 == 0 {
                    let _ = node.whereis(&Atom::new(format!("r{}", i.saturating_sub(1)))).await;
                }
                if node.register(Atom::new(format!("r{}", i)), pid.clone()).await.is_ok() {
                    won.push(i);
                }
            }
            won
        }));
    }
    let mut granted: Vec<Vec<usize>> = vec![Vec::new(); names];
    for (t, h) in hs.into_iter().enumerate() {
        match tokio::time::timeout(Duration::from_secs(60), h).await {
            Ok(Ok(won)) => {
                for i in won {
                    granted[i].push(t);
                }
            }
            _ => {
                ctx.viol("C18:names:race-stalled", "a registering task did not finish within 60 s", json!({"race": hid}));
                return;
            }
        }
    }
    ctx.eval(names as u64);
    ctx.class(&format!("name-race/{}tasks/{}names", tasks, names));
    let twice: Vec<usize> = (0..names).filter(|i| granted[*i].len() > 1).collect();
    let never: Vec<usize> = (0..names).filter(|i| granted[*i].is_empty()).collect();
    if !twice.is_empty() {
        ctx.viol(
            "C18:names:granted-to-two-processes",
            "register returned Ok for the same free name to more than one process",
            json!({"race": hid, "tasks": tasks, "names": names, "names_granted_more_than_once": twice.len(), "example": format!("r{} -> tasks {:?}", twice[0], granted[twice[0]])}),
        );
    } else if !never.is_empty() {
        ctx.viol("C18:names:free-name-refused-to-everybody", "a free name was refused to every contender", json!({"race": hid, "names": never.len()}));
    } else {
        // the name resolves to the winner
        let mut wrong = 0;
        for i in (0..names).step_by(7) {
            let w = &pids[granted[i][0]];
            if node.whereis(&Atom::new(format!("r{}", i))).await.as_ref().map(key) != Some(key(w)) {
                wrong += 1;
            }
        }
        if wrong > 0 {
            ctx.viol("C18:names:resolves-to-a-loser", "a name resolves to a process other than the one register granted it to", json!({"race": hid, "names_checked_wrong": wrong}));
        }
    }
}

async fn history(ctx: &Ctx, rng: &mut Rng, hid: usize, yields: bool) {
    ctx.beat(&format!("history/{}", hid));
    let log: Arc<Log> = Arc::new(Log::default());
    let mut node = Node::new(format!("local{}@127.0.0.1", hid), "cookie");
    if let Err(e) = node.start(0).await {
        ctx.inconclusive(&format!("Node::start failed: {}", e));
        return;
    }
    let node = Arc::new(node);
    let seed = rng.next_u64();
    let hits = Arc::new(AtomicU64::new(0));
    if yields {
        let h2 = hits.clone();
        edp_client::verif::set_callback(Some(Arc::new(move |nm: &'static str| -> u32 {
            if nm.starts_with("proc:exit:") {
                let n = h2.fetch_add(1, Ordering::Relaxed);
                let x = (seed ^ n.wrapping_mul(0x9E37_79B9_7F4A_7C15)).wrapping_mul(0xBF58_476D_1CE4_E5B9);
                return ((x >> 33) % 5) as u32;
            }
            0
        })));
    }
    let nproc = 3 + rng.below(6);
    let ntasks = 2 + rng.below(5);
    let names: Vec<Atom> = (0..1 + rng.below(3)).map(|i| Atom::new(format!("name{}", i))).collect();
    let mut pids: Vec<ExternalPid> = Vec::new();
    for _ in 0..nproc {
        match spawn_recorder(&node, &log).await {
            Some(p) => pids.push(p),
            None => {
                ctx.inconclusive("spawn failed");
                return;
            }
        }
    }
    let wit_base = json!({"history": hid, "processes": nproc, "tasks": ntasks, "names": names.len(), "yields": yields});
    // ---- phase A: concurrent sends, name operations, links and monitors (each pair owned by one task)
    let name_ops: Arc<Mutex<HashMap<String, Vec<NameOp>>>> = Default::default();
    let accepted: Arc<Mutex<Vec<(usize, PidKey, u64, bool)>>> = Default::default(); // task, receiver, n, by_name
    let links: Arc<Mutex<HashSet<(PidKey, PidKey)>>> = Default::default();
    let monitors: Arc<Mutex<Vec<(PidKey, PidKey, Vec<u32>)>>> = Default::default(); // watcher, watched, ref
    let mut handles = Vec::new();
    for t in 0..ntasks {
        let node = node.clone();
        let log = log.clone();
        let pids = pids.clone();
        let names = names.clone();
        let name_ops = name_ops.clone();
        let accepted = accepted.clone();
        let links = links.clone();
        let monitors = monitors.clone();
        let mut trng = Rng::derive(seed, hid as u64, t as u64);
        let nops = 20 + trng.below(80);
        handles.push(tokio::spawn(async move {
            let mut counters: HashMap<PidKey, u64> = HashMap::new();
            let mut my_refs: Vec<(usize, usize, ExternalReference)> = Vec::new();
            for _ in 0..nops {
                match trng.below(12) {
                    0..=4 => {
                        // numbered message to a pid
                        let p = &pids[trng.below(pids.len())];
                        let n = counters.entry(key(p)).or_insert(0);
                        *n += 1;
                        let body = OwnedTerm::Tuple(vec![OwnedTerm::atom("msg"), OwnedTerm::Integer(t as i64), OwnedTerm::Integer(*n as i64)]);
                        if node.send(p, body).await.is_ok() {
                            accepted.lock().unwrap().push((t, key(p), *n, false));
                        }
                    }
                    5 => {
                        // message to a registered name (numbered in a separate stream per name)
                        let nm = &names[trng.below(names.len())];
                        let n = 1_000_000 + trng.next_u64() % 1_000_000_000;
                        let body = OwnedTerm::Tuple(vec![OwnedTerm::atom("msg"), OwnedTerm::Integer(100 + t as i64), OwnedTerm::Integer(n as i64)]);
                        if node.send_to_name(nm, body).await.is_ok() {
                            accepted.lock().unwrap().push((100 + t, (0, 0), n, true));
                        }
                    }
                    6 | 7 => {
                        let nm = &names[trng.below(names.len())];
                        let p = &pids[trng.below(pids.len())];
                        let call = log.now();
                        let r = node.register(nm.clone(), p.clone()).await;
                        let ret = log.now();
                        name_ops.lock().unwrap().entry(nm.as_str().to_string()).or_default().push(NameOp { call, ret, kind: 0, pid: Some(key(p)), ok: r.is_ok(), seen: None });
                    }
                    8 => {
                        let nm = &names[trng.below(names.len())];
                        let call = log.now();
                        let r = node.unregister(nm).await;
                        let ret = log.now();
                        name_ops.lock().unwrap().entry(nm.as_str().to_string()).or_default().push(NameOp { call, ret, kind: 1, pid: None, ok: r.is_ok(), seen: None });
                    }
                    9 => {
                        let nm = &names[trng.below(names.len())];
                        let call = log.now();
                        let r = node.whereis(nm).await;
                        let ret = log.now();
                        name_ops.lock().unwrap().entry(nm.as_str().to_string()).or_default().push(NameOp { call, ret, kind: 2, pid: None, ok: true, seen: r.as_ref().map(key) });
                    }
                    10 => {
                        // link / unlink a pair owned by this task (so its final state is this task's last word)
                        let mut pair_idx = None;
                        for _ in 0..12 {
                            let a = trng.below(pids.len());
                            let b = trng.below(pids.len());
                            if a < b && (a * 31 + b) % ntasks == t {
                                pair_idx = Some((a, b));
                                break;
                            }
                        }
                        if let Some((a, b)) = pair_idx {
                            let pair = (key(&pids[a]), key(&pids[b]));
                            if trng.chance(3, 4) {
                                if node.link(&pids[a], &pids[b]).await.is_ok() {
                                    links.lock().unwrap().insert(pair);
                                }
                            } else if node.unlink(&pids[a], &pids[b]).await.is_ok() {
                                links.lock().unwrap().remove(&pair);
                            }
                        }
                    }
                    _ => {
                        let a = trng.below(pids.len());
                        let b = trng.below(pids.len());
                        if a != b {
                            if trng.chance(3, 4) || my_refs.is_empty() {
                                if let Ok(r) = node.monitor(&pids[a], &pids[b]).await {
                                    monitors.lock().unwrap().push((key(&pids[a]), key(&pids[b]), r.ids.clone()));
                                    my_refs.push((a, b, r));
                                }
                            } else {
                                let (a, b, r) = my_refs.swap_remove(trng.below(my_refs.len()));
                                if node.demonitor(&pids[a], &pids[b], &r).await.is_ok() {
                                    monitors.lock().unwrap().retain(|m| m.2 != r.ids);
                                }
                            }
                        }
                    }
                }
                if trng.chance(1, 4) {
                    tokio::task::yield_now().await;
                }
            }
        }));
    }
    let all = async {
        for h in handles {
            let _ = h.await;
        }
    };
    if tokio::time::timeout(Duration::from_secs(30), all).await.is_err() {
        ctx.viol("C18:stall:phase-a", "driver tasks did not finish within 30 s", wit_base.clone());
        edp_client::verif::set_callback(None);
        return;
    }
    // ---- gen_server / gen_event calls: exactly one {Ref, Reply} per call, to its caller
    let server = node.spawn(GenServerProcess::new(Doubler, node.registry())).await.ok();
    let manager = {
        let mut m = GenEventManager::new(node.registry());
        let _ = m.add_handler(Box::new(Tripler), OwnedTerm::atom("ok")).await;
        node.spawn(m).await.ok()
    };
    let mut calls: Vec<(PidKey, Vec<u32>, i64)> = Vec::new();
    for c in 0..(4 + rng.below(8)) {
        let caller = &pids[rng.below(pids.len())];
        let r = node.make_reference();
        let arg = c as i64 + 1;
        let from = OwnedTerm::Tuple(vec![OwnedTerm::Pid(caller.clone()), OwnedTerm::Reference(r.clone())]);
        if c % 2 == 0 {
            if let Some(s) = &server {
                let m = OwnedTerm::Tuple(vec![OwnedTerm::atom("$gen_call"), from, OwnedTerm::Integer(arg)]);
                if node.send(s, m).await.is_ok() {
                    calls.push((key(caller), r.ids.clone(), arg * 2));
                }
            }
        } else if let Some(s) = &manager {
            // every third call to the manager names a handler that is not installed: the manager answers `error`
            // and goes on serving
            let known = c % 3 != 1;
            let m = OwnedTerm::Tuple(vec![OwnedTerm::atom("$gen_call"), from, OwnedTerm::atom(if known { "tripler" } else { "no_such_handler" }), OwnedTerm::Integer(arg)]);
            if node.send(s, m).await.is_ok() {
                calls.push((key(caller), r.ids.clone(), if known { arg * 3 } else { REPLY_ERROR }));
            }
        }
    }
    // ---- phase B: some processes fail
    let links_at_barrier: HashSet<(PidKey, PidKey)> = links.lock().unwrap().clone();
    let monitors_at_barrier: Vec<(PidKey, PidKey, Vec<u32>)> = monitors.lock().unwrap().clone();
    // quiesce phase A deliveries first so that "accepted before the poison" is unambiguous
    tokio::time::sleep(Duration::from_millis(20)).await;
    let nvictims = 1 + rng.below(2.min(pids.len() - 1));
    let mut victims: Vec<ExternalPid> = Vec::new();
    let mut idxs: Vec<usize> = (0..pids.len()).collect();
    rng.shuffle(&mut idxs);
    // processes that are linked, monitored or named make the more interesting victims
    let mut named: HashSet<PidKey> = HashSet::new();
    for nm in &names {
        if let Some(p) = node.whereis(nm).await {
            named.insert(key(&p));
        }
    }
    idxs.sort_by_key(|i| {
        let k = key(&pids[*i]);
        let score = links_at_barrier.iter().filter(|(a, b)| *a == k || *b == k).count() + monitors_at_barrier.iter().filter(|m| m.1 == k).count() + if named.contains(&k) { 3 } else { 0 };
        std::cmp::Reverse(score.min(3))
    });
    for i in idxs.iter().take(nvictims) {
        victims.push(pids[*i].clone());
    }
    let names_of_victims: Vec<(Atom, PidKey)> = {
        let mut v = Vec::new();
        for nm in &names {
            if let Some(p) = node.whereis(nm).await {
                if victims.iter().any(|x| key(x) == key(&p)) {
                    v.push((nm.clone(), key(&p)));
                }
            }
        }
        v
    };
    // names with a past: one that a victim held and gave up, now held by a survivor; one that a victim holds next to
    // another name of a survivor; plus every name as it stands now. The survivors' names must outlive the victims.
    let survivors: Vec<ExternalPid> = pids.iter().filter(|p| !victims.iter().any(|v| key(v) == key(p))).cloned().collect();
    let mut held_by_survivors: Vec<(Atom, PidKey, &'static str)> = Vec::new();
    for (i, v) in victims.iter().enumerate() {
        if let Some(s) = survivors.get(i % survivors.len().max(1)) {
            let moved = Atom::new(format!("moved{}", i));
            if node.register(moved.clone(), v.clone()).await.is_ok() && node.unregister(&moved).await.is_ok() && node.register(moved.clone(), s.clone()).await.is_ok() {
                held_by_survivors.push((moved, key(s), "given-up-by-a-process-that-then-failed"));
            }
            let twice = Atom::new(format!("again{}", i));
            if node.register(twice.clone(), s.clone()).await.is_ok() && node.unregister(&twice).await.is_ok() && node.register(twice.clone(), s.clone()).await.is_ok() {
                held_by_survivors.push((twice, key(s), "registered-again-by-the-same-process"));
            }
        }
    }
    for nm in &names {
        if let Some(p) = node.whereis(nm).await {
            if survivors.iter().any(|s| key(s) == key(&p)) {
                held_by_survivors.push((nm.clone(), key(&p), "as-the-history-left-it"));
            }
        }
    }
    for v in &victims {
        let _ = node.send(v, OwnedTerm::atom("poison")).await;
    }
    let mut all_gone = true;
    for v in &victims {
        if !wait_gone(&node, v).await {
            all_gone = false;
        }
    }
    if !all_gone {
        ctx.viol("C18:terminated-process-still-resolves", "a process whose handler failed is still in the registry after 2 s", wit_base.clone());
    }
    tokio::time::sleep(Duration::from_millis(30)).await;
    edp_client::verif::set_callback(None);
    // ---- phase C: checks at quiescence
    let vk: HashSet<PidKey> = victims.iter().map(key).collect();
    ctx.eval(1);
    ctx.class(&format!("history/{}proc/{}tasks/{}names/{}victims/{}", nproc.min(8), ntasks, names.len(), victims.len(), if yields { "yields" } else { "mt" }));
    ctx.count("exit_hook_hits", hits.load(Ordering::Relaxed));
    // (3') names of processes that are still alive
    for (nm, holder, past) in &held_by_survivors {
        ctx.eval(1);
        let now = node.whereis(nm).await.map(|p| key(&p));
        if now != Some(*holder) {
            ctx.viol(
                &format!("C18:name-of-live-process-lost:{}", past),
                "a name registered for a process that is still alive no longer resolves to it after other processes failed",
                json!({"base": wit_base, "name": nm.as_str(), "resolves_to": format!("{:?}", now), "holder": format!("{:?}", holder)}),
            );
        }
    }
    // (3) identifiers and names of terminated processes
    for v in &victims {
        if node.send(v, OwnedTerm::atom("hello")).await.is_ok() {
            ctx.viol("C18:dead-pid-accepts-message", "a terminated process's identifier still accepts messages", wit_base.clone());
        }
    }
    for (nm, pk) in &names_of_victims {
        match node.whereis(nm).await {
            Some(p) if key(&p) == *pk => {
                ctx.viol("C18:name-resolves-to-dead-process", "a name registered for a terminated process still resolves to it", json!({"base": wit_base, "name": nm.as_str()}));
            }
            _ => {}
        }
        let survivor = pids.iter().find(|p| !vk.contains(&key(p))).unwrap();
        let cur = node.whereis(nm).await;
        if cur.is_none() || cur.as_ref().map(key) == Some(*pk) {
            if node.register(nm.clone(), survivor.clone()).await.is_err() {
                ctx.viol("C18:name-of-dead-process-not-reusable", "a name that was registered for a terminated process cannot be registered again", json!({"base": wit_base, "name": nm.as_str()}));
            }
        }
    }
    let events: Vec<(u64, Ev)> = log.events.lock().unwrap().clone();
    // (1) delivery: per (sender, receiver) duplicate-free, in order, complete for live receivers
    let mut handled: HashMap<(usize, PidKey), Vec<u64>> = HashMap::new();
    let mut handled_any: HashMap<(usize, u64), Vec<PidKey>> = HashMap::new();
    for (_, e) in &events {
        if let Ev::Handled { by, sender, n } = e {
            handled.entry((*sender, *by)).or_default().push(*n);
            handled_any.entry((*sender, *n)).or_default().push(*by);
        }
    }
    let acc = accepted.lock().unwrap().clone();
    let mut acc_by: HashMap<(usize, PidKey), Vec<u64>> = HashMap::new();
    for (t, r, n, by_name) in &acc {
        if !by_name {
            acc_by.entry((*t, *r)).or_default().push(*n);
        }
    }
    for ((t, r), sent) in &acc_by {
        ctx.eval(sent.len() as u64);
        let got = handled.get(&(*t, *r)).cloned().unwrap_or_default();
        let mut sorted = got.clone();
        sorted.sort();
        let dup = sorted.windows(2).any(|w| w[0] == w[1]);
        let in_order = got.windows(2).all(|w| w[0] < w[1]);
        let complete = got.len() == sent.len();
        if dup {
            ctx.viol("C18:delivery:duplicate", "a message was handed to the handler twice", json!({"base": wit_base, "sender": t, "handled": got.iter().take(20).collect::<Vec<_>>()}));
        }
        if !in_order {
            ctx.viol("C18:delivery:out-of-order", "one sender's messages were handled out of the order it issued them", json!({"base": wit_base, "sender": t, "handled": got.iter().take(20).collect::<Vec<_>>()}));
        }
        if !complete && !vk.contains(r) {
            ctx.viol("C18:delivery:lost", "a message accepted for a live process was never handled", json!({"base": wit_base, "sender": t, "accepted": sent.len(), "handled": got.len()}));
        }
        if got.iter().any(|n| !sent.contains(n)) {
            ctx.viol("C18:delivery:phantom", "a handler saw a message that was not accepted", json!({"base": wit_base, "sender": t}));
        }
    }
    // messages by name: handled exactly once, by a process that held the name
    let mut holders: HashMap<String, HashSet<PidKey>> = HashMap::new();
    for (nm, ops) in name_ops.lock().unwrap().iter() {
        for o in ops {
            if o.kind == 0 && o.ok {
                holders.entry(nm.clone()).or_default().insert(o.pid.unwrap());
            }
        }
    }
    let all_holders: HashSet<PidKey> = holders.values().flatten().cloned().collect();
    for (t, _, n, by_name) in &acc {
        if *by_name {
            ctx.eval(1);
            let who = handled_any.get(&(*t, *n)).cloned().unwrap_or_default();
            if who.len() > 1 {
                ctx.viol("C18:delivery-by-name:duplicate", "a message sent to a name was handled more than once", json!({"base": wit_base}));
            } else if who.len() == 1 && !all_holders.contains(&who[0]) {
                ctx.viol("C18:delivery-by-name:wrong-process", "a message sent to a name was handled by a process that never held a name", json!({"base": wit_base}));
            } else if who.is_empty() {
                ctx.viol("C18:delivery-by-name:lost", "a message accepted for a registered name was never handled", json!({"base": wit_base}));
            }
        }
    }
    // (4) per-name linearizability of phase A
    for (nm, ops) in name_ops.lock().unwrap().iter() {
        ctx.eval(ops.len() as u64);
        match linearizable(ops) {
            Some(true) => ctx.count("name_histories_checked", 1),
            Some(false) => {
                let mut sorted = ops.clone();
                sorted.sort_by_key(|o| o.call);
                ctx.viol("C18:names:not-linearizable", "the register/unregister/whereis history of a name is not linearizable against the sequential name table", json!({"base": wit_base, "name": nm, "ops": sorted.iter().map(|o| format!("{}..{} {} {:?} ok={} seen={:?}", o.call, o.ret, ["register", "unregister", "whereis"][o.kind as usize], o.pid, o.ok, o.seen)).collect::<Vec<_>>()}));
            }
            None => ctx.count("name_histories_too_long_for_exact_check", 1),
        }
    }
    // (2) exit and monitor notices
    for v in &victims {
        let vkey = key(v);
        let linked: HashSet<PidKey> = links_at_barrier.iter().filter_map(|(a, b)| if *a == vkey { Some(*b) } else if *b == vkey { Some(*a) } else { None }).filter(|p| !vk.contains(p)).collect();
        for p in pids.iter().map(key).filter(|p| !vk.contains(p)) {
            ctx.eval(1);
            let n = events.iter().filter(|(_, e)| matches!(e, Ev::ExitNotice { by, from } if *by == p && *from == vkey)).count();
            let want = if linked.contains(&p) { 1 } else { 0 };
            if n != want {
                let cause = if n > want { if want == 0 { "unexpected" } else { "duplicate" } } else { "missing" };
                ctx.viol(&format!("C18:exit-notice:{}", cause), "a linked live process must get exactly one exit notice for a terminated process (and an unlinked one none)", json!({"base": wit_base, "terminated": format!("{:?}", vkey), "process": format!("{:?}", p), "notices": n, "expected": want}));
            }
        }
        for (watcher, watched, r) in monitors_at_barrier.iter().filter(|m| m.1 == vkey && !vk.contains(&m.0)) {
            ctx.eval(1);
            let n = events.iter().filter(|(_, e)| matches!(e, Ev::MonitorNotice { by, monitored, reference } if by == watcher && monitored == watched && reference == r)).count();
            if n != 1 {
                ctx.viol(&format!("C18:monitor-notice:{}", if n == 0 { "missing" } else { "duplicate" }), "a monitoring live process must get exactly one notice with the monitor's reference", json!({"base": wit_base, "terminated": format!("{:?}", vkey), "watcher": format!("{:?}", watcher), "notices": n}));
            }
        }
    }
    // notices for processes that did not terminate
    for (_, e) in &events {
        match e {
            Ev::ExitNotice { from, .. } if !vk.contains(from) => ctx.viol("C18:exit-notice:for-live-process", "an exit notice names a process that did not terminate", wit_base.clone()),
            Ev::MonitorNotice { monitored, .. } if !vk.contains(monitored) => ctx.viol("C18:monitor-notice:for-live-process", "a monitor notice names a process that did not terminate", wit_base.clone()),
            _ => {}
        }
    }
    // (5) behaviours answer each call once, to its caller
    for (caller, r, want) in &calls {
        if vk.contains(caller) {
            continue;
        }
        ctx.eval(1);
        let replies: Vec<i64> = events.iter().filter_map(|(_, e)| match e {
            Ev::Reply { by, reference, value } if by == caller && reference == r => Some(*value),
            _ => None,
        }).collect();
        let elsewhere = events.iter().filter(|(_, e)| matches!(e, Ev::Reply { by, reference, .. } if by != caller && reference == r)).count();
        if replies.len() != 1 || replies[0] != *want || elsewhere > 0 {
            let cause = if replies.is_empty() { "missing" } else if replies.len() > 1 { "duplicate" } else if elsewhere > 0 { "misdelivered" } else { "wrong-value" };
            ctx.viol(&format!("C18:behaviour-reply:{}", cause), "an OTP-style behaviour must answer each call exactly once to its caller", json!({"base": wit_base, "replies": replies, "expected": want}));
        }
    }
    if hid % 23 == 0 {
        ctx.sample(json!({"history": hid, "events": events.len(), "accepted_sends": acc.len(), "links_at_barrier": links_at_barrier.len(), "monitors_at_barrier": monitors_at_barrier.len(), "victims": victims.len(), "names_of_victims": names_of_victims.len(), "calls": calls.len()}));
    }
}

/// Behaviour calls whose caller is in the middle of terminating when the behaviour answers it (the caller's handler
/// has failed; the caller is parked at the exit-propagation hooks and still resolves in the registry), mixed with
/// calls from a live caller. The behaviours must go on answering the live caller, exactly once per call.
async fn dying_caller(ctx: &Ctx, rng: &mut Rng, hid: usize, yields: bool) {
    ctx.beat(&format!("dying-caller/{}", hid));
    let log: Arc<Log> = Arc::new(Log::default());
    let mut node = Node::new(format!("dying{}@127.0.0.1", hid), "cookie");
    if let Err(e) = node.start(0).await {
        ctx.inconclusive(&format!("Node::start failed: {}", e));
        return;
    }
    let (Some(x), Some(y)) = (spawn_recorder(&node, &log).await, spawn_recorder(&node, &log).await) else {
        ctx.inconclusive("spawn failed");
        return;
    };
    let server = node.spawn(GenServerProcess::new(Doubler, node.registry())).await.ok();
    let manager = {
        let mut m = GenEventManager::new(node.registry());
        let _ = m.add_handler(Box::new(Tripler), OwnedTerm::atom("ok")).await;
        node.spawn(m).await.ok()
    };
    let (Some(server), Some(manager)) = (server, manager) else {
        ctx.inconclusive("spawn failed");
        return;
    };
    let park = 2 + rng.below(10) as u32;
    if yields {
        edp_client::verif::set_callback(Some(Arc::new(move |nm: &'static str| -> u32 { if nm.starts_with("proc:exit:") { park } else { 0 } })));
    }
    let mut expected: Vec<(Vec<u32>, i64, &'static str)> = Vec::new();
    let mut arg = 0i64;
    let mut call = |from: &ExternalPid, to_server: bool, which: bool, node: &Node| {
        arg += 1;
        let r = node.make_reference();
        let from_t = OwnedTerm::Tuple(vec![OwnedTerm::Pid(from.clone()), OwnedTerm::Reference(r.clone())]);
        let (m, want) = if to_server {
            (OwnedTerm::Tuple(vec![OwnedTerm::atom("$gen_call"), from_t, OwnedTerm::Integer(arg)]), arg * 2)
        } else if which {
            (OwnedTerm::Tuple(vec![OwnedTerm::atom("$gen_which_handlers"), from_t]), i64::MIN)
        } else {
            (OwnedTerm::Tuple(vec![OwnedTerm::atom("$gen_call"), from_t, OwnedTerm::atom("tripler"), OwnedTerm::Integer(arg)]), arg * 3)
        };
        (m, r.ids.clone(), want)
    };
    let _ = node.send(&x, OwnedTerm::atom("poison")).await;
    let n_during = 6 + rng.below(10);
    for c in 0..n_during {
        for _ in 0..rng.below(3) {
            tokio::task::yield_now().await;
        }
        let from_live = c % 3 == 2;
        let to_server = rng.bool();
        let (m, r, want) = call(if from_live { &y } else { &x }, to_server, rng.chance(1, 4), &node);
        let target = if to_server { &server } else { &manager };
        if node.send(target, m).await.is_ok() && from_live && want != i64::MIN {
            expected.push((r, want, if to_server { "gen_server" } else { "gen_event" }));
        }
    }
    let gone = wait_gone(&node, &x).await;
    edp_client::verif::set_callback(None);
    if !gone {
        ctx.viol("C18:terminated-process-still-resolves", "a process whose handler failed is still in the registry after 2 s", json!({"history": hid}));
    }
    // afterwards: both behaviours still answer a live caller
    for c in 0..4 {
        let to_server = c % 2 == 0;
        let (m, r, want) = call(&y, to_server, false, &node);
        let target = if to_server { &server } else { &manager };
        match node.send(target, m).await {
            Ok(()) => expected.push((r, want, if to_server { "gen_server" } else { "gen_event" })),
            Err(e) => ctx.viol(
                &format!("C18:behaviour-gone-after-answering-a-dying-caller:{}", if to_server { "gen_server" } else { "gen_event" }),
                "a behaviour process that answered a call from a caller in the middle of terminating no longer accepts messages",
                json!({"history": hid, "error": e.to_string(), "parked_for": park, "yields": yields}),
            ),
        }
    }
    tokio::time::sleep(Duration::from_millis(40)).await;
    let events: Vec<(u64, Ev)> = log.events.lock().unwrap().clone();
    let yk = key(&y);
    ctx.class(&format!("dying-caller/{}calls-during/{}", n_during, if yields { format!("parked-{}", park) } else { "mt".into() }));
    for (r, want, kind) in &expected {
        ctx.eval(1);
        let replies: Vec<i64> = events.iter().filter_map(|(_, e)| match e {
            Ev::Reply { by, reference, value } if *by == yk && reference == r => Some(*value),
            _ => None,
        }).collect();
        if replies.len() != 1 || replies[0] != *want {
            let cause = if replies.is_empty() { "missing" } else if replies.len() > 1 { "duplicate" } else { "wrong-value" };
            ctx.viol(
                &format!("C18:behaviour-reply:{}:{}:around-a-dying-caller", cause, kind),
                "a call from a live caller, accepted by a behaviour that also answers a caller in the middle of terminating, was not answered exactly once",
                json!({"history": hid, "replies": replies, "expected": want, "parked_for": park, "yields": yields, "calls_during_the_exit": n_during}),
            );
        }
    }
    ctx.count("calls_judged_around_a_dying_caller", expected.len() as u64);
}

pub fn run(ctx: &Ctx) {
    ctx.rule("histories = 3..8 recording processes, 2..6 driver tasks, 20..100 operations each over 1..3 contended names: numbered sends by pid and by name, register/unregister/whereis (call/return stamped from one counter), link/unlink on task-owned pairs, monitor/demonitor, gen_server and gen_event calls; then 1..2 processes are made to fail; offline checkers: per (sender, receiver) in-order duplicate-free complete delivery, exactly-once exit/monitor notices for links/monitors in force before the failure, dead pids and their names no longer resolve and names are reusable, names of live processes (also ones a failed process had held and given up earlier) keep resolving, per-name linearizability (exact search), one reply per behaviour call; behaviour calls whose caller is parked in the middle of terminating (still resolvable) mixed with calls from a live caller, which must all be answered; 2..6 tasks racing to register the same 150..1200 fresh names (each granted exactly once, resolving to the winner); on the multi-thread runtime additionally bursts of 400..3000 numbered messages from 1..3 senders to a process held busy behind a gate (around the mailbox capacity), handled exactly once and in each sender's order, while processes the busy one is linked to / monitors fail (their notices arrive exactly once); multi-thread runtime and current-thread runtime with seeded yields at the exit-propagation hooks; evaluations = deliveries, notices, name operations and calls judged; distinct = distinct history configurations");
    ctx.assume("links/monitors are compared as of a quiescent barrier before the failing message is sent; messages accepted after a process was sent its failing message are not required to be handled");
    let mut rng = Rng::derive(ctx.seed, 18, 1);
    let n = ctx.pick(60usize, 8000usize);
    {
        let rt = tokio::runtime::Builder::new_current_thread().enable_all().build().expect("runtime");
        rt.block_on(async {
            let _epmd = net::start_epmd().await;
            for i in 0..n / 2 {
                if !ctx.time_left() {
                    break;
                }
                history(ctx, &mut rng, i, true).await;
                dying_caller(ctx, &mut rng, 500_000 + i, true).await;
                if i % 10 == 0 {
                    name_race(ctx, &mut rng, 400_000 + i).await;
                }
            }
        });
    }
    {
        let rt = tokio::runtime::Builder::new_multi_thread().worker_threads(16).enable_all().build().expect("runtime");
        rt.block_on(async {
            let _epmd = net::start_epmd().await;
            for i in 0..n / 2 {
                if !ctx.time_left() {
                    break;
                }
                history(ctx, &mut rng, 100_000 + i, false).await;
                if i % 3 == 0 {
                    dying_caller(ctx, &mut rng, 600_000 + i, false).await;
                }
                if i % 6 == 0 {
                    burst(ctx, &mut rng, 200_000 + i).await;
                    name_race(ctx, &mut rng, 300_000 + i).await;
                }
            }
        });
    }
}
