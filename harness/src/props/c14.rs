//! C14 – distribution headers and the atom cache resolve every atom correctly.

use super::common::guarded;
use crate::genr::val::{Gen, GenCfg};
use crate::out::{Ctx, hex_cap};
use crate::refmodel::denote::{Style, term_of, val_of};
use crate::refmodel::dist::{ReceiverCache, SenderCache, collect_atoms, plan_message, read_message, write_message};
use crate::refmodel::val::Val;
use crate::rng::Rng;
use erltf::{AtomCache, EncodeError, OwnedTerm};
use serde_json::json;

fn atom_of_len(i: usize, len: usize) -> String {
    let mut s = format!("a{}_", i);
    while s.len() < len {
        s.push(if s.len() % 7 == 0 { 'é' } else { 'x' });
    }
    while s.len() > len && !s.is_empty() {
        s.pop();
    }
    // keep distinctness for tiny lengths
    if len < 4 {
        s = format!("{}", i % 10).repeat(len.max(0));
    }
    s
}

/// A term holding exactly the given atoms (some only inside pids / funs).
fn term_with_atoms(rng: &mut Rng, atoms: &[String]) -> Val {
    let mut elems: Vec<Val> = Vec::new();
    for (i, a) in atoms.iter().enumerate() {
        elems.push(match i % 5 {
            0 => Val::Atom(a.clone()),
            1 => Val::Pid { node: a.clone(), id: i as u32, serial: 0, creation: 1 },
            2 => Val::Tuple(vec![Val::Atom(a.clone()), Val::int(i as i128)]),
            3 => Val::ExtFun { module: a.clone(), function: a.clone(), arity: 1 },
            _ => Val::Map(vec![(Val::Atom(a.clone()), Val::binary(&[i as u8]))]),
        });
    }
    if rng.bool() { Val::Tuple(elems) } else { Val::list(elems) }
}

fn writer_side(ctx: &Ctx, rng: &mut Rng) {
    let counts: Vec<usize> = {
        let mut c: Vec<usize> = vec![0, 1, 2, 3, 4, 5, 7, 8, 15, 16, 17, 100, 127, 128, 129, 254, 255, 256, 257, 300];
        if !ctx.quick() {
            c.extend(6..=64);
            c.extend([200, 201, 253]);
        }
        c
    };
    let lens: &[usize] = &[0, 1, 5, 255, 256, 257, 1020];
    for &n in &counts {
        for &maxlen in lens {
            for multi in [false, true] {
                if !ctx.time_left() {
                    return;
                }
                ctx.eval(1);
                // n distinct atoms, one of them of length `maxlen`, the others short
                let mut atoms: Vec<String> = (0..n).map(|i| atom_of_len(i, 4 + i % 9)).collect();
                if n > 0 {
                    let k = rng.below(n);
                    atoms[k] = atom_of_len(k, maxlen);
                    if maxlen == 0 {
                        atoms[k] = String::new();
                    }
                }
                atoms.sort();
                atoms.dedup();
                let n_eff = atoms.len();
                let (ca, pa) = atoms.split_at(if multi { n_eff / 2 } else { n_eff });
                let control_v = term_with_atoms(rng, ca);
                let payload_v = term_with_atoms(rng, pa);
                let control = term_of(&control_v, rng, Style::User).unwrap();
                let payload = term_of(&payload_v, rng, Style::User).unwrap();
                let long = atoms.iter().any(|a| a.len() > 255);
                ctx.class(&format!("writer/n{}/{}{}{}", if n_eff > 255 { ">255".to_string() } else { (n_eff.min(40)).to_string() }, if n_eff % 2 == 0 { "even" } else { "odd" }, if long { "/long" } else { "" }, if multi { "/multi" } else { "" }));
                let res = guarded(|| {
                    if multi {
                        erltf::encode_with_dist_header_multi(&[&control, &payload])
                    } else {
                        erltf::encode_with_dist_header(&control)
                    }
                });
                let wit = |d: serde_json::Value| json!({"distinct_atoms": n_eff, "longest_atom": atoms.iter().map(|a| a.len()).max().unwrap_or(0), "multi": multi, "detail": d});
                let bytes = match res {
                    Err(p) => {
                        ctx.viol("C14:writer:panic", "encode_with_dist_header panicked", wit(json!({"panic": p})));
                        continue;
                    }
                    Ok(Err(e)) => {
                        if n_eff > 255 && matches!(e, EncodeError::TooManyAtoms { .. }) {
                            continue; // the permitted error
                        }
                        ctx.viol("C14:writer:unexpected-error", "encoding failed although the header can carry the atoms", wit(json!({"error": e.to_string()})));
                        continue;
                    }
                    Ok(Ok(b)) => b,
                };
                if n_eff > 255 {
                    ctx.viol("C14:writer:too-many-atoms-accepted", "more than 255 distinct atoms were encoded into one header", wit(json!({"bytes": hex_cap(&bytes, 32)})));
                    continue;
                }
                let want: Vec<Val> = if multi { vec![control_v.clone(), payload_v.clone()] } else { vec![control_v.clone()] };
                // independent reader
                let mut rc = ReceiverCache::default();
                let verdict = match read_message(&bytes, &mut rc) {
                    Ok(vals) => {
                        if vals.len() == want.len() && vals.iter().zip(&want).all(|(a, b)| a.same(b)) {
                            None
                        } else {
                            Some(format!("values differ: {}", vals.iter().map(|v| v.show()).collect::<Vec<_>>().join(" ; ").chars().take(200).collect::<String>()))
                        }
                    }
                    Err(e) => Some(format!("{:?}", e)),
                };
                if let Some(why) = verdict {
                    let cause = if n_eff == 0 {
                        "no-header-without-atoms"
                    } else if long && n_eff % 2 == 1 {
                        "long-atoms-flag:odd-count"
                    } else if long {
                        "long-atoms"
                    } else {
                        "other"
                    };
                    ctx.viol(
                        &format!("C14:writer:{}", cause),
                        "an independent reader of the header layout does not see the same terms",
                        wit(json!({"reader": why, "bytes": hex_cap(&bytes, 64)})),
                    );
                }
                // own decoder
                let mut cache = AtomCache::new();
                match guarded(|| erltf::decode_with_atom_cache(&bytes, &mut cache)) {
                    Ok(Ok((c, p))) => {
                        let ok = val_of(&c).same(&control_v) && (if multi { p.as_ref().map(|x| val_of(x).same(&payload_v)).unwrap_or(false) } else { p.is_none() });
                        if !ok {
                            ctx.viol("C14:own-decoder-differs", "the library's own decoder reads its header back differently", wit(json!({"bytes": hex_cap(&bytes, 64)})));
                        }
                    }
                    Ok(Err(e)) => ctx.viol(
                        &format!("C14:own-decoder-rejects:{}", if long && n_eff % 2 == 1 { "long-atoms:odd-count" } else if long { "long-atoms" } else { "other" }),
                        "the library's own decoder rejects its header",
                        wit(json!({"error": e.to_string(), "bytes": hex_cap(&bytes, 64)})),
                    ),
                    Err(p) => ctx.viol("C14:own-decoder-panic", "panic", wit(json!({"panic": p}))),
                }
            }
        }
    }
    // atoms longer than the header can carry (> 65535 bytes) must be an error, not a truncation
    for len in [65535usize, 65536, 70000] {
        ctx.eval(1);
        let t = OwnedTerm::Tuple(vec![OwnedTerm::atom("z".repeat(len)), OwnedTerm::atom("ok")]);
        ctx.class(&format!("writer/atom-len-{}", len));
        match guarded(|| erltf::encode_with_dist_header(&t)) {
            Ok(Ok(bytes)) => {
                let mut rc = ReceiverCache::default();
                let ok = matches!(read_message(&bytes, &mut rc), Ok(v) if v.len() == 1 && v[0].same(&val_of(&t)));
                if !ok {
                    ctx.viol(
                        &format!("C14:writer:atom-length-truncated:{}", if len > 65535 { ">65535" } else { "65535" }),
                        "an atom too long for the header's length field was written truncated instead of reported",
                        json!({"atom_len": len, "bytes_len": bytes.len()}),
                    );
                }
            }
            Ok(Err(_)) => {
                if len <= 65535 {
                    ctx.viol("C14:writer:unexpected-error", "a 65535-byte atom was refused", json!({"atom_len": len}));
                }
            }
            Err(p) => ctx.viol("C14:writer:panic", "panic", json!({"panic": p})),
        }
    }
}

fn reader_side(ctx: &Ctx, rng: &mut Rng) {
    let histories = ctx.pick(300usize, 60_000usize);
    let pool: Vec<String> = (0..40).map(|i| match i % 6 {
        0 => format!("atom{}", i),
        1 => format!("é{}", i),
        2 => "x".repeat(200 + i),
        3 => format!("node{}@host", i),
        4 => format!("{}", i),
        _ => format!("Elixir.Mod{}", i),
    }).chain(std::iter::once("y".repeat(300))).chain(std::iter::once(String::new())).collect();
    // a wide pool for headers with up to 255 references (every flag nibble position is used)
    let wide_pool: Vec<String> = (0..420).map(|i| format!("w{}", i)).collect();
    for h in 0..histories {
        if !ctx.time_left() {
            return;
        }
        let mut sender = SenderCache::default();
        let mut cache = AtomCache::new();
        let slot_space = *rng.pick(&[6usize, 40, 300, 2048]);
        let fraction = *rng.pick(&[30u32, 70, 100]);
        let nmsg = 1 + rng.below(if ctx.quick() { 12 } else { 50 });
        let mut trace: Vec<serde_json::Value> = Vec::new();
        let mut undecodable_seen = false;
        for m in 0..nmsg {
            ctx.eval(1);
            // a message using a few atoms of the pool (so that entries get reused across messages)
            // mostly a few atoms; in every history that has the room, now and then a message with 60..255
            let wide = slot_space >= 300 && rng.chance(1, 5);
            let k = if wide { 60 + rng.below(196) } else { 1 + rng.below(6) };
            let mut atoms: Vec<String> = (0..k).map(|_| if wide { rng.pick(&wide_pool).clone() } else { rng.pick(&pool).clone() }).collect();
            atoms.sort();
            atoms.dedup();
            let control_v = Val::Tuple(vec![Val::int(6), Val::Pid { node: atoms[0].clone(), id: m as u32, serial: 0, creation: 1 }, Val::atom(""), Val::Atom(atoms[atoms.len() / 2].clone())]);
            let payload_v = {
                let cfg = GenCfg { max_depth: 2, max_nodes: 6, ids: false, funs: false, ..GenCfg::default() };
                let extra = {
                    let mut g = Gen::new(rng, cfg);
                    g.value()
                };
                Val::Tuple(vec![term_with_atoms(rng, &atoms), extra])
            };
            // a third of the messages are control-only (LINK, EXIT, MONITOR_P ... carry no payload term); their
            // headers create and overwrite cache entries like any other
            let with_payload = !rng.chance(1, 3);
            let control_v = if with_payload {
                control_v
            } else {
                Val::Tuple(vec![
                    Val::int(1),
                    Val::Pid { node: atoms[0].clone(), id: m as u32, serial: 0, creation: 1 },
                    Val::Pid { node: atoms[atoms.len() - 1].clone(), id: 7, serial: 1, creation: 2 },
                ])
            };
            let mut all_atoms = Vec::new();
            collect_atoms(&control_v, &mut all_atoms);
            if with_payload {
                collect_atoms(&payload_v, &mut all_atoms);
            }
            // now and then the sender's previous message had a faultless header (whose entries the sender now relies
            // on) but terms the receiver cannot decode: cut short, nested beyond the limit, or with an unknown tag
            if rng.chance(1, 6) {
                let lost_atoms: Vec<String> = (0..1 + rng.below(5)).map(|_| if wide { rng.pick(&wide_pool).clone() } else { rng.pick(&pool).clone() }).collect();
                let lost_v = Val::Tuple(vec![Val::int(2), Val::atom(""), term_with_atoms(rng, &lost_atoms)]);
                let mut la = Vec::new();
                collect_atoms(&lost_v, &mut la);
                let lrefs = plan_message(rng, &mut sender, &la, fraction.max(70), slot_space);
                let mut lb = write_message(&lrefs, &[&lost_v]);
                let how = rng.below(3);
                match how {
                    0 => {
                        let n = lb.len();
                        lb.truncate(n - 1);
                    }
                    1 => {
                        lb.push(131);
                        for _ in 0..300 {
                            lb.extend_from_slice(&[104, 1]);
                        }
                        lb.extend_from_slice(&[97, 7]);
                    }
                    _ => lb.extend_from_slice(&[131, 255, 1]),
                }
                let r = guarded(|| erltf::decode_with_atom_cache(&lb, &mut cache));
                let how_name = ["cut-short", "too-deep", "unknown-tag"][how];
                undecodable_seen = true;
                ctx.class(&format!("reader/undecodable-terms-behind-a-good-header/{}", how_name));
                trace.push(json!({"undecodable": how_name, "refs": lrefs.iter().map(|r| format!("{}{}:{}={}", if r.new_entry { "+" } else { "" }, r.segment, r.internal, r.atom.chars().take(12).collect::<String>())).collect::<Vec<_>>(), "result": match &r { Ok(Ok(_)) => "ok".to_string(), Ok(Err(e)) => format!("error: {}", e).chars().take(80).collect(), Err(p) => format!("panic: {}", p) }}));
            }
            let refs = plan_message(rng, &mut sender, &all_atoms, fraction, slot_space);
            let bytes = if with_payload { write_message(&refs, &[&control_v, &payload_v]) } else { write_message(&refs, &[&control_v]) };
            // self-check of the model: the independent reader must agree with the independent writer
            // (uses its own receiver cache, rebuilt per history below)
            let long = refs.iter().any(|r| r.new_entry && r.atom.len() > 255);
            trace.push(json!({"refs": refs.iter().map(|r| format!("{}{}:{}={}", if r.new_entry { "+" } else { "" }, r.segment, r.internal, r.atom.chars().take(12).collect::<String>())).collect::<Vec<_>>(), "bytes": hex_cap(&bytes, 40)}));
            let class = format!(
                "reader/{}n{}{}{}{}{}",
                if with_payload { "" } else { "control-only/" },
                refs.len().min(9),
                if refs.iter().any(|r| !r.new_entry) { "/reuse" } else { "" },
                if refs.iter().enumerate().any(|(i, r)| r.internal as usize != i) { "/pos≠slot" } else { "" },
                if refs.iter().any(|r| r.segment != 0) { "/seg" } else { "" },
                if long { if refs.len() % 2 == 1 { "/long-odd" } else { "/long-even" } } else { "" }
            );
            ctx.class(&class);
            let got = guarded(|| erltf::decode_with_atom_cache(&bytes, &mut cache));
            let ok = match &got {
                Ok(Ok((c, Some(p)))) => with_payload && val_of(c).same(&control_v) && val_of(p).same(&payload_v),
                Ok(Ok((c, None))) => !with_payload && val_of(c).same(&control_v),
                _ => false,
            };
            if !ok {
                let cause = if undecodable_seen {
                    "after-a-message-with-a-good-header-and-undecodable-terms"
                } else if refs.is_empty() {
                    "no-refs"
                } else if long && refs.len() % 2 == 1 {
                    "long-atoms-flag:odd-count"
                } else if refs.iter().enumerate().any(|(i, r)| r.internal as usize != i) {
                    "ref-by-slot"
                } else if refs.iter().any(|r| r.segment != 0) {
                    "segment-ignored"
                } else {
                    "other"
                };
                let detail = match &got {
                    Ok(Ok((c, p))) => format!("decoded control {} payload {}", val_of(c).show(), p.as_ref().map(|x| val_of(x).show()).unwrap_or_default()),
                    Ok(Err(e)) => format!("error: {}", e),
                    Err(p) => format!("panic: {}", p),
                };
                ctx.viol(
                    &format!("C14:reader:{}", cause),
                    "a header from a conforming sender is not resolved to the atoms the sender meant",
                    json!({"history": h, "message": m, "trace": trace.iter().rev().take(4).collect::<Vec<_>>(), "intended_control": control_v.show(), "result": detail.chars().take(300).collect::<String>()}),
                );
                break; // the receiver's cache can no longer be trusted in this history
            }
            if h % 97 == 0 && m == nmsg - 1 {
                ctx.sample(json!({"history": h, "messages": nmsg, "last_message": trace.last()}));
            }
        }
    }
}

fn model_selfcheck(ctx: &Ctx, rng: &mut Rng) -> bool {
    // writer -> reader of the reference model over a short history
    let mut sender = SenderCache::default();
    let mut rc = ReceiverCache::default();
    for m in 0..200 {
        let atoms: Vec<String> = (0..1 + rng.below(8)).map(|i| if i == 3 { "L".repeat(300) } else { format!("s{}", rng.below(20)) }).collect();
        let v = term_with_atoms(rng, &atoms);
        let mut all = Vec::new();
        collect_atoms(&v, &mut all);
        let refs = plan_message(rng, &mut sender, &all, 80, 300);
        let bytes = write_message(&refs, &[&v]);
        match read_message(&bytes, &mut rc) {
            Ok(vals) if vals.len() == 1 && vals[0].same(&v) => {}
            other => {
                ctx.inconclusive(&format!("self-check of the header model failed at message {}: {:?}", m, other.map(|x| x.len())));
                return false;
            }
        }
    }
    true
}

/// The same sender model through a real connection with fragmentation negotiated: a whole message that creates and
/// overwrites cache entries arrives between the fragments of another (which refers to untouched entries only, so the
/// history has one reading), and later messages refer to what the message in between set up.
fn through_a_connection(ctx: &Ctx, rng: &mut Rng) {
    use crate::mon::net::{self, FLAG_DIST_HDR_ATOM_CACHE, FLAG_FRAGMENTS, PEER_BASE_FLAGS};
    use crate::refmodel::dist::AtomRef;
    use crate::refmodel::encode::ref_encode_canonical;
    let rt = tokio::runtime::Builder::new_current_thread().enable_all().build().expect("runtime");
    rt.block_on(async {
        let epmd = net::start_epmd().await;
        for h in 0..ctx.pick(6usize, 200usize) {
            if !ctx.time_left() {
                break;
            }
            let r = |a: &str, seg: u8, i: u8, new_entry: bool| AtomRef { atom: a.to_string(), segment: seg, internal: i, new_entry };
            let control = |k: i128| Val::Tuple(vec![Val::int(2), Val::atom(""), Val::Pid { node: "rust@127.0.0.1".into(), id: k as u32, serial: 0, creation: 1 }]);
            let seg = rng.below(8) as u8;
            let (s1, s2, s3, s4) = (rng.below(60) as u8, 60 + rng.below(60) as u8, 120 + rng.below(60) as u8, 180 + rng.below(60) as u8);
            let m1_p = Val::Tuple(vec![Val::atom("keep_a"), Val::atom("keep_b"), Val::atom("alpha")]);
            let m1 = write_message(&[r("keep_a", seg, s1, true), r("keep_b", seg, s2, true), r("alpha", seg, s3, true)], &[&control(1), &m1_p]);
            let a_p = Val::Tuple(vec![Val::atom("keep_b"), Val::atom("keep_a"), Val::binary(&vec![0x41; 100 + rng.below(300)])]);
            // every other history: the fragmented message's own header (in its first fragment) creates an entry, and the
            // message in between - sent after that first fragment - already relies on it
            let relies = h % 2 == 1;
            let s5 = 240 + rng.below(15) as u8;
            let a_p = if relies { Val::Tuple(vec![Val::atom("keep_b"), Val::atom("from_the_first_fragment"), Val::binary(&vec![0x41; 100 + rng.below(300)])]) } else { a_p };
            let a_refs = if relies { vec![r("keep_b", seg, s2, false), r("from_the_first_fragment", seg, s5, true)] } else { vec![r("keep_a", seg, s1, false), r("keep_b", seg, s2, false)] };
            let a = write_message(&a_refs, &[&control(2), &a_p]);
            let b_p = if relies { Val::Tuple(vec![Val::atom("beta"), Val::atom("gamma"), Val::atom("from_the_first_fragment")]) } else { Val::Tuple(vec![Val::atom("beta"), Val::atom("gamma")]) };
            let mut b_refs = vec![r("beta", seg, s3, true), r("gamma", seg, s4, true)];
            if relies {
                b_refs.push(r("from_the_first_fragment", seg, s5, false));
            }
            let b = write_message(&b_refs, &[&control(3), &b_p]);
            let c_p = Val::Tuple(vec![Val::atom("gamma"), Val::atom("beta"), Val::atom("keep_a")]);
            let c = write_message(&[r("beta", seg, s3, false), r("gamma", seg, s4, false), r("keep_a", seg, s1, false)], &[&control(4), &c_p]);
            // fragments of A: the first carries the whole header part
            let body = a[2..].to_vec();
            let header_len = 1 + a_refs.len() / 2 + 1 + a_refs.iter().map(|x| 1 + if x.new_entry { 1 + x.atom.len() } else { 0 }).sum::<usize>();
            let nfrag = 2 + rng.below(3);
            let seq: u64 = 0xA14_0000 + h as u64;
            let mut a_frames: Vec<Vec<u8>> = Vec::new();
            let mut prev = 0usize;
            for f in 0..nfrag {
                let end = if f + 1 == nfrag { body.len() } else { header_len + (body.len() - header_len) * (f + 1) / nfrag };
                let mut fr = vec![131u8, if f == 0 { 69 } else { 70 }];
                fr.extend_from_slice(&seq.to_be_bytes());
                fr.extend_from_slice(&((nfrag - f) as u64).to_be_bytes());
                fr.extend_from_slice(&body[prev..end]);
                a_frames.push(fr);
                prev = end;
            }
            let between_at = 1 + rng.below(nfrag - 1);
            let mut stream: Vec<u8> = Vec::new();
            stream.extend(super::c06::frame(&m1));
            for (i, f) in a_frames.iter().enumerate() {
                if i == between_at {
                    stream.extend(super::c06::frame(&b));
                }
                stream.extend(super::c06::frame(f));
            }
            stream.extend(super::c06::frame(&c));
            let mut end = vec![112u8];
            end.extend(ref_encode_canonical(&control(9)).unwrap());
            end.extend(ref_encode_canonical(&Val::atom("$end$")).unwrap());
            stream.extend(super::c06::frame(&end));
            let own = edp_client::DistributionFlags::default().as_u64() | FLAG_DIST_HDR_ATOM_CACHE | FLAG_FRAGMENTS;
            let out = super::c06::scenario(&epmd, &format!("ac{}", h), own, PEER_BASE_FLAGS | FLAG_DIST_HDR_ATOM_CACHE | FLAG_FRAGMENTS, stream, vec![], nfrag + 10).await;
            ctx.eval(4);
            ctx.class(&format!("connection/whole-message-between-fragments/{}fragments/after-fragment-{}{}", nfrag, between_at, if relies { "/relies-on-the-first-fragment's-entries" } else { "" }));
            if let Some(e) = &out.connect_error {
                ctx.inconclusive(&format!("handshake with the scripted peer failed: {}", e));
                continue;
            }
            let payloads: Vec<String> = out.results.iter().map(|r| match r { Ok((_, Some(p))) => p.show(), Ok((_, None)) => "no payload".into(), Err(e) => format!("error: {}", e) }).collect();
            let want: Vec<String> = vec![m1_p.show(), b_p.show(), a_p.show(), c_p.show(), Val::atom("$end$").show()];
            // one way of failing has a name of its own (a recorded finding): everything is as it should be except that the
            // message in between, which relies on an entry the first fragment's header created, is refused
            let only_the_relying_message_refused = relies && out.panicked.is_none() && payloads.len() == want.len() && payloads.iter().zip(want.iter()).enumerate().all(|(i, (g, w))| if i == 1 { g.starts_with("error:") } else { g == w });
            if only_the_relying_message_refused {
                ctx.viol(
                    "C14:connection:entry-created-by-a-first-fragment-not-in-force-until-the-sequence-completes",
                    "a message sent between the fragments of another and relying on a cache entry that the other's first fragment created was refused: the header of a fragmented message takes effect only when its last fragment has arrived",
                    json!({"history": h, "fragments": nfrag, "whole_message_after_fragment": between_at, "returned": payloads.iter().map(|p| p.chars().take(90).collect::<String>()).collect::<Vec<_>>()}),
                );
            } else if out.panicked.is_some() || payloads != want {
                ctx.viol(
                    "C14:connection:entries-set-up-between-the-fragments-of-another-message",
                    "through a connection, a message that arrived between the fragments of another set up cache entries that later messages could not rely on (or a message was not resolved to the atoms the sender meant)",
                    json!({"history": h, "message_in_between_relies_on_an_entry_the_first_fragment_created": relies, "fragments": nfrag, "whole_message_after_fragment": between_at, "segment": seg, "returned": payloads.iter().map(|p| p.chars().take(90).collect::<String>()).collect::<Vec<_>>(), "expected": want.iter().map(|p| p.chars().take(90).collect::<String>()).collect::<Vec<_>>(), "panic": out.panicked}),
                );
            }
        }
    });
}

pub fn run(ctx: &Ctx) {
    ctx.rule("writer side: control/payload pairs with 0..300 distinct atoms (even/odd counts, atom lengths 0..255, 256..1020, >65535; atoms only inside pids/funs) encoded by the library and read by an independent header reader and by the library's own decoder; reader side: histories of 1..50 messages from an atom-cache sender model (with and without a payload term; a few atoms or 60..255 references with mixed new / cached entries in all segments; new entries, re-use of entries of earlier messages, slot overwrites, all 8 segments, header position != slot, shuffled header order; messages with a faultless header and undecodable terms in between) decoded with one persistent AtomCache; the same through a real connection with fragmentation, a whole message that sets up entries arriving between the fragments of another; evaluations = messages judged; distinct = distinct (side, reference count, reuse, position!=slot, segment use, long-atom parity) combinations");
    ctx.assume("header layout per erl_dist_protocol: flags nibble i for reference i (bit3 new entry, bits0-2 segment), nibble n bit0 = LongAtoms; ATOM_CACHE_REF k = k-th reference of this header; cache slot = segment*256 + internal index");
    let mut rng = Rng::derive(ctx.seed, 14, 1);
    if !model_selfcheck(ctx, &mut rng) {
        return;
    }
    writer_side(ctx, &mut rng);
    reader_side(ctx, &mut rng);
    through_a_connection(ctx, &mut rng);
}
