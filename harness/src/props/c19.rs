//! C19 – inbound routing is exact and the connection's receiver outlives bad input.

use crate::mon::net::{self, PEER_BASE_FLAGS, Peer};
use crate::out::Ctx;
use crate::refmodel::denote::val_of;
use crate::refmodel::encode::ref_encode_canonical;
use crate::refmodel::val::Val;
use crate::rng::Rng;
use edp_node::{Message, Node, Process};
use erltf::OwnedTerm;
use erltf::types::{Atom, ExternalPid};
use serde_json::json;
use std::sync::{Arc, Mutex};
use std::time::{Duration, Instant};

#[derive(Clone, Debug)]
enum Ev {
    Regular { by: u32, body: Val },
    Exit { by: u32, from: Val, reason: Val },
    MonitorExit { by: u32, monitored: Val, reference: Val, reason: Val },
}

struct Rec {
    me: Arc<Mutex<u32>>,
    log: Arc<Mutex<Vec<Ev>>>,
}

impl Process for Rec {
    async fn handle_message(&mut self, msg: Message) -> edp_node::Result<()> {
        let by = *self.me.lock().unwrap();
        match msg {
            Message::Regular { body, .. } => self.log.lock().unwrap().push(Ev::Regular { by, body: val_of(&body) }),
            Message::Exit { from, reason } => self.log.lock().unwrap().push(Ev::Exit { by, from: val_of(&OwnedTerm::Pid(from)), reason: val_of(&reason) }),
            Message::MonitorExit { monitored, reference, reason } => self.log.lock().unwrap().push(Ev::MonitorExit {
                by,
                monitored: val_of(&OwnedTerm::Pid(monitored)),
                reference: val_of(&OwnedTerm::Reference(reference)),
                reason: val_of(&reason),
            }),
            _ => {}
        }
        Ok(())
    }
}

/// A process whose handler panics on `boom`: it dies without the orderly exit path (its registry entry and a
/// closed mailbox stay behind), which is one more kind of recipient that cannot take a message.
struct Panicker;

impl Process for Panicker {
    async fn handle_message(&mut self, msg: Message) -> edp_node::Result<()> {
        if let Message::Regular { body, .. } = &msg {
            if body.is_atom_with_name("boom") {
                panic!("handler crashed on purpose");
            }
        }
        Ok(())
    }
}

/// The deepest nesting of one-element tuples around a small integer that `erltf::decode` accepts, measured
/// once on a fresh thread (so that nothing done elsewhere in this process can have influenced it).
fn max_legal_depth() -> usize {
    static DEPTH: std::sync::OnceLock<usize> = std::sync::OnceLock::new();
    *DEPTH.get_or_init(|| {
        std::thread::spawn(|| {
            let accepts = |d: usize| {
                let mut x = vec![131u8];
                for _ in 0..d {
                    x.extend_from_slice(&[104, 1]);
                }
                x.extend_from_slice(&[97, 7]);
                erltf::decode(&x).is_ok()
            };
            let mut d = 1usize;
            while d < 5000 && accepts(d + 1) {
                d += 1;
            }
            d
        })
        .join()
        .unwrap_or(64)
    })
}

fn innermost_int(v: &Val) -> Option<i128> {
    let mut cur = v;
    loop {
        match cur {
            Val::Tuple(t) if t.len() == 1 => cur = &t[0],
            Val::Int(i) => return i.to_i128(),
            _ => return None,
        }
    }
}

fn pt(control: &Val, payload: Option<&Val>) -> Vec<u8> {
    let mut b = vec![112u8];
    b.extend(ref_encode_canonical(control).unwrap());
    if let Some(p) = payload {
        b.extend(ref_encode_canonical(p).unwrap());
    }
    b
}

fn pidval(p: &ExternalPid) -> Val {
    val_of(&OwnedTerm::Pid(p.clone()))
}

#[derive(Clone, Copy, Debug, PartialEq, Eq)]
enum Fault {
    Tick,
    UndecodableBody,
    BadMarker,
    ControlNotATuple,
    EmptyControlTuple,
    UnknownControlKind,
    UnknownPid,
    UnknownName,
    ReplyToUnknownCall,
    TruncatedPayload,
    LinkControl,
    /// a message for a process whose handler has crashed
    CrashedRecipient,
    /// a control tuple whose first element is not a valid tag: an atom, a float, a binary, a list, a tuple, a
    /// big integer, a negative or too large integer
    OddControlHead,
    /// frames whose payload is nested beyond the decoder's limit, each followed by a legal payload nested as
    /// deep as the decoder accepts
    OverDeepPayloads,
    Quiet,
}

const FAULTS: &[Fault] = &[
    Fault::Tick, Fault::UndecodableBody, Fault::BadMarker, Fault::ControlNotATuple, Fault::EmptyControlTuple, Fault::UnknownControlKind, Fault::UnknownPid,
    Fault::UnknownName, Fault::ReplyToUnknownCall, Fault::TruncatedPayload, Fault::LinkControl, Fault::CrashedRecipient, Fault::OverDeepPayloads, Fault::OddControlHead,
];

#[derive(Clone, Copy, Debug, PartialEq, Eq)]
enum Terminal {
    Close,
    EofInsideFrame,
    OverLongLength,
}

struct World {
    node: Arc<Node>,
    peer_node: String,
    procs: Vec<ExternalPid>,
    panicker: ExternalPid,
    log: Arc<Mutex<Vec<Ev>>>,
}

async fn wait_for<F: Fn(&[Ev]) -> bool>(log: &Arc<Mutex<Vec<Ev>>>, pred: F, ms: u64) -> bool {
    let t0 = Instant::now();
    loop {
        if pred(&log.lock().unwrap()) {
            return true;
        }
        if t0.elapsed() > Duration::from_millis(ms) {
            return false;
        }
        tokio::time::sleep(Duration::from_millis(3)).await;
    }
}

/// Send a probe message to a live process and require delivery + a still-registered connection.
async fn probe(ctx: &Ctx, w: &World, peer: &mut Peer, uid: i128, after: &str, scenario: usize) -> bool {
    probe_as(ctx, w, peer, uid, after, scenario, false).await
}

/// `in_pieces`: the frame reaches the node as length prefix, pause, first half of the body, pause, rest.
async fn probe_as(ctx: &Ctx, w: &World, peer: &mut Peer, uid: i128, after: &str, scenario: usize, in_pieces: bool) -> bool {
    let target = &w.procs[0];
    let payload = Val::Tuple(vec![Val::atom("probe"), Val::int(uid)]);
    let control = Val::Tuple(vec![Val::int(2), Val::atom(""), pidval(target)]);
    let written = if in_pieces {
        let body = pt(&control, Some(&payload));
        let mut f = (body.len() as u32).to_be_bytes().to_vec();
        f.extend_from_slice(&body);
        let mut ok = true;
        for (a, b) in [(0usize, 4usize), (4, 4 + body.len() / 2), (4 + body.len() / 2, f.len())] {
            ok &= peer.sock_write(&f[a..b]).await.is_ok();
            tokio::time::sleep(Duration::from_millis(80)).await;
        }
        ok
    } else {
        peer.write_frame4(&pt(&control, Some(&payload))).await.is_ok()
    };
    if !written {
        ctx.viol(&format!("C19:receiver-gone-after:{}", after), "the peer could not write any more: the node closed the connection", json!({"scenario": scenario, "after": after}));
        return false;
    }
    let want = payload.clone();
    let delivered = wait_for(&w.log, |l| l.iter().any(|e| matches!(e, Ev::Regular { body, .. } if body.same(&want))), 1500).await;
    let registered = w.node.connections().contains_key(&w.peer_node);
    ctx.eval(1);
    if !delivered || !registered {
        ctx.viol(
            &format!("C19:receiver-stopped-after:{}", after),
            "after a survivable input the probe message was not delivered or the connection was deregistered",
            json!({"scenario": scenario, "after": after, "probe_delivered": delivered, "connection_registered": registered}),
        );
        return false;
    }
    true
}

async fn setup(ctx: &Ctx, epmd: &net::EpmdTable, id: usize) -> Option<(World, Peer)> {
    let name = format!("q{}", id);
    let pl = net::listen_as(epmd, &name).await;
    let accept = tokio::spawn(async move {
        let mut peer = pl.accept("cookie", PEER_BASE_FLAGS, 80).await.ok()?;
        peer.handshake().await.ok()?;
        Some(peer)
    });
    let mut node = Node::new(format!("inb{}@127.0.0.1", id), "cookie");
    if let Err(e) = node.start(0).await {
        ctx.inconclusive(&format!("Node::start failed: {}", e));
        return None;
    }
    let peer_node = format!("{}@127.0.0.1", name);
    if let Err(e) = node.connect(peer_node.clone()).await {
        ctx.inconclusive(&format!("Node::connect failed: {}", e));
        return None;
    }
    let peer = match accept.await {
        Ok(Some(p)) => p,
        _ => {
            ctx.inconclusive("scripted peer did not complete the handshake");
            return None;
        }
    };
    let log: Arc<Mutex<Vec<Ev>>> = Default::default();
    let mut procs = Vec::new();
    for _ in 0..3 {
        let me = Arc::new(Mutex::new(0u32));
        let p = node.spawn(Rec { me: me.clone(), log: log.clone() }).await.ok()?;
        *me.lock().unwrap() = p.id;
        procs.push(p);
    }
    let _ = node.register(Atom::new("svc"), procs[1].clone()).await;
    let panicker = node.spawn(Panicker).await.ok()?;
    let _ = node.register(Atom::new("fragile"), panicker.clone()).await;
    Some((World { node: Arc::new(node), peer_node, procs, panicker, log }, peer))
}

async fn routing_and_faults(ctx: &Ctx, rng: &mut Rng, epmd: &net::EpmdTable, id: usize, terminal: Terminal) {
    ctx.beat(&format!("routing-and-faults/{}", id));
    let Some((w, mut peer)) = setup(ctx, epmd, id).await else { return };
    let remote = Val::Pid { node: w.peer_node.clone(), id: 9, serial: 1, creation: 2 };
    let mut uid: i128 = id as i128 * 10_000;
    let steps = 6 + rng.below(14);
    let mut trace: Vec<String> = Vec::new();
    let mut svc_owner: Option<usize> = Some(1);
    for _ in 0..steps {
        uid += 1;
        match rng.below(10) {
            8 | 9 => {
                // a local operation between inbound frames: the name changes hands to another live process, is given
                // up, or is taken again; what arrives for it afterwards goes to whoever holds it now
                let nm = Atom::new("svc");
                let _ = w.node.unregister(&nm).await;
                svc_owner = match (svc_owner, rng.below(3)) {
                    (Some(_), 0) => None,
                    (cur, _) => {
                        let next = (cur.unwrap_or(0) + 1 + rng.below(2)) % w.procs.len();
                        if w.node.register(nm.clone(), w.procs[next].clone()).await.is_ok() { Some(next) } else { None }
                    }
                };
                ctx.class(if svc_owner.is_some() { "local/name-changes-hands" } else { "local/name-given-up" });
                trace.push(format!("svc -> {:?}", svc_owner));
                // and straight away a message for the name
                let payload = Val::Tuple(vec![Val::atom("byname"), Val::int(uid)]);
                let control = Val::Tuple(vec![Val::int(6), remote.clone(), Val::atom(""), Val::atom("svc")]);
                let _ = peer.write_frame4(&pt(&control, Some(&payload))).await;
                // a probe to a pid behind it tells when the receiver has got past the message
                let probe = Val::Tuple(vec![Val::atom("probe"), Val::int(uid), Val::atom("after_name")]);
                let pc = Val::Tuple(vec![Val::int(2), Val::atom(""), pidval(&w.procs[0])]);
                let _ = peer.write_frame4(&pt(&pc, Some(&probe))).await;
                let pw = probe.clone();
                let seen = wait_for(&w.log, |l| l.iter().any(|e| matches!(e, Ev::Regular { body, .. } if body.same(&pw))), 1500).await;
                tokio::time::sleep(Duration::from_millis(5)).await;
                ctx.eval(1);
                let want = payload.clone();
                let hits: Vec<u32> = w.log.lock().unwrap().iter().filter_map(|e| match e { Ev::Regular { by, body } if body.same(&want) => Some(*by), _ => None }).collect();
                let expected: Vec<u32> = svc_owner.map(|k| vec![w.procs[k].id]).unwrap_or_default();
                if !seen {
                    ctx.viol("C19:route:probe-lost-after-a-name-change", "a message to a pid sent right behind a message for a name that had just changed hands was not delivered", json!({"scenario": id, "trace": trace}));
                } else if hits != expected {
                    ctx.viol(
                        if svc_owner.is_some() { "C19:route:reg-send-after-the-name-changed-hands" } else { "C19:route:reg-send-after-the-name-was-given-up" },
                        "a message for a registered name was not delivered to exactly the process holding the name when it arrived (nobody, if the name had been given up)",
                        json!({"scenario": id, "delivered_to": hits, "expected": expected, "trace": trace}),
                    );
                }
            }
            0 => {
                // send to a pid
                let k = rng.below(w.procs.len());
                let payload = Val::Tuple(vec![Val::atom("m"), Val::int(uid), Val::binary(&[7; 5])]);
                let control = Val::Tuple(vec![Val::int(2), Val::atom(""), pidval(&w.procs[k])]);
                let _ = peer.write_frame4(&pt(&control, Some(&payload))).await;
                let by = w.procs[k].id;
                let want = payload.clone();
                let ok = wait_for(&w.log, |l| l.iter().filter(|e| matches!(e, Ev::Regular { body, .. } if body.same(&want))).count() >= 1, 1500).await;
                ctx.eval(1);
                ctx.class("route/send-to-pid");
                let l = w.log.lock().unwrap();
                let hits: Vec<u32> = l.iter().filter_map(|e| match e { Ev::Regular { by, body } if body.same(&want) => Some(*by), _ => None }).collect();
                if !ok || hits != vec![by] {
                    ctx.viol("C19:route:send-to-pid", "a message for a live process was not delivered to exactly that process", json!({"scenario": id, "delivered_to": hits, "expected": by, "trace": trace}));
                }
                trace.push("send".into());
            }
            1 => {
                let payload = Val::Tuple(vec![Val::atom("byname"), Val::int(uid)]);
                let control = Val::Tuple(vec![Val::int(6), remote.clone(), Val::atom(""), Val::atom("svc")]);
                let _ = peer.write_frame4(&pt(&control, Some(&payload))).await;
                let want = payload.clone();
                let ok = wait_for(&w.log, |l| l.iter().any(|e| matches!(e, Ev::Regular { body, .. } if body.same(&want))), if svc_owner.is_some() { 1500 } else { 60 }).await;
                ctx.eval(1);
                ctx.class(if svc_owner.is_some() { "route/reg-send" } else { "route/reg-send-to-a-name-given-up" });
                let l = w.log.lock().unwrap();
                let hits: Vec<u32> = l.iter().filter_map(|e| match e { Ev::Regular { by, body } if body.same(&want) => Some(*by), _ => None }).collect();
                let expected: Vec<u32> = svc_owner.map(|k| vec![w.procs[k].id]).unwrap_or_default();
                if (svc_owner.is_some() && !ok) || hits != expected {
                    ctx.viol("C19:route:reg-send", "a message for a registered name was not delivered to exactly the registered process", json!({"scenario": id, "delivered_to": hits, "trace": trace}));
                }
                trace.push("reg_send".into());
            }
            2 => {
                let k = rng.below(w.procs.len());
                let reason = Val::Tuple(vec![Val::atom("shutdown"), Val::int(uid)]);
                let control = Val::Tuple(vec![Val::int(3), remote.clone(), pidval(&w.procs[k]), reason.clone()]);
                let _ = peer.write_frame4(&pt(&control, None)).await;
                let (r2, rem2) = (reason.clone(), remote.clone());
                let ok = wait_for(&w.log, |l| l.iter().any(|e| matches!(e, Ev::Exit { reason, .. } if reason.same(&r2))), 1500).await;
                ctx.eval(1);
                ctx.class("route/exit");
                let l = w.log.lock().unwrap();
                let good = l.iter().filter(|e| matches!(e, Ev::Exit { by, from, reason } if *by == w.procs[k].id && from.same(&rem2) && reason.same(&r2))).count();
                let any = l.iter().filter(|e| matches!(e, Ev::Exit { reason, .. } if reason.same(&r2))).count();
                if !ok || good != 1 || any != 1 {
                    ctx.viol("C19:route:exit", "an exit notification did not reach exactly its target with sender and reason intact", json!({"scenario": id, "matching": good, "total_with_reason": any, "trace": trace}));
                }
                trace.push("exit".into());
            }
            3 => {
                let k = rng.below(w.procs.len());
                let reason = Val::Tuple(vec![Val::atom("noproc"), Val::int(uid)]);
                let reference = Val::Ref { node: w.peer_node.clone(), creation: 2, ids: vec![uid as u32, 5, 6] };
                let control = Val::Tuple(vec![Val::int(21), remote.clone(), pidval(&w.procs[k]), reference.clone(), reason.clone()]);
                let _ = peer.write_frame4(&pt(&control, None)).await;
                let r2 = reason.clone();
                let ok = wait_for(&w.log, |l| l.iter().any(|e| matches!(e, Ev::MonitorExit { reason, .. } if reason.same(&r2))), 1500).await;
                ctx.eval(1);
                ctx.class("route/monitor-exit");
                let l = w.log.lock().unwrap();
                let good = l.iter().filter(|e| matches!(e, Ev::MonitorExit { by, monitored, reference: rf, reason } if *by == w.procs[k].id && monitored.same(&remote) && rf.same(&reference) && reason.same(&r2))).count();
                if !ok || good != 1 {
                    ctx.viol("C19:route:monitor-exit", "a monitor notification did not reach exactly its target with sender, reference and reason intact", json!({"scenario": id, "matching": good, "trace": trace}));
                }
                trace.push("monitor_exit".into());
            }
            4 => {
                // an outstanding remote call answered by the peer - every other time by a peer that is faster than the
                // caller: the caller is held right after its request has gone out while the reply comes in
                let held = rng.bool();
                if held {
                    edp_client::verif::set_callback(Some(Arc::new(|nm: &'static str| -> u32 {
                        if nm == "node:rpc:after_send" {
                            std::thread::sleep(Duration::from_millis(120));
                        }
                        0
                    })));
                }
                let node = w.node.clone();
                let pn = w.peer_node.clone();
                let u = uid;
                let call = tokio::spawn(async move { node.rpc_call_raw_with_timeout(&pn, "m", "f", vec![OwnedTerm::Integer(u as i64)], Duration::from_millis(1500)).await.map(|t| val_of(&t)).map_err(|e| e.to_string()) });
                // read the request and answer it
                let req = tokio::time::timeout(Duration::from_millis(1500), peer.read_frame4()).await;
                ctx.eval(1);
                ctx.class("route/rpc-reply");
                if let Ok(Ok(f)) = req {
                    if let Ok((_c, off)) = crate::refmodel::decode::ref_decode_prefix(&f[1..]) {
                        if let Ok((Val::Tuple(pt_), _)) = crate::refmodel::decode::ref_decode_prefix(&f[1 + off..]) {
                            let to = pt_[0].clone();
                            // first, messages for pids that are *not* the call's: the same numbers under another creation,
                            // serial, number or node name (an earlier incarnation, another era, another node). They are for
                            // nobody and are dropped; the call still gets the reply that is really its own
                            if let Val::Pid { node, id, serial, creation } = &to {
                                let strays = [
                                    Val::Pid { node: node.clone(), id: *id, serial: *serial, creation: creation.wrapping_add(1) },
                                    Val::Pid { node: node.clone(), id: *id, serial: serial.wrapping_add(1), creation: *creation },
                                    Val::Pid { node: format!("{}x", node), id: *id, serial: *serial, creation: *creation },
                                    Val::Pid { node: node.clone(), id: id.wrapping_add(1 << 20), serial: *serial, creation: *creation },
                                ];
                                let stray = &strays[(uid as usize) % strays.len()];
                                let sc = Val::Tuple(vec![Val::int(2), Val::atom(""), stray.clone()]);
                                let _ = peer.write_frame4(&pt(&sc, Some(&Val::Tuple(vec![Val::atom("rex"), Val::atom("for_somebody_else")])))).await;
                            }
                            let reply = Val::Tuple(vec![Val::atom("rex"), Val::int(uid)]);
                            let control = Val::Tuple(vec![Val::int(2), Val::atom(""), to]);
                            let _ = peer.write_frame4(&pt(&control, Some(&reply))).await;
                            match call.await {
                                Ok(Ok(v)) if v.same(&reply) => {}
                                other => ctx.viol(if held { "C19:route:rpc-reply:reply-faster-than-the-caller" } else { "C19:route:rpc-reply" }, "the reply to an outstanding remote call did not reach its caller", json!({"scenario": id, "caller_held_after_its_request_went_out": held, "result": format!("{:?}", other).chars().take(200).collect::<String>(), "trace": trace})),
                            }
                        }
                    }
                } else {
                    ctx.viol("C19:route:rpc-request-not-seen", "the peer did not receive the call request", json!({"scenario": id, "trace": trace}));
                }
                if held {
                    edp_client::verif::set_callback(None);
                }
                ctx.class(if held { "route/rpc-reply/reply-faster-than-the-caller" } else { "route/rpc-reply/ordinary" });
                trace.push("rpc".into());
            }
            _ => {
                let f = *rng.pick(FAULTS);
                let before = w.log.lock().unwrap().len();
                match f {
                    Fault::Tick => {
                        let _ = peer.sock_write(&[0, 0, 0, 0]).await;
                    }
                    Fault::UndecodableBody => {
                        let _ = peer.write_frame4(&[112, 131, 255, 1, 2, 3]).await;
                    }
                    Fault::BadMarker => {
                        let _ = peer.write_frame4(&[99, 131, 104, 0]).await;
                    }
                    Fault::ControlNotATuple => {
                        let _ = peer.write_frame4(&[112, 131, 97, 5]).await;
                    }
                    Fault::EmptyControlTuple => {
                        let _ = peer.write_frame4(&[112, 131, 104, 0]).await;
                    }
                    Fault::UnknownControlKind => {
                        let c = Val::Tuple(vec![Val::int(200), remote.clone(), Val::int(uid)]);
                        let _ = peer.write_frame4(&pt(&c, Some(&Val::atom("x")))).await;
                    }
                    Fault::UnknownPid => {
                        let ghost = Val::Pid { node: w.node.name().as_str().to_string(), id: 999_999, serial: 3, creation: w.node.creation() };
                        let c = Val::Tuple(vec![Val::int(2), Val::atom(""), ghost]);
                        let _ = peer.write_frame4(&pt(&c, Some(&Val::Tuple(vec![Val::atom("ghost"), Val::int(uid)])))).await;
                    }
                    Fault::UnknownName => {
                        let c = Val::Tuple(vec![Val::int(6), remote.clone(), Val::atom(""), Val::atom("nobody_home")]);
                        let _ = peer.write_frame4(&pt(&c, Some(&Val::Tuple(vec![Val::atom("ghost"), Val::int(uid)])))).await;
                    }
                    Fault::ReplyToUnknownCall => {
                        let ghost = Val::Pid { node: w.node.name().as_str().to_string(), id: 777_777, serial: 0, creation: w.node.creation() };
                        let c = Val::Tuple(vec![Val::int(2), Val::atom(""), ghost]);
                        let _ = peer.write_frame4(&pt(&c, Some(&Val::Tuple(vec![Val::atom("rex"), Val::atom("late")])))).await;
                    }
                    Fault::TruncatedPayload => {
                        let c = Val::Tuple(vec![Val::int(2), Val::atom(""), pidval(&w.procs[0])]);
                        let mut b = pt(&c, None);
                        b.extend_from_slice(&[131, 108, 0, 0, 0, 5, 97]);
                        let _ = peer.write_frame4(&b).await;
                    }
                    Fault::LinkControl => {
                        let c = Val::Tuple(vec![Val::int(1), remote.clone(), pidval(&w.procs[2])]);
                        let _ = peer.write_frame4(&pt(&c, None)).await;
                    }
                    Fault::CrashedRecipient => {
                        // make it crash (the first time), then write to it by pid, by name, and an exit notice
                        let c = Val::Tuple(vec![Val::int(2), Val::atom(""), pidval(&w.panicker)]);
                        let _ = peer.write_frame4(&pt(&c, Some(&Val::atom("boom")))).await;
                        tokio::time::sleep(Duration::from_millis(30)).await;
                        let _ = peer.write_frame4(&pt(&c, Some(&Val::Tuple(vec![Val::atom("late"), Val::int(uid)])))).await;
                        let n = Val::Tuple(vec![Val::int(6), remote.clone(), Val::atom(""), Val::atom("fragile")]);
                        let _ = peer.write_frame4(&pt(&n, Some(&Val::Tuple(vec![Val::atom("late"), Val::int(uid)])))).await;
                        let x = Val::Tuple(vec![Val::int(3), remote.clone(), pidval(&w.panicker), Val::atom("bye")]);
                        let _ = peer.write_frame4(&pt(&x, None)).await;
                    }
                    Fault::OddControlHead => {
                        let heads = [
                            Val::atom("hello"), Val::float(2.0), Val::binary(&[2]), Val::list(vec![Val::int(2)]), Val::Tuple(vec![Val::int(2)]), Val::Nil,
                            Val::Int(crate::refmodel::val::Int::pow2(70)), Val::int(-1), Val::int(256), Val::int(1 << 40), Val::int(-(1 << 62)),
                        ];
                        for h in rng.pick(&[0usize, 1]).clone()..heads.len() {
                            if h % 2 != (uid % 2) as usize {
                                continue;
                            }
                            let c = Val::Tuple(vec![heads[h].clone(), Val::atom(""), pidval(&w.procs[0])]);
                            let _ = peer.write_frame4(&pt(&c, Some(&Val::atom("x")))).await;
                            let c1 = Val::Tuple(vec![heads[h].clone()]);
                            let _ = peer.write_frame4(&pt(&c1, None)).await;
                        }
                    }
                    Fault::OverDeepPayloads => {
                        let legal = max_legal_depth();
                        let c = Val::Tuple(vec![Val::int(2), Val::atom(""), pidval(&w.procs[0])]);
                        let mut lost = 0usize;
                        let pairs = 6 + rng.below(10);
                        for i in 0..pairs {
                            let mut junk = pt(&c, None);
                            junk.push(131);
                            for _ in 0..*rng.pick(&[legal + 1, legal + 2, 300, 1000]) {
                                junk.extend_from_slice(&[104, 1]);
                            }
                            junk.extend_from_slice(&[97, 7]);
                            let _ = peer.write_frame4(&junk).await;
                            // the deepest payload the decoder accepts, carrying a number
                            let marker = uid * 100 + i as i128;
                            let mut good = pt(&c, None);
                            good.push(131);
                            for _ in 0..legal - 1 {
                                good.extend_from_slice(&[104, 1]);
                            }
                            good.extend(crate::refmodel::encode::ref_encode_canonical(&Val::int(marker)).unwrap()[1..].iter());
                            let _ = peer.write_frame4(&good).await;
                            let ok = wait_for(&w.log, |l| l.iter().any(|e| matches!(e, Ev::Regular { body, .. } if innermost_int(body) == Some(marker))), 1500).await;
                            if !ok {
                                lost += 1;
                            }
                        }
                        ctx.eval(pairs as u64);
                        if lost > 0 {
                            ctx.viol(
                                "C19:route:deep-legal-payload-lost-after-over-deep-frames",
                                "a well-formed message nested as deep as the decoder accepts was not delivered after frames nested beyond the limit had been dropped",
                                json!({"scenario": id, "pairs": pairs, "legal_messages_lost": lost, "deepest_accepted_nesting": legal, "trace": trace}),
                            );
                        }
                    }
                    Fault::Quiet => {}
                }
                ctx.class(&format!("fault/{:?}", f));
                trace.push(format!("{:?}", f));
                if !probe(ctx, &w, &mut peer, uid + 5000, &format!("{:?}", f), id).await {
                    return;
                }
                // the fault itself must not have produced any delivery besides the probe
                let l = w.log.lock().unwrap();
                let extra = l[before..]
                    .iter()
                    .filter(|e| !matches!(e, Ev::Regular { body: Val::Tuple(t), .. } if t.first() == Some(&Val::atom("probe"))))
                    // the deep legal messages that belong to the OverDeepPayloads script are deliveries it asks for
                    .filter(|e| !(f == Fault::OverDeepPayloads && matches!(e, Ev::Regular { body, .. } if innermost_int(body).is_some())))
                    .count();
                if extra > 0 {
                    ctx.viol(&format!("C19:route:delivery-from-fault:{:?}", f), "a frame for an unknown recipient / an ignorable frame caused a delivery", json!({"scenario": id, "extra_events": extra, "trace": trace}));
                }
            }
        }
    }
    // terminal behaviour: the connection must be deregistered within the bound
    ctx.class(&format!("terminal/{:?}", terminal));
    match terminal {
        Terminal::Close => {}
        Terminal::EofInsideFrame => {
            let _ = peer.sock_write(&[0, 0, 0, 40, 112, 131]).await;
        }
        Terminal::OverLongLength => {
            let _ = peer.sock_write(&(64u32 * 1024 * 1024 + 1).to_be_bytes()).await;
            tokio::time::sleep(Duration::from_millis(50)).await;
        }
    }
    drop(peer);
    let t0 = Instant::now();
    let mut gone = false;
    while t0.elapsed() < Duration::from_secs(5) {
        if !w.node.connections().contains_key(&w.peer_node) {
            gone = true;
            break;
        }
        tokio::time::sleep(Duration::from_millis(5)).await;
    }
    ctx.eval(1);
    if !gone {
        ctx.viol(&format!("C19:not-deregistered-after:{:?}", terminal), "the connection is still registered 5 s after the peer closed the stream / broke framing", json!({"scenario": id, "trace": trace}));
    }
    // a second life: the peer comes back under the same name, the node connects again; the new connection must be
    // registered, deliver, survive a fault, and be deregistered when it is closed - nothing of the first one lingers
    if gone && id % 2 == 0 {
        let name = w.peer_node.split('@').next().unwrap_or("").to_string();
        let pl = net::listen_as(epmd, &name).await;
        let accept = tokio::spawn(async move {
            let mut peer = pl.accept("cookie", PEER_BASE_FLAGS, 81).await.ok()?;
            peer.handshake().await.ok()?;
            Some(peer)
        });
        ctx.class(&format!("reconnect-after/{:?}", terminal));
        match w.node.connect(w.peer_node.clone()).await {
            Err(e) => ctx.viol(&format!("C19:reconnect-refused-after:{:?}", terminal), "after the connection was deregistered the node cannot connect to the same peer again", json!({"scenario": id, "error": e.to_string()})),
            Ok(()) => match accept.await {
                Ok(Some(mut peer2)) => {
                    ctx.eval(3);
                    if !w.node.connections().contains_key(&w.peer_node) {
                        ctx.viol("C19:reconnected-connection-not-registered", "a connection made after an earlier one to the same peer ended is not registered", json!({"scenario": id}));
                    }
                    for round in 0..3 {
                        if round == 1 {
                            let _ = peer2.write_frame4(&[112, 131, 255, 1]).await;
                            let _ = peer2.sock_write(&[0, 0, 0, 0]).await;
                        }
                        let k = round % w.procs.len();
                        let payload = Val::Tuple(vec![Val::atom("second_life"), Val::int(id as i128 * 10 + round as i128)]);
                        let control = Val::Tuple(vec![Val::int(2), Val::atom(""), pidval(&w.procs[k])]);
                        let _ = peer2.write_frame4(&pt(&control, Some(&payload))).await;
                        let want = payload.clone();
                        let ok = wait_for(&w.log, |l| l.iter().any(|e| matches!(e, Ev::Regular { body, .. } if body.same(&want))), 1500).await;
                        let hits: Vec<u32> = w.log.lock().unwrap().iter().filter_map(|e| match e { Ev::Regular { by, body } if body.same(&want) => Some(*by), _ => None }).collect();
                        if !ok || hits != vec![w.procs[k].id] {
                            ctx.viol("C19:route:lost-on-a-reconnected-connection", "a message arriving on a connection made after an earlier one to the same peer ended was not delivered to exactly its recipient", json!({"scenario": id, "round": round, "delivered_to": hits, "first_connection_ended_by": format!("{:?}", terminal)}));
                            break;
                        }
                    }
                    tokio::time::sleep(Duration::from_millis(30)).await;
                    if !w.node.connections().contains_key(&w.peer_node) {
                        ctx.viol("C19:reconnected-connection-deregistered", "the second connection to a peer was deregistered although the peer neither closed it nor broke framing", json!({"scenario": id, "first_connection_ended_by": format!("{:?}", terminal)}));
                    }
                    drop(peer2);
                    let t0 = Instant::now();
                    let mut gone2 = false;
                    while t0.elapsed() < Duration::from_secs(5) {
                        if !w.node.connections().contains_key(&w.peer_node) {
                            gone2 = true;
                            break;
                        }
                        tokio::time::sleep(Duration::from_millis(5)).await;
                    }
                    if !gone2 {
                        ctx.viol("C19:not-deregistered-after:Close:second-connection", "the second connection is still registered 5 s after the peer closed it", json!({"scenario": id}));
                    }
                }
                _ => ctx.inconclusive("scripted peer did not complete the second handshake"),
            },
        }
    }
    if id % 11 == 0 {
        ctx.sample(json!({"scenario": id, "steps": trace, "terminal": format!("{:?}", terminal), "events_logged": w.log.lock().unwrap().len()}));
    }
}

/// A recording process whose handler does not return before the gate is opened (a busy process).
struct Gated {
    open: Arc<std::sync::atomic::AtomicBool>,
    per_message_delay_us: u64,
    seen: Arc<Mutex<Vec<i128>>>,
}

impl Process for Gated {
    async fn handle_message(&mut self, msg: Message) -> edp_node::Result<()> {
        while !self.open.load(std::sync::atomic::Ordering::Acquire) {
            tokio::time::sleep(Duration::from_millis(1)).await;
        }
        if self.per_message_delay_us > 0 {
            tokio::time::sleep(Duration::from_micros(self.per_message_delay_us)).await;
        }
        if let Message::Regular { body, .. } = msg {
            if let Val::Tuple(t) = val_of(&body) {
                if let Some(Val::Int(i)) = t.get(1) {
                    self.seen.lock().unwrap().push(i.to_i128().unwrap_or(-1));
                }
            }
        }
        Ok(())
    }
}

/// The peer writes a burst of frames for one process that is busy (its handler does not return until the
/// burst is on the wire) or slow; every frame must still be delivered, exactly once, and frames for other
/// recipients and the connection must be unaffected.
async fn burst(ctx: &Ctx, rng: &mut Rng, epmd: &net::EpmdTable, id: usize) {
    ctx.beat(&format!("burst/{}", id));
    let Some((w, mut peer)) = setup(ctx, epmd, id).await else { return };
    let open = Arc::new(std::sync::atomic::AtomicBool::new(false));
    let seen: Arc<Mutex<Vec<i128>>> = Default::default();
    let gated = rng.bool();
    let delay = if gated { 0 } else { *rng.pick(&[20u64, 200]) };
    if !gated {
        open.store(true, std::sync::atomic::Ordering::Release);
    }
    let busy = match w.node.spawn(Gated { open: open.clone(), per_message_delay_us: delay, seen: seen.clone() }).await {
        Ok(p) => p,
        Err(e) => {
            ctx.inconclusive(&format!("spawn failed: {}", e));
            return;
        }
    };
    let by_name = rng.bool();
    if by_name {
        let _ = w.node.register(Atom::new("busy"), busy.clone()).await;
    }
    let n: usize = *rng.pick(&[150usize, 999, 1000, 1001, 1002, 1003, 1500, 2600]);
    let remote = Val::Pid { node: w.peer_node.clone(), id: 9, serial: 1, creation: 2 };
    ctx.class(&format!("burst/{}/{}/{}", if gated { "gated" } else { "slow" }, if by_name { "by-name" } else { "by-pid" }, n));
    let mut frames: Vec<Vec<u8>> = Vec::new();
    for i in 0..n {
        let payload = Val::Tuple(vec![Val::atom("b"), Val::int(i as i128)]);
        let control = if by_name && i % 2 == 0 {
            Val::Tuple(vec![Val::int(6), remote.clone(), Val::atom(""), Val::atom("busy")])
        } else {
            Val::Tuple(vec![Val::int(2), Val::atom(""), pidval(&busy)])
        };
        frames.push(pt(&control, Some(&payload)));
    }
    // the peer writes from its own task: with a full mailbox the node may (rightly) stop reading for a while
    let writer = tokio::spawn(async move {
        let mut written = 0usize;
        for f in &frames {
            if peer.write_frame4(f).await.is_err() {
                break;
            }
            written += 1;
        }
        (peer, written)
    });
    if gated {
        // let the burst pile up before the process gets going
        tokio::time::sleep(Duration::from_millis(*rng.pick(&[30u64, 150]))).await;
        open.store(true, std::sync::atomic::Ordering::Release);
    }
    let (mut peer, written) = match tokio::time::timeout(Duration::from_secs(30), writer).await {
        Ok(Ok(x)) => x,
        _ => {
            ctx.inconclusive("the scripted peer could not finish writing the burst within 30 s");
            return;
        }
    };
    let t0 = Instant::now();
    while t0.elapsed() < Duration::from_secs(20) && seen.lock().unwrap().len() < written {
        tokio::time::sleep(Duration::from_millis(5)).await;
    }
    tokio::time::sleep(Duration::from_millis(30)).await;
    ctx.eval(written as u64);
    let got = seen.lock().unwrap().clone();
    let mut counts = vec![0u32; n];
    for g in &got {
        if *g >= 0 && (*g as usize) < n {
            counts[*g as usize] += 1;
        }
    }
    let lost: Vec<usize> = (0..written).filter(|i| counts[*i] == 0).collect();
    let dup = counts.iter().filter(|c| **c > 1).count();
    if !lost.is_empty() || dup > 0 {
        ctx.viol(
            if !lost.is_empty() { "C19:route:lost-under-load" } else { "C19:route:duplicated-under-load" },
            "messages addressed to a live (busy) process were not each delivered exactly once",
            json!({"scenario": id, "burst": n, "written_by_peer": written, "delivered": got.len(), "lost": lost.len(), "first_lost": lost.first(), "duplicated": dup, "gated": gated, "by_name": by_name}),
        );
    }
    let _ = probe(ctx, &w, &mut peer, 777_000 + id as i128, "Burst", id).await;
    ctx.count("burst_frames_delivered", got.len() as u64);
}

/// A quiet period longer than the node's read timeout, with the peer ticking, must be survived.
async fn quiet_period(ctx: &Ctx, epmd: &net::EpmdTable, id: usize, periods: usize) {
    let Some((w, mut peer)) = setup(ctx, epmd, id).await else { return };
    ctx.class(&format!("quiet/{}x12.5s", periods));
    // silence, then a frame arriving in pieces (no tick in between); tick, silence (a tick followed by a silence
    // longer than the timeout), tick, ordinary frame; the peer never stays silent longer than 12.5 s
    for p in 0..periods {
        tokio::time::sleep(Duration::from_millis(12_500)).await;
        ctx.beat(&format!("quiet-period/{}", p));
        if p == 0 {
            if !probe_as(ctx, &w, &mut peer, 434343 + id as i128, "Quiet+FrameInPieces", id, true).await {
                return;
            }
        }
        if peer.sock_write(&[0, 0, 0, 0]).await.is_err() {
            ctx.viol("C19:receiver-gone-after:Quiet", "the node closed the connection during a quiet period in which the peer was due to tick", json!({"period": p}));
            return;
        }
    }
    let _ = probe(ctx, &w, &mut peer, 424242 + id as i128, "Quiet", id).await;
    ctx.count("quiet_periods_survived_or_judged", periods as u64);
}

pub fn run(ctx: &Ctx) {
    ctx.rule("scenarios = scripted inbound histories over a real connection to a Node with three recording processes and one registered name: sends to pids and names, exit and monitor notifications, replies to outstanding remote calls, and after each fault (tick, undecodable body, wrong marker byte, control term that is not a tuple / empty tuple / unknown kind / headed by something that is not a tag (atom, float, binary, list, tuple, big, negative or over-large integer), unknown pid, unknown name, reply to an unknown call, truncated payload, link control, messages for a process whose handler has crashed, payloads nested beyond the decoder's limit each followed by a legal payload of the deepest accepted nesting) a probe message that must be delivered with the connection still registered; then the peer closes / ends the stream inside a frame / sends an over-long length and the connection must be deregistered within 5 s; plus bursts of 150..2600 frames (around the 1000-slot mailbox) for a process whose handler is gated or slow, each of which must be delivered exactly once; plus quiet periods of 12.5 s (longer than the node's fixed 10 s read timeout) each followed by a tick (so a tick is itself followed by a silence longer than the timeout), then a probe arriving in pieces and an ordinary probe; evaluations = routed frames, probes and terminal checks judged; distinct = distinct (frame kind / fault kind / terminal kind) labels");
    ctx.assume("verdicts by delivery of the probe, not by timing; the quiet-period scenario runs concurrently with the others");
    let mut rng = Rng::derive(ctx.seed, 19, 1);
    let rt = tokio::runtime::Builder::new_multi_thread().worker_threads(8).enable_all().build().expect("runtime");
    rt.block_on(async {
        let epmd = net::start_epmd().await;
        let periods = ctx.pick(2usize, 3usize);
        let n = ctx.pick(45usize, 3000usize);
        let quiet = quiet_period(ctx, &epmd, 900_000, periods);
        let others = async {
            for i in 0..n {
                if !ctx.time_left() {
                    break;
                }
                let terminal = [Terminal::Close, Terminal::EofInsideFrame, Terminal::OverLongLength][i % 3];
                routing_and_faults(ctx, &mut rng, &epmd, i, terminal).await;
                if i % 3 == 0 {
                    burst(ctx, &mut rng, &epmd, 500_000 + i).await;
                }
            }
        };
        tokio::join!(quiet, others);
    });
}
