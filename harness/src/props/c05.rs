//! C05 – framing is invariant under how the transport splits the byte stream.

use super::common::guarded;
use crate::mon::alloc;
use crate::out::{Ctx, hex_cap};
use crate::refmodel::denote::val_of;
use crate::rng::Rng;
use edp_client::framing::{FrameMode, MessageDeframer, MessageFramer};
use serde_json::json;
use std::pin::Pin;
use std::task::{Context, Poll};
use std::time::{Duration, Instant};
use tokio::io::{AsyncRead, AsyncWriteExt, ReadBuf};

/// AsyncRead serving scripted chunks; returns Pending (after re-arming the waker) before a chunk
/// when told so.
struct Scripted {
    data: Vec<u8>,
    pos: usize,
    /// chunk ends (absolute offsets, ascending, last == data.len())
    cuts: Vec<usize>,
    cut_idx: usize,
    pending_before: Vec<bool>,
    armed: bool,
    pub reads: usize,
}

impl Scripted {
    fn new(data: Vec<u8>, cuts: Vec<usize>, pending_before: Vec<bool>) -> Self {
        Scripted { data, pos: 0, cuts, cut_idx: 0, pending_before, armed: false, reads: 0 }
    }
}

impl AsyncRead for Scripted {
    fn poll_read(mut self: Pin<&mut Self>, cx: &mut Context<'_>, buf: &mut ReadBuf<'_>) -> Poll<std::io::Result<()>> {
        if self.pos >= self.data.len() {
            return Poll::Ready(Ok(())); // EOF
        }
        while self.cut_idx < self.cuts.len() && self.cuts[self.cut_idx] <= self.pos {
            self.cut_idx += 1;
            self.armed = false;
        }
        let idx = self.cut_idx;
        if !self.armed && self.pending_before.get(idx).copied().unwrap_or(false) {
            self.armed = true;
            cx.waker().wake_by_ref();
            return Poll::Pending;
        }
        let end = self.cuts.get(idx).copied().unwrap_or(self.data.len()).min(self.data.len());
        let n = (end - self.pos).min(buf.remaining());
        let start = self.pos;
        buf.put_slice(&self.data[start..start + n]);
        self.pos += n;
        self.reads += 1;
        Poll::Ready(Ok(()))
    }
}

/// AsyncWrite accepting a scripted number of bytes per call (then everything), optionally as a
/// transport with real vectored writes, optionally answering Pending before a call.
struct ScriptedSink {
    got: Vec<u8>,
    accept: Vec<usize>,
    calls: usize,
    vectored: bool,
    pending: bool,
    armed: bool,
    flushed_at: Vec<usize>,
}

impl ScriptedSink {
    fn new(accept: Vec<usize>, vectored: bool, pending: bool) -> Self {
        ScriptedSink { got: Vec::new(), accept, calls: 0, vectored, pending, armed: false, flushed_at: Vec::new() }
    }
    fn budget(&mut self, cx: &mut Context<'_>) -> Option<usize> {
        if self.pending && !self.armed && self.calls % 2 == 1 {
            self.armed = true;
            cx.waker().wake_by_ref();
            return None;
        }
        self.armed = false;
        let b = self.accept.get(self.calls).copied().unwrap_or(usize::MAX);
        self.calls += 1;
        Some(b.max(1))
    }
}

impl tokio::io::AsyncWrite for ScriptedSink {
    fn poll_write(mut self: Pin<&mut Self>, cx: &mut Context<'_>, buf: &[u8]) -> Poll<std::io::Result<usize>> {
        if buf.is_empty() {
            return Poll::Ready(Ok(0));
        }
        let Some(b) = self.budget(cx) else { return Poll::Pending };
        let n = b.min(buf.len());
        self.got.extend_from_slice(&buf[..n]);
        Poll::Ready(Ok(n))
    }
    fn poll_write_vectored(mut self: Pin<&mut Self>, cx: &mut Context<'_>, bufs: &[std::io::IoSlice<'_>]) -> Poll<std::io::Result<usize>> {
        if !self.vectored {
            // what tokio's default does: the first non-empty slice only
            let first = bufs.iter().find(|b| !b.is_empty()).map(|b| &**b).unwrap_or(&[]);
            return self.poll_write(cx, first);
        }
        let total: usize = bufs.iter().map(|b| b.len()).sum();
        if total == 0 {
            return Poll::Ready(Ok(0));
        }
        let Some(b) = self.budget(cx) else { return Poll::Pending };
        let mut left = b.min(total);
        let n = left;
        for s in bufs {
            let k = left.min(s.len());
            self.got.extend_from_slice(&s[..k]);
            left -= k;
            if left == 0 {
                break;
            }
        }
        Poll::Ready(Ok(n))
    }
    fn is_write_vectored(&self) -> bool {
        self.vectored
    }
    fn poll_flush(mut self: Pin<&mut Self>, _cx: &mut Context<'_>) -> Poll<std::io::Result<()>> {
        let n = self.got.len();
        self.flushed_at.push(n);
        Poll::Ready(Ok(()))
    }
    fn poll_shutdown(self: Pin<&mut Self>, _cx: &mut Context<'_>) -> Poll<std::io::Result<()>> {
        Poll::Ready(Ok(()))
    }
}

/// The streaming writer over transports that take the bytes in arbitrary pieces.
async fn writer_part(ctx: &Ctx, rng: &mut Rng) {
    let seqs: Vec<Vec<Vec<u8>>> = vec![
        vec![vec![]],
        vec![vec![1]],
        vec![vec![1, 2, 3]],
        vec![vec![], vec![9]],
        vec![vec![7, 8], vec![], vec![1, 2, 3, 4, 5]],
        vec![(1..=20).collect()],
        vec![vec![0xa0; 10], vec![0xa1; 10], vec![0xa2; 10]],
    ];
    let max_first = ctx.pick(6usize, 9usize);
    for mode in [FrameMode::Handshake, FrameMode::Distribution] {
        let fr = MessageFramer::new(mode);
        for msgs in &seqs {
            let mut expect = Vec::new();
            for m in msgs {
                expect.extend(fr.frame_message(m));
            }
            // all scripts (a1, a2, a3) of accepted byte counts for the first three calls, then a cycle
            let mut scripts: Vec<Vec<usize>> = Vec::new();
            for a in 1..=max_first {
                for b in 1..=max_first {
                    for c in [1usize, 2, 3, 5, 1000] {
                        scripts.push(vec![a, b, c]);
                    }
                }
                scripts.push(std::iter::repeat(a).take(200).collect()); // a bytes per call throughout
            }
            for _ in 0..ctx.pick(20, 200) {
                scripts.push((0..60).map(|_| 1 + rng.below(7)).collect());
            }
            for script in &scripts {
                for vectored in [false, true] {
                    for pending in [false, true] {
                        ctx.eval(1);
                        let mut sink = ScriptedSink::new(script.clone(), vectored, pending);
                        let mut failed = None;
                        for m in msgs {
                            if let Err(e) = fr.write_framed(&mut sink, m).await {
                                failed = Some(e.to_string());
                                break;
                            }
                        }
                        ctx.class(&format!("write/{}/{}frames/first{}/{}{}", mode_name(mode), msgs.len(), script[0].min(9), if vectored { "vectored" } else { "plain" }, if pending { "/pending" } else { "" }));
                        if let Some(e) = failed {
                            ctx.viol(
                                &format!("C05:write_framed-error:{}", mode_name(mode)),
                                "write_framed failed on a transport that takes the bytes in pieces",
                                json!({"mode": mode_name(mode), "script": script.iter().take(8).collect::<Vec<_>>(), "vectored": vectored, "error": e}),
                            );
                        } else if sink.got != expect {
                            ctx.viol(
                                &format!("C05:writers-differ:short-writes:{}", mode_name(mode)),
                                "the streaming writer over a transport accepting the bytes in pieces does not produce the bytes of the one-shot framing function",
                                json!({"mode": mode_name(mode), "accepted_per_call": script.iter().take(8).collect::<Vec<_>>(), "vectored": vectored, "pending": pending,
                                       "message_lengths": msgs.iter().map(|m| m.len()).collect::<Vec<_>>(), "wire": hex_cap(&sink.got, 48), "want": hex_cap(&expect, 48)}),
                            );
                        }
                    }
                }
            }
        }
    }
    // end to end through an in-memory pipe that fills up: writer task and reader task, every small capacity
    for mode in [FrameMode::Handshake, FrameMode::Distribution] {
        for cap in 1..=ctx.pick(24usize, 64usize) {
            let nmsg = 6;
            let msgs: Vec<Vec<u8>> = (0..nmsg).map(|i| vec![0xb0 + i as u8; *rng.pick(&[0usize, 1, 3, 10, 14, 31])]).collect();
            let (mut a, mut b) = tokio::io::duplex(cap);
            let to_write = msgs.clone();
            let w = tokio::spawn(async move {
                let fr = MessageFramer::new(mode);
                for m in &to_write {
                    if fr.write_framed(&mut a, m).await.is_err() {
                        return false;
                    }
                }
                let _ = a.shutdown().await;
                true
            });
            let de = MessageDeframer::new(mode);
            ctx.class(&format!("pipe/{}/cap{}", mode_name(mode), cap.min(32)));
            for (i, want) in msgs.iter().enumerate() {
                ctx.eval(1);
                match tokio::time::timeout(std::time::Duration::from_secs(10), de.read_framed(&mut b)).await {
                    Ok(Ok(got)) if &got == want => {}
                    Ok(other) => {
                        ctx.viol(
                            &format!("C05:pipe:frames-differ:{}", mode_name(mode)),
                            "frames written through a pipe that fills up are not read back as written",
                            json!({"mode": mode_name(mode), "pipe_capacity": cap, "frame": i, "message_lengths": msgs.iter().map(|m| m.len()).collect::<Vec<_>>(),
                                   "got": match other { Ok(g) => hex_cap(&g, 32), Err(e) => e.to_string() }, "want": hex_cap(want, 32)}),
                        );
                        break;
                    }
                    Err(_) => {
                        ctx.inconclusive("pipe read-back did not finish within 10 s");
                        break;
                    }
                }
            }
            w.abort();
            let _ = w.await;
        }
    }
}

fn prefix(mode: FrameMode, len: usize) -> Vec<u8> {
    match mode {
        FrameMode::Handshake => (len as u16).to_be_bytes().to_vec(),
        FrameMode::Distribution => (len as u32).to_be_bytes().to_vec(),
    }
}

fn mode_name(m: FrameMode) -> &'static str {
    match m {
        FrameMode::Handshake => "handshake",
        FrameMode::Distribution => "distribution",
    }
}

/// Read all frames of `stream` under one chunking; compare with `msgs`.
fn other_mode(m: FrameMode) -> FrameMode {
    if m == FrameMode::Handshake { FrameMode::Distribution } else { FrameMode::Handshake }
}

static MADE: std::sync::atomic::AtomicUsize = std::sync::atomic::AtomicUsize::new(0);

/// A deframer / framer for `mode`, by one of the ways a caller can arrive at it: made for it, made for the other mode and
/// switched (what a connection does after the handshake), switched away and back.
fn deframer_for(ctx: &Ctx, mode: FrameMode) -> MessageDeframer {
    match MADE.fetch_add(1, std::sync::atomic::Ordering::Relaxed) % 3 {
        0 => MessageDeframer::new(mode),
        1 => {
            ctx.count("deframers_switched_to_their_mode", 1);
            let mut d = MessageDeframer::new(other_mode(mode));
            d.set_mode(mode);
            d
        }
        _ => {
            let mut d = MessageDeframer::new(mode);
            d.set_mode(other_mode(mode));
            d.set_mode(mode);
            d
        }
    }
}

fn framer_for(mode: FrameMode) -> MessageFramer {
    match MADE.fetch_add(1, std::sync::atomic::Ordering::Relaxed) % 3 {
        0 => MessageFramer::new(mode),
        1 => {
            let mut f = MessageFramer::new(other_mode(mode));
            f.set_mode(mode);
            f
        }
        _ => {
            let mut f = MessageFramer::new(mode);
            f.set_mode(other_mode(mode));
            f.set_mode(mode);
            f
        }
    }
}

/// One deframer and one framer across the switch a connection makes: handshake-mode messages, the switch, then
/// distribution-mode messages of every size class (also the ones a two-byte prefix could not announce).
async fn across_the_switch(ctx: &Ctx, rng: &mut Rng) {
    for round in 0..ctx.pick(12usize, 300usize) {
        let hs: Vec<Vec<u8>> = (0..rng.below(4)).map(|_| { let n = *rng.pick(&[0usize, 1, 20, 255, 256, 65535]); rng.bytes(n) }).collect();
        let ds: Vec<Vec<u8>> = (0..1 + rng.below(4)).map(|_| { let n = *rng.pick(&[0usize, 1, 255, 65535, 65536, 65537, 70_000, 1 << 20]); rng.bytes(n) }).collect();
        let mut fr = MessageFramer::new(FrameMode::Handshake);
        let mut stream: Vec<u8> = Vec::new();
        for m in &hs {
            let _ = fr.write_framed(&mut stream, m).await;
        }
        fr.set_mode(FrameMode::Distribution);
        for m in &ds {
            let _ = fr.write_framed(&mut stream, m).await;
        }
        let mut want: Vec<u8> = Vec::new();
        for m in &hs {
            want.extend(prefix(FrameMode::Handshake, m.len()));
            want.extend_from_slice(m);
        }
        for m in &ds {
            want.extend(prefix(FrameMode::Distribution, m.len()));
            want.extend_from_slice(m);
        }
        ctx.eval(1);
        ctx.class(&format!("across-the-switch/{}hs/{}", hs.len(), ds.iter().map(|m| match m.len() { 0 => "0", 1..=255 => "s", 256..=65535 => "m", _ => "l" }).collect::<Vec<_>>().join("")));
        if stream != want {
            ctx.viol("C05:switched-framer-layout", "a framer switched from handshake to distribution mode does not write length prefix ++ data in the mode in force", json!({"round": round, "handshake_lengths": hs.iter().map(|m| m.len()).collect::<Vec<_>>(), "distribution_lengths": ds.iter().map(|m| m.len()).collect::<Vec<_>>(), "stream_len": stream.len(), "expected_len": want.len()}));
            continue;
        }
        let n = want.len();
        let mut cuts: Vec<usize> = (0..rng.below(12)).map(|_| 1 + rng.below(n.max(2) - 1)).collect();
        cuts.retain(|c| *c > 0 && *c < n);
        cuts.sort();
        cuts.dedup();
        cuts.push(n);
        let pend: Vec<bool> = (0..cuts.len()).map(|_| rng.bool()).collect();
        let mut rd = Scripted::new(want.clone(), cuts.clone(), pend);
        let mut de = MessageDeframer::new(FrameMode::Handshake);
        let mut bad: Option<String> = None;
        for (i, m) in hs.iter().enumerate() {
            ctx.eval(1);
            match de.read_framed(&mut rd).await {
                Ok(got) if &got == m => {}
                Ok(got) => bad = Some(format!("handshake-mode frame {} read back as {} bytes instead of {}", i, got.len(), m.len())),
                Err(e) => bad = Some(format!("handshake-mode frame {} ({} bytes): {}", i, m.len(), e)),
            }
            if bad.is_some() {
                break;
            }
        }
        if bad.is_none() {
            de.set_mode(FrameMode::Distribution);
            for (i, m) in ds.iter().enumerate() {
                ctx.eval(1);
                match de.read_framed(&mut rd).await {
                    Ok(got) if &got == m => {}
                    Ok(got) => bad = Some(format!("distribution-mode frame {} read back as {} bytes instead of {}", i, got.len(), m.len())),
                    Err(e) => bad = Some(format!("distribution-mode frame {} ({} bytes) after the switch: {}", i, m.len(), e)),
                }
                if bad.is_some() {
                    break;
                }
            }
        }
        if let Some(b) = bad {
            ctx.viol("C05:frame-lost-across-the-mode-switch", "a deframer that read the handshake and was then switched to distribution mode does not return the frames written", json!({"round": round, "problem": b, "handshake_lengths": hs.iter().map(|m| m.len()).collect::<Vec<_>>(), "distribution_lengths": ds.iter().map(|m| m.len()).collect::<Vec<_>>(), "cuts": cuts.iter().take(12).collect::<Vec<_>>()}));
        }
    }
}

async fn read_back(ctx: &Ctx, mode: FrameMode, msgs: &[Vec<u8>], stream: &[u8], cuts: Vec<usize>, pend: Vec<bool>, origin: &str) {
    let de = deframer_for(ctx, mode);
    let ncuts = cuts.len();
    let mut rd = Scripted::new(stream.to_vec(), cuts.clone(), pend);
    for (i, want) in msgs.iter().enumerate() {
        ctx.eval(1);
        match de.read_framed(&mut rd).await {
            Ok(got) => {
                if &got != want {
                    let cause = if got.len() < want.len() { "short-message" } else if got.len() > want.len() { "long-message" } else { "wrong-bytes" };
                    ctx.viol(
                        &format!("C05:{}:{}", cause, mode_name(mode)),
                        "a frame read back differs from the message written",
                        json!({"origin": origin, "mode": mode_name(mode), "frame": i, "cuts": cuts, "got": hex_cap(&got, 32), "want": hex_cap(want, 32)}),
                    );
                    return;
                }
            }
            Err(e) => {
                ctx.viol(
                    &format!("C05:read-error:{}", mode_name(mode)),
                    "reading back a complete frame failed",
                    json!({"origin": origin, "mode": mode_name(mode), "frame": i, "cuts": cuts, "error": e.to_string()}),
                );
                return;
            }
        }
    }
    // the stream is exhausted: one more read must be an error (EOF), not an empty message
    match de.read_framed(&mut rd).await {
        Err(_) => {}
        Ok(got) => ctx.viol(
            &format!("C05:eof-returns-message:{}", mode_name(mode)),
            "end of stream was returned as a message",
            json!({"origin": origin, "got": hex_cap(&got, 16), "cuts": cuts}),
        ),
    }
    let _ = ncuts;
}

async fn writer_checks(ctx: &Ctx, mode: FrameMode, msg: &[u8]) -> Vec<u8> {
    ctx.eval(1);
    let fr = framer_for(mode);
    let mut expect = prefix(mode, msg.len());
    expect.extend_from_slice(msg);
    let one = fr.frame_message(msg);
    if one != expect {
        ctx.viol(
            &format!("C05:frame_message-layout:{}", mode_name(mode)),
            "frame_message does not produce length prefix ++ data",
            json!({"mode": mode_name(mode), "len": msg.len(), "got": hex_cap(&one, 16), "want": hex_cap(&expect, 16)}),
        );
    }
    let mut sink: Vec<u8> = Vec::new();
    match fr.write_framed(&mut sink, msg).await {
        Ok(()) => {
            if sink != one {
                ctx.viol(
                    &format!("C05:writers-differ:{}", mode_name(mode)),
                    "the streaming writer and the one-shot framing function produce different bytes",
                    json!({"mode": mode_name(mode), "len": msg.len(), "streaming": hex_cap(&sink, 16), "oneshot": hex_cap(&one, 16)}),
                );
            }
        }
        Err(e) => ctx.viol("C05:write_framed-error", "write_framed failed on an in-memory sink", json!({"error": e.to_string()})),
    }
    expect
}

async fn deframer_part(ctx: &Ctx, rng: &mut Rng) {
    let max_exh = ctx.pick(11usize, 15usize);
    // (1) exhaustive chunkings of short streams, both modes
    for mode in [FrameMode::Handshake, FrameMode::Distribution] {
        let seqs: Vec<Vec<Vec<u8>>> = vec![
            vec![vec![]],
            vec![vec![1]],
            vec![vec![1, 2, 3]],
            vec![vec![], vec![9]],
            vec![vec![7], vec![]],
            vec![vec![1, 2], vec![3]],
            vec![vec![], vec![], vec![]],
            vec![vec![5, 6, 7, 8, 9]],
            vec![vec![1], vec![2], vec![3]],
            vec![vec![1, 2, 3, 4, 5, 6, 7]],
            vec![vec![1, 2, 3], vec![4, 5, 6, 7], vec![]],
            vec![vec![], vec![1, 2, 3, 4, 5], vec![6]],
        ];
        for msgs in &seqs {
            let mut stream = Vec::new();
            for m in msgs {
                stream.extend(writer_checks(ctx, mode, m).await);
            }
            let n = stream.len();
            if n == 0 || n > max_exh {
                continue;
            }
            // all 2^(n-1) ways of cutting the stream
            for mask in 0u32..(1u32 << (n - 1)) {
                let mut cuts: Vec<usize> = (1..n).filter(|k| mask & (1 << (k - 1)) != 0).collect();
                cuts.push(n);
                let pend: Vec<bool> = (0..cuts.len()).map(|i| (mask >> (i % 8)) & 1 == 1).collect();
                read_back(ctx, mode, msgs, &stream, cuts, pend, "all chunkings").await;
            }
            ctx.class(&format!("exhaustive/{}/{}frames/{}bytes", mode_name(mode), msgs.len(), n));
            ctx.count("exhaustive_chunkings", 1u64 << (n - 1));
        }
    }
    // (2) long streams, random cuts (incl. 1-byte dribble), boundary lengths
    let lens: &[usize] = &[0, 1, 2, 254, 255, 256, 257, 65534, 65535, 65536, 65537, 100_000];
    let rounds = ctx.pick(60usize, 3000usize);
    for r in 0..rounds {
        if !ctx.time_left() {
            break;
        }
        let mode = if rng.bool() { FrameMode::Handshake } else { FrameMode::Distribution };
        let nmsg = 1 + rng.below(5);
        let mut msgs: Vec<Vec<u8>> = Vec::new();
        for _ in 0..nmsg {
            let mut l = if rng.chance(1, 2) { *rng.pick(lens) } else { rng.below(600) };
            if mode == FrameMode::Handshake {
                l = l.min(65535);
            }
            msgs.push(rng.bytes(l));
        }
        let mut stream = Vec::new();
        for m in &msgs {
            stream.extend(writer_checks(ctx, mode, m).await);
        }
        let n = stream.len();
        let style = rng.below(4);
        let mut cuts: Vec<usize> = match style {
            0 => (1..=n.min(3000)).collect(), // dribble (first 3000 bytes one by one)
            1 => vec![],
            2 => (0..rng.below(40)).map(|_| rng.below(n.max(1))).collect(),
            _ => {
                // cuts around every frame boundary
                let mut c = Vec::new();
                let mut off = 0;
                for m in &msgs {
                    let p = mode.length_prefix_size();
                    for d in [0usize, 1, p - 1, p, p + 1] {
                        c.push(off + d);
                    }
                    off += p + m.len();
                    c.push(off.saturating_sub(1));
                }
                c
            }
        };
        cuts.retain(|c| *c > 0 && *c < n);
        cuts.sort();
        cuts.dedup();
        cuts.push(n);
        let pend: Vec<bool> = (0..cuts.len()).map(|_| rng.bool()).collect();
        ctx.class(&format!("random/{}/style{}/{}", mode_name(mode), style, msgs.iter().map(|m| match m.len() { 0 => "0", 1..=255 => "s", 256..=65535 => "m", _ => "l" }).collect::<Vec<_>>().join("")));
        read_back(ctx, mode, &msgs, &stream, cuts.clone(), pend, &format!("random round {}", r)).await;
        if r % 29 == 0 {
            ctx.sample(json!({"mode": mode_name(mode), "message_lengths": msgs.iter().map(|m| m.len()).collect::<Vec<_>>(), "cuts": cuts.iter().take(12).collect::<Vec<_>>(), "n_cuts": cuts.len()}));
        }
    }
    // (3) over-long declared length: refused before a buffer of that size exists
    for declared in [256u32 * 1024 * 1024 + 1, 0x7fff_ffff, 0xffff_ffff, 300 * 1024 * 1024] {
        ctx.eval(1);
        let de = MessageDeframer::new(FrameMode::Distribution);
        let mut stream = declared.to_be_bytes().to_vec();
        stream.extend_from_slice(&[1, 2, 3]);
        let n = stream.len();
        let mut rd = Scripted::new(stream, vec![n], vec![false]);
        alloc::begin();
        let r = de.read_framed(&mut rd).await;
        let (peak, largest) = alloc::end();
        ctx.class(&format!("over-cap/{}", declared));
        match r {
            Err(_) => {
                if largest > 1 << 20 {
                    ctx.viol(
                        "C05:cap-checked-after-allocation",
                        "a declared length above the cap led to a large allocation before being refused",
                        json!({"declared": declared, "largest_request": largest, "peak": peak}),
                    );
                }
            }
            Ok(m) => ctx.viol("C05:over-cap-accepted", "a declared length above the cap was accepted", json!({"declared": declared, "returned_len": m.len()})),
        }
    }
    // (4) end of stream inside the prefix or the body, for frames of every size class (every offset for the small
    // ones; right behind the prefix, in the middle, one byte short and at the size-class boundaries for the large)
    for (mode, len) in [
        (FrameMode::Handshake, 10usize), (FrameMode::Distribution, 10), (FrameMode::Handshake, 65535), (FrameMode::Distribution, 65536), (FrameMode::Distribution, 70_000),
        (FrameMode::Distribution, 1 << 20), (FrameMode::Distribution, (1 << 20) + 5), (FrameMode::Distribution, 3 << 20), (FrameMode::Distribution, (16 << 20) + 1),
    ] {
        let msg = vec![9u8; len];
        let mut full = prefix(mode, msg.len());
        full.extend_from_slice(&msg);
        let p = mode.length_prefix_size();
        let cuts: Vec<usize> = if len <= 10 { (1..full.len()).collect() } else { vec![1, p - 1, p, p + 1, p + 4096, p + 65535, p + 65536, p + len / 2, p + (1 << 20), full.len() - 2, full.len() - 1].into_iter().filter(|c| *c < full.len()).collect() };
        for cut in cuts {
            ctx.eval(1);
            let de = deframer_for(ctx, mode);
            let part = full[..cut].to_vec();
            let mut rd = Scripted::new(part, vec![cut], vec![cut % 2 == 0]);
            ctx.class(&format!("eof/{}/{}/{}", mode_name(mode), if cut < mode.length_prefix_size() { "in-prefix" } else { "in-body" }, match len { 0..=255 => "s", 256..=65535 => "m", 65536..=1048576 => "l", _ => "xl" }));
            match de.read_framed(&mut rd).await {
                Err(_) => {}
                Ok(m) => ctx.viol(
                    &format!("C05:eof-inside-frame-returns-message:{}", mode_name(mode)),
                    "end of stream inside a frame produced a (short) message",
                    json!({"mode": mode_name(mode), "declared_length": len, "bytes_available": cut, "returned_length": m.len(), "returned": hex_cap(&m, 16)}),
                ),
            }
        }
    }
}

/// The second copy of the read loop (`Connection::receive_message_from_read_half`) over a real
/// loopback socket written in scripted slices.
async fn read_half_part(ctx: &Ctx, rng: &mut Rng) {
    use erltf::OwnedTerm;
    let rounds = ctx.pick(25usize, 600usize);
    for r in 0..rounds {
        if !ctx.time_left() {
            break;
        }
        let listener = match tokio::net::TcpListener::bind("127.0.0.1:0").await {
            Ok(l) => l,
            Err(e) => {
                ctx.inconclusive(&format!("cannot bind loopback: {}", e));
                return;
            }
        };
        let addr = listener.local_addr().unwrap();
        let nmsg = 1 + rng.below(4);
        let mut expected: Vec<(OwnedTerm, OwnedTerm)> = Vec::new();
        let mut stream: Vec<u8> = Vec::new();
        let scenario = rng.below(6); // 0..3 normal, 4 = over-long length at the end, 5 = EOF inside the last frame
        for i in 0..nmsg {
            if rng.chance(1, 3) {
                stream.extend_from_slice(&[0, 0, 0, 0]); // tick
            }
            let control = OwnedTerm::Tuple(vec![OwnedTerm::Integer(2), OwnedTerm::atom(""), OwnedTerm::Pid(erltf::ExternalPid::new(erltf::Atom::new("a@b"), i as u32 + 1, 0, 1))]);
            let blen = *rng.pick(&[0usize, 1, 255, 256, 70_000]);
            let payload = OwnedTerm::Tuple(vec![OwnedTerm::Integer(r as i64 * 100 + i as i64), OwnedTerm::Binary(rng.bytes(blen))]);
            let mut body = vec![112u8];
            body.extend(erltf::encode(&control).unwrap());
            body.extend(erltf::encode(&payload).unwrap());
            stream.extend_from_slice(&(body.len() as u32).to_be_bytes());
            stream.extend_from_slice(&body);
            expected.push((control, payload));
        }
        let complete_len = stream.len();
        match scenario {
            4 => stream.extend_from_slice(&(64u32 * 1024 * 1024 + 1).to_be_bytes()),
            5 => {
                stream.extend_from_slice(&[0, 0, 0, 50, 112, 131]);
            }
            _ => {}
        }
        let mut cuts: Vec<usize> = (0..rng.below(30)).map(|_| 1 + rng.below(stream.len() - 1)).collect();
        if rng.chance(1, 4) {
            cuts.extend(1..stream.len().min(64));
        }
        cuts.sort();
        cuts.dedup();
        cuts.push(stream.len());
        let to_send = stream.clone();
        let cuts2 = cuts.clone();
        let server = tokio::spawn(async move {
            let (mut sock, _) = listener.accept().await.unwrap();
            let _ = sock.set_nodelay(true);
            let mut prev = 0;
            for c in cuts2 {
                let _ = sock.write_all(&to_send[prev..c]).await;
                let _ = sock.flush().await;
                prev = c;
                tokio::task::yield_now().await;
            }
            // keep the socket open a little for scenario 4, close for the others
            let _ = sock.shutdown().await;
        });
        let client = tokio::net::TcpStream::connect(addr).await.unwrap();
        let (mut rh, _wh) = client.into_split();
        ctx.class(&format!("read-half/scenario{}/{}msgs/{}cuts", scenario.min(4), nmsg, cuts.len().min(40)));
        for (i, (c, p)) in expected.iter().enumerate() {
            ctx.eval(1);
            match edp_client::Connection::receive_message_from_read_half(&mut rh, std::time::Duration::from_secs(5)).await {
                Ok((cm, pl)) => {
                    let same = val_of(&cm.to_term()).same(&val_of(c)) && pl.as_ref().map(|x| val_of(x).same(&val_of(p))).unwrap_or(false);
                    if !same {
                        ctx.viol(
                            "C05:read-half:wrong-message",
                            "the node's read loop returned another message than the one written",
                            json!({"round": r, "frame": i, "cuts": cuts.iter().take(20).collect::<Vec<_>>(), "got": format!("{:?}", cm).chars().take(160).collect::<String>()}),
                        );
                    }
                }
                Err(e) => {
                    ctx.viol(
                        "C05:read-half:error-on-complete-frame",
                        "the node's read loop failed on a complete frame",
                        json!({"round": r, "frame": i, "error": e.to_string(), "cuts": cuts.iter().take(20).collect::<Vec<_>>()}),
                    );
                    break;
                }
            }
        }
        // after the complete frames: error (over-long length / EOF inside frame / EOF), never a message
        ctx.eval(1);
        alloc::begin();
        let tail = edp_client::Connection::receive_message_from_read_half(&mut rh, std::time::Duration::from_secs(5)).await;
        let (_peak, largest) = alloc::end();
        match tail {
            Err(_) => {
                if scenario == 4 && largest > 1 << 20 {
                    ctx.viol("C05:read-half:cap-checked-after-allocation", "large allocation before the over-long length was refused", json!({"largest_request": largest}));
                }
            }
            Ok((cm, _)) => ctx.viol(
                "C05:read-half:message-after-end",
                "the node's read loop returned a message where the stream only held an over-long length / a truncated frame / EOF",
                json!({"scenario": scenario, "got": format!("{:?}", cm).chars().take(120).collect::<String>(), "complete_len": complete_len}),
            ),
        }
        let _ = server.await;
        ctx.count("read_half_rounds", 1);
    }
}

/// Delays as the third thing a transport does to a stream: silences between frames longer than the reader's timeout
/// (a connection may be quiet for as long as it likes) directly followed by a frame that arrives in pieces with short
/// pauses, cut in the length prefix or in the body. Every frame must be returned. Judged only when the writer's pauses
/// inside a frame really stayed far below the timeout.
async fn delays_part(ctx: &Ctx, rng: &mut Rng) {
    use erltf::OwnedTerm;
    for round in 0..ctx.pick(4usize, 80usize) {
        if !ctx.time_left() {
            break;
        }
        let Ok(listener) = tokio::net::TcpListener::bind("127.0.0.1:0").await else { return };
        let addr = listener.local_addr().unwrap();
        let timeout = Duration::from_millis(200);
        let nframes = 2 + rng.below(3);
        let mut frames: Vec<Vec<u8>> = Vec::new();
        for i in 0..nframes {
            let control = OwnedTerm::Tuple(vec![OwnedTerm::Integer(2), OwnedTerm::atom(""), OwnedTerm::Pid(erltf::ExternalPid::new(erltf::Atom::new("a@b"), i as u32 + 1, 0, 1))]);
            let blen = *rng.pick(&[0usize, 40, 3000]);
            let payload = OwnedTerm::Tuple(vec![OwnedTerm::Integer(i as i64), OwnedTerm::Binary(rng.bytes(blen))]);
            let mut body = vec![112u8];
            body.extend(erltf::encode(&control).unwrap());
            body.extend(erltf::encode(&payload).unwrap());
            let mut f = (body.len() as u32).to_be_bytes().to_vec();
            f.extend_from_slice(&body);
            frames.push(f);
        }
        // per frame: idle before it (ms), cut positions
        let plan: Vec<(u64, Vec<usize>)> = frames.iter().map(|f| {
            let idle = *rng.pick(&[0u64, 0, 450, 700]);
            let cuts = match rng.below(4) {
                0 => vec![],
                1 => vec![1 + rng.below(3)],
                2 => vec![4 + rng.below(f.len() - 4)],
                _ => vec![2, 4 + rng.below(f.len() - 4)],
            };
            (idle, cuts)
        }).collect();
        // the first history is always the telling one: silence, then a frame cut in its length prefix; silence, then one cut in its body
        let plan: Vec<(u64, Vec<usize>)> = if round == 0 { frames.iter().enumerate().map(|(i, f)| if i % 2 == 0 { (700u64, vec![2usize]) } else { (450u64, vec![4 + (f.len() - 4) / 2]) }).collect() } else { plan };
        let (to_write, plan2) = (frames.clone(), plan.clone());
        let writer = tokio::spawn(async move {
            use tokio::io::AsyncWriteExt;
            let Ok((mut sock, _)) = listener.accept().await else { return None };
            let _ = sock.set_nodelay(true);
            let mut worst = Duration::ZERO;
            for (f, (idle, cuts)) in to_write.iter().zip(plan2.iter()) {
                tokio::time::sleep(Duration::from_millis(*idle)).await;
                let mut prev = 0usize;
                for c in cuts.iter().chain(std::iter::once(&f.len())) {
                    if *c <= prev {
                        continue;
                    }
                    let t = Instant::now();
                    if prev > 0 {
                        tokio::time::sleep(Duration::from_millis(25)).await;
                    }
                    let _ = sock.write_all(&f[prev..*c]).await;
                    let _ = sock.flush().await;
                    if prev > 0 {
                        worst = worst.max(t.elapsed());
                    }
                    prev = *c;
                }
            }
            tokio::time::sleep(Duration::from_millis(300)).await;
            Some(worst)
        });
        let Ok(stream) = tokio::net::TcpStream::connect(addr).await else { return };
        let (mut rh, _wh) = stream.into_split();
        let mut outcome: Vec<String> = Vec::new();
        let mut ok = true;
        for i in 0..nframes {
            match tokio::time::timeout(Duration::from_secs(5), edp_client::Connection::receive_message_from_read_half(&mut rh, timeout)).await {
                Ok(Ok((_, Some(OwnedTerm::Tuple(t))))) if t.first() == Some(&OwnedTerm::Integer(i as i64)) => outcome.push("delivered".into()),
                Ok(Ok(_)) => {
                    ok = false;
                    outcome.push("another message".into());
                    break;
                }
                Ok(Err(e)) => {
                    ok = false;
                    outcome.push(format!("error: {}", e));
                    break;
                }
                Err(_) => {
                    ok = false;
                    outcome.push("nothing within 5 s".into());
                    break;
                }
            }
        }
        let worst = tokio::time::timeout(Duration::from_secs(5), writer).await.ok().and_then(|r| r.ok()).flatten();
        ctx.eval(nframes as u64);
        ctx.class(&format!("delays/{}", plan.iter().map(|(idle, cuts)| format!("{}{}", if *idle > 200 { "idle+" } else { "" }, match cuts.len() { 0 => "whole", 1 => "2pieces", _ => "3pieces" })).collect::<Vec<_>>().join(",")));
        match worst {
            Some(w) if w < Duration::from_millis(120) => {
                ctx.count("delay_histories_judged", 1);
                if !ok {
                    ctx.viol(
                        "C05:frame-lost-after-a-silence",
                        "a frame that arrived in pieces (pauses far below the reader's timeout) after a silence longer than that timeout was not returned",
                        json!({"round": round, "reader_timeout_ms": 200, "plan": plan.iter().map(|(idle, cuts)| json!({"silence_before_ms": idle, "cut_at": cuts})).collect::<Vec<_>>(), "frame_lengths": frames.iter().map(|f| f.len()).collect::<Vec<_>>(), "outcome": outcome, "longest_pause_inside_a_frame_ms": w.as_millis() as u64}),
                    );
                }
            }
            _ => ctx.count("delay_histories_not_judged(writer_pauses_too_long)", 1),
        }
    }
}

/// Coalescing across the handshake / traffic boundary and across the hand-over of the read half (what
/// `Node::connect` does): the peer writes its last handshake message and the first distribution frames in one
/// piece; `k` messages are read through the connection, the rest from the read half taken out of it.
async fn handover_part(ctx: &Ctx, rng: &mut Rng) {
    use crate::mon::net::{self, PEER_BASE_FLAGS, Peer};
    use crate::refmodel::md5::challenge_digest;
    use erltf::OwnedTerm;
    let epmd = net::start_epmd().await;
    for round in 0..ctx.pick(24usize, 400usize) {
        if !ctx.time_left() {
            break;
        }
        let name = format!("h{}", round);
        let pl = net::listen_as(&epmd, &name).await;
        let nmsg = 2 + rng.below(6);
        let via_connection = rng.below(nmsg.min(3)); // messages read before the read half is taken
        let coalesce_status_and_challenge = rng.bool();
        let in_first_write = 1 + rng.below(nmsg); // frames glued to the final handshake message
        let with_ticks = rng.bool();
        let mut frames: Vec<Vec<u8>> = Vec::new();
        for i in 0..nmsg {
            let control = OwnedTerm::Tuple(vec![OwnedTerm::Integer(2), OwnedTerm::atom(""), OwnedTerm::Pid(erltf::ExternalPid::new(erltf::Atom::new("a@b"), i as u32 + 1, 0, 1))]);
            let blen = *rng.pick(&[0usize, 3, 200, 9000]);
            let payload = OwnedTerm::Tuple(vec![OwnedTerm::Integer(i as i64), OwnedTerm::Binary(rng.bytes(blen))]);
            let mut body = vec![112u8];
            body.extend(erltf::encode(&control).unwrap());
            body.extend(erltf::encode(&payload).unwrap());
            let mut f = (body.len() as u32).to_be_bytes().to_vec();
            f.extend_from_slice(&body);
            if with_ticks && i % 2 == 1 {
                f.extend_from_slice(&[0, 0, 0, 0]);
            }
            frames.push(f);
        }
        let to_send = frames.clone();
        let peer_task = tokio::spawn(async move {
            let mut peer = pl.accept("cookie", PEER_BASE_FLAGS, 991).await.ok()?;
            peer.recv_name().await.ok()?;
            let status = Peer::status_body("ok");
            let ch = peer.challenge_body();
            if coalesce_status_and_challenge {
                let mut b = (status.len() as u16).to_be_bytes().to_vec();
                b.extend_from_slice(&status);
                b.extend_from_slice(&(ch.len() as u16).to_be_bytes());
                b.extend_from_slice(&ch);
                peer.sock_write(&b).await.ok()?;
            } else {
                peer.write_frame2(&status).await.ok()?;
                peer.write_frame2(&ch).await.ok()?;
            }
            let (client_challenge, _) = peer.recv_reply().await.ok()?;
            let ack = Peer::ack_body(&challenge_digest("cookie", client_challenge));
            let mut first = (ack.len() as u16).to_be_bytes().to_vec();
            first.extend_from_slice(&ack);
            for f in to_send.iter().take(in_first_write) {
                first.extend_from_slice(f);
            }
            peer.sock_write(&first).await.ok()?;
            tokio::time::sleep(Duration::from_millis(20)).await;
            // the rest in one more piece
            let rest: Vec<u8> = to_send.iter().skip(in_first_write).flat_map(|f| f.iter().copied()).collect();
            if !rest.is_empty() {
                peer.sock_write(&rest).await.ok()?;
            }
            tokio::time::sleep(Duration::from_millis(1500)).await;
            Some(())
        });
        let cfg = edp_client::ConnectionConfig::new("rust@127.0.0.1", format!("{}@127.0.0.1", name), "cookie").with_epmd_host("127.0.0.1").with_timeout(Duration::from_millis(1000));
        let mut conn = edp_client::Connection::new(cfg);
        ctx.class(&format!("handover/{}msgs/{}glued-to-ack/{}via-connection{}", nmsg, in_first_write.min(4), via_connection, if with_ticks { "/ticks" } else { "" }));
        if let Err(e) = conn.connect().await {
            ctx.viol("C05:handover:handshake-failed", "the handshake failed when the peer's last handshake message arrived glued to the first distribution frames", json!({"error": e.to_string(), "status_and_challenge_coalesced": coalesce_status_and_challenge, "frames_glued_to_ack": in_first_write}));
            peer_task.abort();
            continue;
        }
        let mut got: Vec<i64> = Vec::new();
        let mut failure: Option<String> = None;
        for _ in 0..via_connection {
            match tokio::time::timeout(Duration::from_secs(3), conn.receive_message()).await {
                Ok(Ok((_, Some(OwnedTerm::Tuple(t))))) => {
                    if let Some(OwnedTerm::Integer(i)) = t.first() {
                        got.push(*i);
                    }
                }
                other => {
                    failure = Some(format!("receive_message: {:?}", other.map(|r| r.map(|_| ()).map_err(|e| e.to_string()))));
                    break;
                }
            }
        }
        if failure.is_none() {
            match conn.take_read_half() {
                None => failure = Some("no read half".into()),
                Some(mut rh) => {
                    while got.len() < nmsg {
                        match tokio::time::timeout(Duration::from_secs(3), edp_client::Connection::receive_message_from_read_half(&mut rh, Duration::from_millis(1000))).await {
                            Ok(Ok((_, Some(OwnedTerm::Tuple(t))))) => {
                                if let Some(OwnedTerm::Integer(i)) = t.first() {
                                    got.push(*i);
                                }
                            }
                            other => {
                                failure = Some(format!("read half: {:?}", other.map(|r| r.map(|_| ()).map_err(|e| e.to_string()))));
                                break;
                            }
                        }
                    }
                }
            }
        }
        ctx.eval(nmsg as u64);
        let want: Vec<i64> = (0..nmsg as i64).collect();
        if got != want {
            ctx.viol(
                "C05:handover:frames-lost-or-torn",
                "frames that arrived glued to the last handshake message / to each other were not all read back across the hand-over of the read half",
                json!({"messages_sent": nmsg, "frames_glued_to_ack": in_first_write, "read_through_connection_first": via_connection, "received": got, "failure": failure, "ticks": with_ticks}),
            );
        }
        peer_task.abort();
    }
}

/// One transport object over its whole life: writes that fail (not connected, peer gone, peer not reading until the
/// write times out), close, connect to the next socket, mode switches. What each peer reads must be the frames of the
/// writes that were reported successful on *that* connection, in order, followed at most by the beginning of the one
/// write that failed last on it.
async fn transport_part(ctx: &Ctx, rng: &mut Rng) {
    use edp_client::transport::FramedTransport;
    use tokio::io::AsyncReadExt;
    use tokio::net::TcpSocket;
    for round in 0..ctx.pick(60usize, 3000usize) {
        if !ctx.time_left() {
            break;
        }
        let lsock = TcpSocket::new_v4().expect("socket");
        let _ = lsock.set_recv_buffer_size(4096);
        lsock.bind("127.0.0.1:0".parse().unwrap()).expect("bind");
        let listener = lsock.listen(8).expect("listen");
        let addr = listener.local_addr().expect("addr");
        let mut tr = FramedTransport::new(Duration::from_millis(60));
        let mut mode = FrameMode::Handshake;
        let mut history: Vec<String> = Vec::new();
        let mut msg = |rng: &mut Rng, mode: FrameMode| -> Vec<u8> {
            let len = match mode {
                FrameMode::Handshake => *rng.pick(&[0usize, 1, 5, 300, 65535]),
                FrameMode::Distribution => *rng.pick(&[0usize, 1, 5, 300, 65536, 70_000]),
            };
            let mut m = rng.bytes(len);
            // a recognisable head, so that a witness shows which write a stray frame came from
            for (i, b) in (round as u32).to_be_bytes().iter().enumerate().take(m.len()) {
                m[i] = *b;
            }
            m
        };
        let frame = |mode: FrameMode, m: &[u8]| {
            let mut f = prefix(mode, m.len());
            f.extend_from_slice(m);
            f
        };
        let nconn = 1 + rng.below(3);
        for c in 0..nconn {
            // writes while there is no connection: must fail, and must leave nothing behind
            for _ in 0..rng.below(3) {
                let m = msg(rng, mode);
                history.push(format!("write({}) unconnected", m.len()));
                ctx.eval(1);
                if tr.write(&m).await.is_ok() {
                    ctx.viol("C05:transport:write-without-a-connection-succeeds", "a write on a transport without a connection was reported successful", json!({"history": history}));
                }
            }
            if rng.chance(1, 3) {
                mode = if rng.bool() { FrameMode::Handshake } else { FrameMode::Distribution };
                tr.set_frame_mode(mode);
                history.push(format!("mode {}", mode_name(mode)));
            }
            let csock = TcpSocket::new_v4().expect("socket");
            let _ = csock.set_send_buffer_size(4096);
            let (stream, accepted) = tokio::join!(csock.connect(addr), listener.accept());
            let (stream, (mut peer, _)) = match (stream, accepted) {
                (Ok(s), Ok(a)) => (s, a),
                _ => {
                    ctx.inconclusive("loopback connect failed");
                    return;
                }
            };
            tr.connect(stream);
            let fate = rng.below(5); // 0: peer goes away at once; 1: peer does not read until the end; else: reads along
            history.push(format!("connect #{} ({})", c, ["peer-resets", "peer-stalls", "peer-reads", "peer-reads", "peer-reads"][fate]));
            let (go_tx, go_rx) = tokio::sync::oneshot::channel::<()>();
            let reader = tokio::spawn(async move {
                if fate == 0 {
                    let _ = peer.set_linger(Some(Duration::from_secs(0)));
                    drop(peer);
                    return None;
                }
                if fate == 1 {
                    let _ = go_rx.await;
                }
                let mut all = Vec::new();
                let _ = tokio::time::timeout(Duration::from_secs(20), peer.read_to_end(&mut all)).await;
                Some(all)
            });
            if fate == 0 {
                tokio::time::sleep(Duration::from_millis(5)).await;
            }
            let mut expected: Vec<u8> = Vec::new();
            let mut tail: Option<Vec<u8>> = None;
            let mut frames_ok = 0u64;
            let nw = rng.below(5) + if fate == 0 { 2 } else { 0 };
            for w in 0..nw {
                if rng.chance(1, 5) {
                    mode = if mode == FrameMode::Handshake { FrameMode::Distribution } else { FrameMode::Handshake };
                    tr.set_frame_mode(mode);
                    history.push(format!("mode {}", mode_name(mode)));
                }
                let m = if fate == 1 && w + 1 == nw && mode == FrameMode::Distribution { let mut big = msg(rng, mode); big.resize(6 << 20, 0xEE); big } else { msg(rng, mode) };
                let r = tr.write(&m).await;
                history.push(format!("write({}) -> {}", m.len(), match &r { Ok(()) => "ok".to_string(), Err(e) => format!("error: {}", e).chars().take(60).collect() }));
                match r {
                    Ok(()) => {
                        expected.extend(frame(mode, &m));
                        frames_ok += 1;
                    }
                    Err(_) => {
                        tail = Some(frame(mode, &m));
                        break;
                    }
                }
            }
            tr.close();
            history.push("close".into());
            let _ = go_tx.send(());
            let got = match tokio::time::timeout(Duration::from_secs(30), reader).await {
                Ok(Ok(g)) => g,
                _ => {
                    ctx.inconclusive("peer reader did not finish");
                    continue;
                }
            };
            ctx.class(&format!("transport/{}/{}", ["peer-resets", "peer-stalls", "peer-reads", "peer-reads", "peer-reads"][fate], if tail.is_some() { "ends-in-failed-write" } else { "all-writes-ok" }));
            ctx.count(&format!("transport-connections/{}/{}", ["peer-resets", "peer-stalls", "peer-reads", "peer-reads", "peer-reads"][fate], if tail.is_some() { "ends-in-failed-write" } else { "all-writes-ok" }), 1);
            let Some(got) = got else { continue };
            ctx.eval(frames_ok.max(1));
            let ok = got.len() >= expected.len()
                && got[..expected.len()] == expected[..]
                && match &tail {
                    None => got.len() == expected.len(),
                    Some(t) => t.starts_with(&got[expected.len()..]),
                };
            if !ok {
                let at = got.iter().zip(expected.iter()).position(|(a, b)| a != b).unwrap_or(got.len().min(expected.len()));
                let cause = if got.len() < expected.len() && expected.starts_with(&got) { "frames-missing" } else { "bytes-nobody-wrote-on-this-connection" };
                ctx.viol(
                    &format!("C05:transport:{}", cause),
                    "what the peer read on a connection is not the frames of the writes reported successful on it (followed at most by the beginning of the one that failed last)",
                    json!({"history": history, "connection": c, "received_len": got.len(), "expected_len": expected.len(), "first_difference_at": at, "received_there": hex_cap(&got[at.min(got.len())..], 48), "expected_there": hex_cap(&expected[at.min(expected.len())..], 48)}),
                );
            }
        }
    }
}

pub fn run(ctx: &Ctx) {
    ctx.rule("cases = message sequences (lengths 0,1,2,255,256,65535,65536,... in both framing modes) written by both framing functions and read back under a scripted transport (framers and deframers made for their mode, switched to it, or switched away and back; one pair carried across the handshake-to-distribution switch with frames of every size class behind it): ALL 2^(n-1) chunkings of every stream up to 11 (quick) / 15 (thorough) bytes with Pending between chunks, random cuts / 1-byte dribble / cuts around frame boundaries for long streams, over-long declared lengths (allocation measured), EOF at every offset inside a small frame and at the telling offsets inside frames of 64 KiB .. 16 MiB; the streaming writer over scripted write transports (every combination of 1..6 bytes accepted by the first two calls, fixed k bytes per call, random scripts; plain and truly vectored transports; Pending between calls) and through an in-memory pipe of every capacity 1..24 bytes against a concurrent reader; plus handshakes whose last message arrives glued to the first distribution frames, read partly through the connection and partly from the read half taken out of it; plus one transport object over its whole life (writes that fail for want of a connection, because the peer is gone or because it does not read until the write times out; close; connect to the next socket; mode switches), what each peer reads compared with the writes reported successful on that connection; plus the node's second read loop over a real loopback socket written in scripted slices, and with silences longer than its timeout followed by frames in pieces; evaluations = frames read and judged; distinct = distinct (mode, frame-length classes, chunking style) combinations");
    ctx.assume("independent framing model: big-endian length prefix (2 bytes handshake, 4 bytes distribution) followed by the data");
    let rt = tokio::runtime::Builder::new_current_thread().enable_all().build().expect("runtime");
    let mut rng = Rng::derive(ctx.seed, 5, 1);
    let r = guarded(|| {
        rt.block_on(async {
            deframer_part(ctx, &mut rng).await;
            across_the_switch(ctx, &mut rng).await;
            writer_part(ctx, &mut rng).await;
            handover_part(ctx, &mut rng).await;
            transport_part(ctx, &mut rng).await;
            read_half_part(ctx, &mut rng).await;
            delays_part(ctx, &mut rng).await;
        })
    });
    if let Err(p) = r {
        ctx.viol("C05:panic", "framing code panicked", json!({"panic": p}));
    }
}
