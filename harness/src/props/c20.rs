//! C20 – Elixir wrappers and proplist/map helpers convert back to what went in.

use super::common::guarded;
use crate::genr::val::{Gen, GenCfg};
use crate::out::Ctx;
use crate::refmodel::denote::{Style, term_of, val_of};
use crate::refmodel::val::{Val, erl_eq};
use crate::rng::Rng;
use edp_elixir_terms::*;
use erltf::OwnedTerm;
use serde_json::json;
use std::collections::BTreeMap;
use std::fmt::Debug;

trait Wrapper: Clone + PartialEq + Debug {
    const NAME: &'static str;
    fn to_term(&self) -> OwnedTerm;
    fn parse(t: &OwnedTerm) -> Option<Self>;
}

macro_rules! wrapper {
    ($t:ty, $n:expr) => {
        impl Wrapper for $t {
            const NAME: &'static str = $n;
            fn to_term(&self) -> OwnedTerm {
                OwnedTerm::from(self.clone())
            }
            fn parse(t: &OwnedTerm) -> Option<Self> {
                <$t>::from_term(t)
            }
        }
    };
}
wrapper!(ElixirRange, "Range");
wrapper!(ElixirMapSet, "MapSet");
wrapper!(ElixirDate, "Date");
wrapper!(ElixirTime, "Time");
wrapper!(ElixirNaiveDateTime, "NaiveDateTime");
wrapper!(ElixirDateTime, "DateTime");
wrapper!(ArgumentError, "ArgumentError");
wrapper!(RuntimeError, "RuntimeError");
wrapper!(ArithmeticError, "ArithmeticError");
wrapper!(KeyError, "KeyError");
wrapper!(MatchError, "MatchError");
wrapper!(UndefinedFunctionError, "UndefinedFunctionError");
wrapper!(BadMapError, "BadMapError");
wrapper!(BadFunctionError, "BadFunctionError");
wrapper!(FunctionClauseError, "FunctionClauseError");
wrapper!(CaseClauseError, "CaseClauseError");
wrapper!(CondClauseError, "CondClauseError");
wrapper!(WithClauseError, "WithClauseError");

fn show<T: Debug>(v: &T) -> String {
    let s = format!("{:?}", v);
    if s.len() > 260 { format!("{}…", s.chars().take(260).collect::<String>()) } else { s }
}

/// Field-wise comparison used by the "no fabrication" oracle: every key of `made` must be present in
/// `input` with an Erlang-equal value.
fn fields_agree(made: &OwnedTerm, input: &OwnedTerm) -> Option<String> {
    let (Val::Map(m), Val::Map(i)) = (val_of(made), val_of(input)) else {
        return None;
    };
    for (k, v) in &m {
        // only the wrapper's own data fields; struct/calendar/exception markers are constants
        if matches!(k, Val::Atom(a) if a == "calendar" || a == "__exception__" || a == "__struct__") {
            continue;
        }
        match i.iter().find(|(k2, _)| k2.same(k)) {
            Some((_, v2)) => {
                // an optional field read as absent (nil) is leniency, not a fabricated value
                if matches!(v, Val::Atom(a) if a == "nil") {
                    continue;
                }
                if !erl_eq(v, v2) {
                    return Some(format!("{}: input {} became {}", k.show(), v2.show(), v.show()));
                }
            }
            None => {
                // defaults for absent optional keys are not fabrication of a present field
            }
        }
    }
    None
}

fn roundtrip<W: Wrapper>(ctx: &Ctx, x: &W, class: &str) {
    ctx.class(&format!("{}/{}", W::NAME, class));
    ctx.eval(1);
    let t = match guarded(|| x.to_term()) {
        Ok(t) => t,
        Err(p) => {
            ctx.viol(&format!("C20:panic:to_term:{}", W::NAME), "conversion to a term panicked", json!({"value": show(x), "panic": p}));
            return;
        }
    };
    // in memory
    match guarded(|| W::parse(&t)) {
        Ok(Some(w)) => {
            if &w != x {
                ctx.viol(&format!("C20:memory:altered:{}:{}", W::NAME, class), "from_term(into(x)) returned another value", json!({"value": show(x), "back": show(&w)}));
            }
        }
        Ok(None) => ctx.viol(&format!("C20:memory:rejected:{}:{}", W::NAME, class), "from_term(into(x)) is None", json!({"value": show(x), "term": val_of(&t).show()})),
        Err(p) => ctx.viol(&format!("C20:panic:from_term:{}", W::NAME), "from_term panicked", json!({"value": show(x), "panic": p})),
    }
    // across the wire
    ctx.eval(1);
    let wire = match erltf::encode(&t).ok().and_then(|b| erltf::decode(&b).ok()) {
        Some(w) => w,
        None => {
            ctx.count("wire_trip_failed_left_to_C01", 1);
            return;
        }
    };
    match guarded(|| W::parse(&wire)) {
        Ok(Some(w)) => {
            let back = w.to_term();
            if !val_of(&back).same(&val_of(&t)) && !erl_eq(&val_of(&back), &val_of(&t)) {
                ctx.viol(&format!("C20:wire:altered:{}:{}", W::NAME, class), "the wrapper changes across encode/decode", json!({"value": show(x), "back": show(&w)}));
            }
        }
        Ok(None) => ctx.viol(&format!("C20:wire:rejected:{}:{}", W::NAME, class), "from_term fails on the wrapper's own term after encode/decode", json!({"value": show(x), "term": val_of(&wire).show()})),
        Err(p) => ctx.viol(&format!("C20:panic:from_term:{}", W::NAME), "from_term panicked", json!({"value": show(x), "panic": p})),
    }
}

/// Mutate the wrapper's term: the result must be rejected, or accepted without fabricating a field.
fn mutations<W: Wrapper>(ctx: &Ctx, rng: &mut Rng, x: &W) {
    let t = x.to_term();
    let OwnedTerm::Map(m) = &t else { return };
    let keys: Vec<OwnedTerm> = m.keys().cloned().collect();
    for _ in 0..3 {
        let mut m2 = m.clone();
        let k = rng.pick(&keys).clone();
        let kname = k.atom_name().unwrap_or("?").to_string();
        let kind = *rng.pick(&[0usize, 1, 2, 3, 4, 4, 4, 5]);
        let kind_name = ["remove-key", "wrong-type", "out-of-range-int", "negative-int", "big-int", "wrong-struct"][kind];
        match kind {
            0 => {
                m2.remove(&k);
            }
            1 => {
                let wrong = match m.get(&k) {
                    Some(OwnedTerm::Integer(_)) => OwnedTerm::atom("not_an_integer"),
                    Some(OwnedTerm::Atom(_)) => OwnedTerm::Integer(7),
                    Some(OwnedTerm::Binary(_)) => OwnedTerm::Tuple(vec![]),
                    _ => OwnedTerm::Float(1.5),
                };
                m2.insert(k.clone(), wrong);
            }
            2 => {
                if !matches!(m.get(&k), Some(OwnedTerm::Integer(_))) {
                    continue;
                }
                m2.insert(k.clone(), OwnedTerm::Integer(*rng.pick(&[256i64, 268, 65536, 1 << 31, (1 << 32) + 5, i64::MAX])));
            }
            3 => {
                if !matches!(m.get(&k), Some(OwnedTerm::Integer(_))) {
                    continue;
                }
                m2.insert(k.clone(), OwnedTerm::Integer(*rng.pick(&[-1i64, -255, i64::MIN])));
            }
            4 => {
                if !matches!(m.get(&k), Some(OwnedTerm::Integer(_))) {
                    continue;
                }
                // big-integer representations around every width a field could be narrowed through: just outside
                // i64 on both sides (eight digit bytes with the top bit set), 2^64 - k (wraps to -k in 64 bits,
                // to small positive numbers in narrower fields), nine and more digits, and in-range values that
                // merely arrive in big-integer form
                let candidates: Vec<(bool, i128)> = vec![
                    (false, 1i128 << 63), (false, (1i128 << 63) + 1), (false, (1i128 << 64) - 1), (false, (1i128 << 64) - 2025), (false, (1i128 << 64) - 3),
                    (false, 1i128 << 64), (false, (1i128 << 64) + 12), (false, 1i128 << 100), (true, (1i128 << 63) + 1), (true, (1i128 << 64) - 1),
                    (true, (1i128 << 64) - 7), (true, 1i128 << 63), (false, 5), (true, 5), (false, (1i128 << 32) + 3), (false, (1i128 << 40) - 1),
                ];
                let (neg, mag) = *rng.pick(&candidates);
                let i = crate::refmodel::val::Int::from_i128(if neg { -mag } else { mag });
                m2.insert(k.clone(), OwnedTerm::BigInt(erltf::BigInt::new(i.neg, i.mag.clone())));
            }
            _ => {
                m2.insert(OwnedTerm::atom("__struct__"), OwnedTerm::atom("Elixir.SomethingElse"));
            }
        }
        let input = OwnedTerm::Map(m2);
        ctx.eval(1);
        ctx.class(&format!("{}/mutation/{}", W::NAME, kind_name));
        match guarded(|| W::parse(&input)) {
            Ok(None) => {}
            Ok(Some(w)) => {
                if kind == 5 {
                    ctx.viol(&format!("C20:accepts-wrong-struct:{}", W::NAME), "a term of another struct was accepted", json!({"input": val_of(&input).show()}));
                    continue;
                }
                let made = w.to_term();
                if let Some(diff) = fields_agree(&made, &input) {
                    ctx.viol(
                        &format!("C20:fabricated:{}:{}", W::NAME, kind_name),
                        "from_term accepted a term with an out-of-shape field and fabricated a value for it",
                        json!({"field": kname, "input": val_of(&input).show(), "parsed": show(&w), "difference": diff}),
                    );
                }
            }
            Err(p) => ctx.viol(&format!("C20:panic:from_term:{}", W::NAME), "from_term panicked on a mutated term", json!({"input": val_of(&input).show(), "panic": p})),
        }
    }
}

fn member(rng: &mut Rng) -> OwnedTerm {
    let cfg = GenCfg { max_depth: 2, max_nodes: 6, funs: false, ..GenCfg::default() };
    let v = {
        let mut g = Gen::new(rng, cfg);
        g.value()
    };
    let style = *rng.pick(&[Style::User, Style::Wire]);
    term_of(&v, rng, style).unwrap_or(OwnedTerm::Nil)
}

fn text(rng: &mut Rng) -> String {
    match rng.below(5) {
        0 => String::new(),
        1 => "héllo ✓".into(),
        2 => "x".repeat(300),
        _ => (0..rng.below(10)).map(|_| *rng.pick(&['a', 'b', ' ', 'é', '9'])).collect(),
    }
}

fn ident(rng: &mut Rng) -> String {
    // module names are given without the "Elixir." prefix (the wrappers add/strip it; a name that
    // already carries it is normalised, which is not charged as an alteration)
    rng.pick(&["Foo", "Foo.Bar", "Baz", "lists", "x", "Kernel"]).to_string()
}

const I64S: &[i64] = &[i64::MIN, i64::MIN + 1, -(1 << 40), -(1 << 31) - 1, -(1 << 31), -256, -2, -1, 0, 1, 2, 3, 255, (1 << 31) - 1, 1 << 31, 1 << 40, i64::MAX - 1, i64::MAX];

fn range_checks(ctx: &Ctx, rng: &mut Rng) {
    let steps: &[i64] = &[i64::MIN, -(1 << 40), -3, -2, -1, 0, 1, 2, 3, 7, 1 << 40, i64::MAX];
    let mut cases: Vec<(i64, i64, i64)> = Vec::new();
    for &f in I64S {
        for &l in I64S {
            for &s in steps {
                cases.push((f, l, s));
            }
        }
    }
    for _ in 0..ctx.pick(2000, 300_000) {
        let f = if rng.bool() { *rng.pick(I64S) } else { rng.range(-50, 50) };
        let l = if rng.chance(1, 3) { *rng.pick(I64S) } else { f.saturating_add(rng.range(-60, 60)) };
        let s = if rng.chance(1, 4) { *rng.pick(steps) } else { rng.range(-5, 5) };
        cases.push((f, l, s));
    }
    for (f, l, s) in cases {
        if !ctx.time_left() {
            return;
        }
        ctx.eval(1);
        let r = ElixirRange::new(f, l, s);
        let (fi, li, si) = (f as i128, l as i128, s as i128);
        let empty = if si > 0 { fi > li } else if si < 0 { fi < li } else { true };
        let ref_len: u128 = if empty { 0 } else { ((li - fi).unsigned_abs() / si.unsigned_abs()) + 1 };
        let want_len = ref_len.min(usize::MAX as u128) as usize;
        let class = format!(
            "Range/{}{}{}",
            if empty { "empty" } else if ref_len > u64::MAX as u128 { "len>2^64" } else if ref_len > 1 << 32 { "huge" } else { "finite" },
            if s == i64::MIN { "/step-min" } else if s == 0 { "/step-0" } else if s < 0 { "/desc" } else { "/asc" },
            if f == i64::MIN || l == i64::MIN || f == i64::MAX || l == i64::MAX { "/extreme" } else { "" }
        );
        ctx.class(&class);
        let wit = |d: serde_json::Value| json!({"range": format!("{}..{}//{}", f, l, s), "detail": d});
        // len
        match guarded(|| r.len()) {
            Ok(n) => {
                if n != want_len {
                    ctx.viol(&format!("C20:range:len:{}", class_tail(&class)), "len() disagrees with the reference", wit(json!({"len": n, "reference": ref_len.to_string()})));
                }
            }
            Err(p) => ctx.viol(&format!("C20:range:len-panic:{}", class_tail(&class)), "len() panicked (arithmetic overflow)", wit(json!({"panic": p}))),
        }
        match guarded(|| r.is_empty()) {
            Ok(e) if e == empty => {}
            Ok(e) => ctx.viol("C20:range:is_empty", "is_empty() disagrees with the reference", wit(json!({"is_empty": e}))),
            Err(p) => ctx.viol("C20:range:is_empty-panic", "panic", wit(json!({"panic": p}))),
        }
        // contains on probes
        let mut probes: Vec<i64> = vec![f, l, 0, i64::MIN, i64::MAX, f.wrapping_add(s), f.wrapping_add(s.wrapping_mul(2)), l.wrapping_sub(1), l.wrapping_add(1), f.wrapping_sub(s)];
        probes.push(((fi + li) / 2) as i64);
        for v in probes {
            let vi = v as i128;
            let want = !empty && if si > 0 { vi >= fi && vi <= li && (vi - fi) % si == 0 } else { vi <= fi && vi >= li && (fi - vi) % (-si) == 0 };
            match guarded(|| r.contains(v)) {
                Ok(c) if c == want => {}
                Ok(c) => ctx.viol(&format!("C20:range:contains:{}", class_tail(&class)), "contains() disagrees with the reference", wit(json!({"probe": v, "contains": c, "reference": want}))),
                Err(p) => ctx.viol(&format!("C20:range:contains-panic:{}", class_tail(&class)), "contains() panicked (arithmetic overflow)", wit(json!({"probe": v, "panic": p}))),
            }
        }
        // iteration: first K elements, size_hint before
        let k = 300usize;
        let res = guarded(|| {
            let it = r.into_iter();
            let hint = it.size_hint();
            let got: Vec<i64> = it.take(k + 1).collect();
            (hint, got)
        });
        match res {
            Ok((hint, got)) => {
                let want: Vec<i64> = (0..(ref_len.min(k as u128 + 1) as i128)).map(|j| (fi + j * si) as i64).collect();
                if got != want {
                    let cause = if got.len() > want.len() { "extra-element" } else if got.len() < want.len() { "missing-element" } else { "wrong-element" };
                    ctx.viol(&format!("C20:range:iteration:{}:{}", cause, class_tail(&class)), "iteration disagrees with the reference", wit(json!({"got": got.iter().take(6).collect::<Vec<_>>(), "got_len": got.len(), "want": want.iter().take(6).collect::<Vec<_>>(), "want_len": want.len()})));
                }
                if hint != (want_len, Some(want_len)) {
                    ctx.viol(&format!("C20:range:size_hint:{}", class_tail(&class)), "size_hint() disagrees with the number of elements", wit(json!({"size_hint": format!("{:?}", hint), "reference": ref_len.to_string()})));
                }
            }
            Err(p) => ctx.viol(&format!("C20:range:iteration-panic:{}", class_tail(&class)), "iteration panicked (arithmetic overflow)", wit(json!({"panic": p}))),
        }
    }
}

fn class_tail(c: &str) -> String {
    c.splitn(2, '/').nth(1).unwrap_or("").to_string()
}

fn proplist_checks(ctx: &Ctx, rng: &mut Rng) {
    for _ in 0..ctx.pick(2000, 200_000) {
        if !ctx.time_left() {
            return;
        }
        ctx.eval(1);
        // well-formed proplist with distinct keys: {Key, Value} tuples and bare atoms
        let n = rng.below(7);
        let mut keys: Vec<OwnedTerm> = Vec::new();
        let mut elems: Vec<OwnedTerm> = Vec::new();
        let mut expect: Vec<(Val, Val)> = Vec::new();
        for i in 0..n {
            let key = match rng.below(8) {
                0 => OwnedTerm::Binary(format!("b{}", i).into_bytes()),
                1 => OwnedTerm::Integer(i as i64 * 1000 + 3),
                2 => OwnedTerm::Float(i as f64 + 0.5),
                3 => OwnedTerm::Tuple(vec![OwnedTerm::atom("x"), OwnedTerm::Integer(i as i64)]),
                4 => OwnedTerm::Integer(i64::MAX - i as i64),
                _ => OwnedTerm::atom(format!("k{}", i)),
            };
            if keys.iter().any(|k| val_of(k).same(&val_of(&key))) {
                continue;
            }
            keys.push(key.clone());
            if matches!(key, OwnedTerm::Atom(_)) && rng.chance(1, 4) {
                elems.push(key.clone());
                expect.push((val_of(&key), Val::atom("true")));
            } else {
                let v = member(rng);
                expect.push((val_of(&key), val_of(&v)));
                elems.push(OwnedTerm::Tuple(vec![key, v]));
            }
        }
        let pl = if elems.is_empty() && rng.bool() { OwnedTerm::Nil } else { OwnedTerm::List(elems.clone()) };
        ctx.class(&format!("proplist/{}{}", n.min(6), if elems.iter().any(|e| matches!(e, OwnedTerm::Atom(_))) { "/bare-atoms" } else { "" }));
        let wit = |d: serde_json::Value| json!({"proplist": val_of(&pl).show(), "detail": d});
        let res = guarded(|| {
            let map = pl.proplist_to_map()?;
            let back = map.map_to_proplist()?;
            let norm = pl.normalize_proplist()?;
            Ok::<_, erltf::errors::TermConversionError>((map, back, norm))
        });
        match res {
            Ok(Ok((map, back, norm))) => {
                let mv = val_of(&map);
                let want_map = Val::Map(expect.clone());
                if !mv.same(&want_map) && !erl_eq(&mv, &want_map) {
                    ctx.viol("C20:proplist_to_map:loses-or-alters", "proplist_to_map lost or altered an entry", wit(json!({"map": mv.show()})));
                }
                // back is a permutation of the normalised input
                let as_pairs = |t: &OwnedTerm| -> Option<Vec<(Val, Val)>> {
                    match val_of(t) {
                        Val::Nil => Some(vec![]),
                        Val::List { elems, .. } => elems
                            .iter()
                            .map(|e| match e {
                                Val::Tuple(x) if x.len() == 2 => Some((x[0].clone(), x[1].clone())),
                                _ => None,
                            })
                            .collect(),
                        _ => None,
                    }
                };
                match (as_pairs(&back), as_pairs(&norm)) {
                    (Some(b), Some(nm)) => {
                        let same = b.len() == nm.len() && nm.iter().all(|(k, v)| b.iter().any(|(k2, v2)| erl_eq(k, k2) && erl_eq(v, v2)));
                        let norm_ok = nm.len() == expect.len() && expect.iter().all(|(k, v)| nm.iter().any(|(k2, v2)| k.same(k2) && v.same(v2)));
                        if !same {
                            ctx.viol("C20:proplist-map-proplist:not-a-permutation", "map_to_proplist(proplist_to_map(p)) is not a permutation of the normalised proplist", wit(json!({"back": val_of(&back).show()})));
                        }
                        if !norm_ok {
                            ctx.viol("C20:normalize_proplist:loses-or-alters", "normalize_proplist lost or altered an element of a well-formed proplist", wit(json!({"normalised": val_of(&norm).show()})));
                        }
                    }
                    _ => ctx.viol("C20:proplist:shape", "result is not a list of pairs", wit(json!({"back": val_of(&back).show()}))),
                }
                // map -> proplist -> map
                match guarded(|| map.map_to_proplist().and_then(|p| p.proplist_to_map())) {
                    Ok(Ok(m2)) => {
                        if !val_of(&m2).same(&val_of(&map)) {
                            ctx.viol("C20:map-proplist-map:differs", "proplist_to_map(map_to_proplist(m)) != m", wit(json!({"m": val_of(&map).show(), "m2": val_of(&m2).show()})));
                        }
                    }
                    Ok(Err(e)) => ctx.viol("C20:map-proplist-map:error", "error", wit(json!({"error": e.to_string()}))),
                    Err(p) => ctx.viol("C20:panic:proplist", "panic", wit(json!({"panic": p}))),
                }
                // recursive conversion keeps the top-level entries
                if let Ok(Ok(rec)) = guarded(|| pl.to_map_recursive()) {
                    if n > 0 && !elems.is_empty() && pl.is_proplist() {
                        if let Val::Map(e) = val_of(&rec) {
                            if e.len() != expect.len() {
                                ctx.viol("C20:to_map_recursive:entry-count", "to_map_recursive lost a top-level entry", wit(json!({"result": val_of(&rec).show()})));
                            }
                        }
                    }
                }
            }
            Ok(Err(e)) => ctx.viol("C20:proplist:error", "a well-formed proplist was refused", wit(json!({"error": e.to_string()}))),
            Err(p) => ctx.viol("C20:panic:proplist", "panic", wit(json!({"panic": p}))),
        }
    }
}

/// Nested property lists whose values are themselves property lists, plain lists, or lists that merely begin like a
/// property list (a bare atom or a pair in front, then something that is neither): the recursive conversion must turn
/// exactly the property lists into maps and keep every element of everything else.
fn recursive_conversion_checks(ctx: &Ctx, rng: &mut Rng) {
    fn nested(rng: &mut Rng, depth: usize, tag: &mut u32) -> (OwnedTerm, OwnedTerm, &'static str) {
        // returns (input, what the conversion has to produce, kind)
        *tag += 1;
        match if depth == 0 { rng.below(3) } else { rng.below(7) } {
            0 => (OwnedTerm::Integer(*tag as i64), OwnedTerm::Integer(*tag as i64), "leaf"),
            1 => (OwnedTerm::atom(&format!("v{}", tag)), OwnedTerm::atom(&format!("v{}", tag)), "leaf"),
            2 => (OwnedTerm::Binary(vec![*tag as u8; 3]), OwnedTerm::Binary(vec![*tag as u8; 3]), "leaf"),
            3 | 4 => {
                // a property list: pairs with distinct atom keys and bare atoms
                let n = 1 + rng.below(3);
                let mut input = Vec::new();
                let mut want = std::collections::BTreeMap::new();
                for i in 0..n {
                    *tag += 1;
                    let key = format!("k{}_{}", tag, i);
                    if rng.chance(1, 4) {
                        input.push(OwnedTerm::atom(&key));
                        want.insert(OwnedTerm::atom(&key), OwnedTerm::atom("true"));
                    } else {
                        let (vi, vw, _) = nested(rng, depth - 1, tag);
                        input.push(OwnedTerm::Tuple(vec![OwnedTerm::atom(&key), vi]));
                        want.insert(OwnedTerm::atom(&key), vw);
                    }
                }
                (OwnedTerm::List(input), OwnedTerm::Map(want), "proplist")
            }
            5 => {
                // begins like a property list, is none: every element stays (tuples as they are)
                *tag += 1;
                let head = if rng.bool() { OwnedTerm::atom(&format!("flag{}", tag)) } else { OwnedTerm::Tuple(vec![OwnedTerm::atom(&format!("opt{}", tag)), OwnedTerm::Integer(1)]) };
                let odd = match rng.below(3) {
                    0 => OwnedTerm::Integer(42),
                    1 => OwnedTerm::Tuple(vec![OwnedTerm::atom("a"), OwnedTerm::Integer(1), OwnedTerm::Integer(2)]),
                    _ => OwnedTerm::Tuple(vec![OwnedTerm::Integer(7), OwnedTerm::atom("int_key")]),
                };
                let mut input = vec![head];
                for _ in 0..rng.below(3) {
                    *tag += 1;
                    input.push(OwnedTerm::Tuple(vec![OwnedTerm::atom(&format!("p{}", tag)), OwnedTerm::Integer(*tag as i64)]));
                }
                let at = 1 + rng.below(input.len());
                input.insert(at, odd);
                (OwnedTerm::List(input.clone()), OwnedTerm::List(input), "begins-like-a-proplist")
            }
            _ => {
                let items: Vec<OwnedTerm> = (0..1 + rng.below(3)).map(|i| OwnedTerm::Integer(1000 + i as i64)).collect();
                (OwnedTerm::List(items.clone()), OwnedTerm::List(items), "plain-list")
            }
        }
    }
    for _ in 0..ctx.pick(600, 60_000) {
        ctx.eval(1);
        let mut tag = 0u32;
        let (input, want, kind) = nested(rng, 3, &mut tag);
        ctx.class(&format!("to_map_recursive/{}", kind));
        match guarded(|| input.to_map_recursive()) {
            Ok(Ok(got)) => {
                if !val_of(&got).same(&val_of(&want)) {
                    let shown = format!("{}|{}", val_of(&input).show(), val_of(&got).show());
                    let cause = if shown.contains("flag") || shown.contains("opt") { "a-list-that-only-begins-like-a-proplist" } else { "other" };
                    ctx.viol(&format!("C20:to_map_recursive:loses-or-alters:{}", cause), "the recursive conversion does not turn exactly the property lists into maps and keep everything else", json!({"input": val_of(&input).show(), "result": val_of(&got).show(), "expected": val_of(&want).show()}));
                }
            }
            Ok(Err(e)) => ctx.viol("C20:to_map_recursive:error", "the recursive conversion failed on well-formed input", json!({"input": val_of(&input).show(), "error": e.to_string()})),
            Err(p) => ctx.viol("C20:panic:proplist", "panic", json!({"input": val_of(&input).show(), "panic": p})),
        }
    }
}

fn builder_checks(ctx: &Ctx, rng: &mut Rng) {
    const KEYS: &[&str] = &["a", "b", "name", "Elixir.K", "", "ключ", "timeout", "__struct__"];
    for _ in 0..ctx.pick(800, 80_000) {
        ctx.eval(1);
        let n = rng.below(8);
        let mut kw = if rng.bool() { KeywordListBuilder::new() } else { KeywordListBuilder::with_capacity(rng.below(4)) };
        let mut mb = AtomKeyMapBuilder::new();
        // the models: a keyword list keeps every pair in order; a map keeps the value put last under a key
        let mut model_list: Vec<(String, Val)> = Vec::new();
        let mut model_map: BTreeMap<String, Val> = BTreeMap::new();
        let mut ops: Vec<String> = Vec::new();
        let mut len_ok = true;
        for _ in 0..n {
            let key: &'static str = *rng.pick(KEYS);
            let op = rng.below(8);
            match op {
                0 => {
                    let v = member(rng);
                    model_list.push((key.to_string(), val_of(&v)));
                    model_map.insert(key.to_string(), val_of(&v));
                    kw = kw.put_term(key, v.clone());
                    mb = mb.insert_term(key, v);
                    ops.push(format!("put_term/insert_term {:?}", key));
                }
                1 => {
                    let x = *rng.pick(I64S);
                    model_list.push((key.to_string(), Val::int(x as i128)));
                    model_map.insert(key.to_string(), Val::int(x as i128));
                    kw = kw.put(key, x);
                    mb = mb.insert(key, x);
                    ops.push(format!("put/insert {:?} {}", key, x));
                }
                2 => {
                    let a = *rng.pick(&["ok", "nil", "", "true", "Elixir.V"]);
                    model_list.push((key.to_string(), Val::atom(a)));
                    model_map.insert(key.to_string(), Val::atom(a));
                    kw = kw.put_atom(key, a);
                    mb = mb.insert_atom(key, a);
                    ops.push(format!("put_atom/insert_atom {:?} {:?}", key, a));
                }
                3 => {
                    model_list.push((key.to_string(), Val::atom("true")));
                    kw = kw.put_flag(key);
                    ops.push(format!("put_flag {:?}", key));
                }
                4 => {
                    let cond = rng.bool();
                    let x = rng.range(-5, 5);
                    if cond {
                        model_list.push((key.to_string(), Val::int(x as i128)));
                        model_map.insert(key.to_string(), Val::int(x as i128));
                    }
                    kw = kw.put_if(cond, key, x);
                    mb = mb.insert_if(cond, key, x);
                    ops.push(format!("put_if/insert_if {} {:?} {}", cond, key, x));
                }
                5 => {
                    let x: Option<i64> = if rng.bool() { Some(rng.range(-5, 5)) } else { None };
                    if let Some(x) = x {
                        model_list.push((key.to_string(), Val::int(x as i128)));
                        model_map.insert(key.to_string(), Val::int(x as i128));
                    }
                    kw = kw.put_some(key, x);
                    mb = mb.insert_some(key, x);
                    ops.push(format!("put_some/insert_some {:?} {:?}", key, x));
                }
                _ => {
                    // several pairs at once, keys that are already there and keys repeated within the batch included
                    let batch: Vec<(&'static str, i64)> = (0..rng.below(4)).map(|_| (*rng.pick(KEYS), rng.range(100, 110))).collect();
                    for (k, x) in &batch {
                        model_list.push((k.to_string(), Val::int(*x as i128)));
                        model_map.insert(k.to_string(), Val::int(*x as i128));
                    }
                    kw = kw.extend(batch.clone());
                    mb = mb.extend(batch.clone());
                    ops.push(format!("extend {:?}", batch));
                }
            }
            if kw.len() != model_list.len() || mb.len() != model_map.len() || kw.is_empty() != model_list.is_empty() || mb.is_empty() != model_map.is_empty() {
                len_ok = false;
            }
        }
        ctx.class(&format!("builders/{}ops{}", n, if ops.iter().any(|o| o.starts_with("extend")) { "/extend" } else { "" }));
        if !len_ok {
            ctx.viol("C20:builder:len", "len()/is_empty() of a builder disagree with the pairs that were put in", json!({"operations": ops}));
        }
        let as_struct = rng.chance(1, 4);
        let l = kw.build();
        let want_l = if model_list.is_empty() { Val::Nil } else { Val::list(model_list.iter().map(|(k, v)| Val::Tuple(vec![Val::atom(k), v.clone()])).collect()) };
        let m = if as_struct {
            model_map.insert("__struct__".to_string(), Val::atom("Elixir.Verif.Built"));
            mb.build_struct("Verif.Built")
        } else {
            mb.build()
        };
        let want_m = Val::Map(model_map.iter().map(|(k, v)| (Val::atom(k), v.clone())).collect());
        for (what, got, want) in [("KeywordListBuilder", &l, &want_l), ("AtomKeyMapBuilder", &m, &want_m)] {
            let same = match (val_of(got), want) {
                (Val::Map(a), Val::Map(b)) => a.len() == b.len() && b.iter().all(|(k, v)| a.iter().any(|(k2, v2)| k2.same(k) && v2.same(v))),
                (a, b) => a.same(b),
            };
            if !same {
                ctx.viol(&format!("C20:builder:{}", what), "the built term is not the keys/values that were put in", json!({"operations": ops, "built": val_of(got).show(), "model": want.show()}));
            }
            if let Some(w) = erltf::encode(got).ok().and_then(|b| erltf::decode(&b).ok()) {
                if !val_of(&w).same(&val_of(got)) {
                    ctx.viol(&format!("C20:builder-wire:{}", what), "the built term changes across the wire", json!({"built": val_of(got).show(), "after": val_of(&w).show()}));
                }
            }
        }
    }
}

// ---- derived struct mappings -------------------------------------------------------------------------------

#[derive(Debug, Clone, PartialEq, erltf_serde::ElixirStruct)]
#[elixir_module = "Verif.Raw"]
struct DRaw {
    r#type: String,
    r#ref: i64,
    r#fn: Option<bool>,
    plain: Vec<u16>,
}

#[derive(Debug, Clone, PartialEq, erltf_serde::ElixirStruct)]
#[elixir_module = "Verif.One"]
struct DOne {
    only: u64,
}

#[derive(Debug, Clone, PartialEq, erltf_serde::ElixirStruct)]
#[elixir_module = "Verif.Empty"]
struct DEmpty {}

#[derive(Debug, Clone, PartialEq, erltf_serde::ElixirStruct)]
#[elixir_module = "Verif.Nested"]
struct DNested {
    inner: DRaw,
    list: Vec<DOne>,
    maybe: Option<DRaw>,
    pair: (DOne, DEmpty),
    by_name: BTreeMap<String, DOne>,
    // field names that are words of the term format or of the generated code
    nil: u8,
    undefined: u8,
    r#true: bool,
    value: i32,
    module: String,
    __meta__: f64,
}

fn derived_rt<T: serde::Serialize + serde::de::DeserializeOwned + PartialEq + Debug>(ctx: &Ctx, name: &str, module: Option<&str>, fields: usize, x: &T) {
    ctx.class(&format!("derived/{}", name));
    ctx.eval(1);
    let t = match guarded(|| erltf_serde::to_term(x)) {
        Ok(Ok(t)) => t,
        Ok(Err(e)) => {
            ctx.viol(&format!("C20:derived:to_term-error:{}", name), "a derived struct mapping cannot be converted to a term", json!({"value": show(x), "error": e.to_string()}));
            return;
        }
        Err(p) => {
            ctx.viol(&format!("C20:panic:to_term:derived/{}", name), "panic", json!({"value": show(x), "panic": p}));
            return;
        }
    };
    // shape: a map with atom keys, one of them __struct__ => the module atom, one per field
    match (module, val_of(&t)) {
        (None, _) => {}
        (Some(module), Val::Map(entries)) => {
            let tag = entries.iter().find(|(k, _)| matches!(k, Val::Atom(a) if a == "__struct__")).map(|(_, v)| v.clone());
            let want = Val::Atom(format!("Elixir.{}", module));
            if !matches!(&tag, Some(v) if v.same(&want)) || entries.len() != fields + 1 || entries.iter().any(|(k, _)| !matches!(k, Val::Atom(_))) {
                ctx.viol(&format!("C20:derived:term-shape:{}", name), "the term of a derived struct mapping is not %Module{field: ...}", json!({"term": val_of(&t).show()}));
            }
        }
        (_, other) => ctx.viol(&format!("C20:derived:term-shape:{}", name), "the term of a derived struct mapping is not a map", json!({"term": other.show()})),
    }
    match guarded(|| erltf_serde::from_term::<T>(&t)) {
        Ok(Ok(back)) => {
            if &back != x {
                ctx.viol(&format!("C20:memory:altered:derived/{}", name), "from_term(to_term(x)) returned another value", json!({"value": show(x), "back": show(&back)}));
            }
        }
        Ok(Err(e)) => ctx.viol(&format!("C20:memory:rejected:derived/{}", name), "the mapping rejects its own term", json!({"value": show(x), "term": val_of(&t).show(), "error": e.to_string()})),
        Err(p) => ctx.viol(&format!("C20:panic:from_term:derived/{}", name), "panic", json!({"value": show(x), "panic": p})),
    }
    ctx.eval(1);
    match guarded(|| erltf_serde::to_bytes(x).and_then(|b| erltf_serde::from_bytes::<T>(&b))) {
        Ok(Ok(back)) => {
            if &back != x {
                ctx.viol(&format!("C20:wire:altered:derived/{}", name), "from_bytes(to_bytes(x)) returned another value", json!({"value": show(x), "back": show(&back)}));
            }
        }
        Ok(Err(e)) => ctx.viol(&format!("C20:wire:rejected:derived/{}", name), "the mapping rejects its own bytes", json!({"value": show(x), "error": e.to_string()})),
        Err(p) => ctx.viol(&format!("C20:panic:from_bytes:derived/{}", name), "panic", json!({"value": show(x), "panic": p})),
    }
    // the same through the plain codec: encode the term, decode it, read the struct from that
    ctx.eval(1);
    if let Ok(Some(wire)) = guarded(|| erltf::encode(&t).ok().and_then(|b| erltf::decode(&b).ok())) {
        match guarded(|| erltf_serde::from_term::<T>(&wire)) {
            Ok(Ok(back)) if &back == x => {}
            Ok(Ok(back)) => ctx.viol(&format!("C20:wire:altered:derived/{}", name), "the value changes across encode/decode of its term", json!({"value": show(x), "back": show(&back)})),
            Ok(Err(e)) => ctx.viol(&format!("C20:wire:rejected:derived/{}", name), "the mapping rejects its own term after encode/decode", json!({"value": show(x), "error": e.to_string()})),
            Err(p) => ctx.viol(&format!("C20:panic:from_term:derived/{}", name), "panic", json!({"value": show(x), "panic": p})),
        }
    }
}

/// A term of another struct, or one that lacks a field, is not this struct.
fn derived_wrong_shape<T: serde::de::DeserializeOwned + Debug>(ctx: &Ctx, name: &str, kind: &str, t: &OwnedTerm) {
    ctx.class(&format!("derived-mutation/{}/{}", name, kind));
    ctx.eval(1);
    match guarded(|| erltf_serde::from_term::<T>(t)) {
        Ok(Ok(v)) => ctx.viol(&format!("C20:derived:accepts-{}:{}", kind, name), "a term of the wrong shape was accepted as the struct", json!({"input": val_of(t).show(), "made": show(&v)})),
        Ok(Err(_)) => {}
        Err(p) => ctx.viol(&format!("C20:panic:from_term:derived/{}", name), "panic on a mutated term", json!({"input": val_of(t).show(), "panic": p})),
    }
}

fn derived_checks(ctx: &Ctx, rng: &mut Rng) {
    let n = ctx.pick(200usize, 20_000usize);
    for _ in 0..n {
        if !ctx.time_left() {
            break;
        }
        let raw = |rng: &mut Rng| DRaw { r#type: text(rng), r#ref: *rng.pick(I64S), r#fn: *rng.pick(&[None, Some(true), Some(false)]), plain: (0..rng.below(4)).map(|_| rng.next_u32() as u16).collect() };
        let one = |rng: &mut Rng| DOne { only: *rng.pick(&[0u64, 1, 255, 256, u32::MAX as u64, 1 << 40, i64::MAX as u64, u64::MAX]) };
        let r = raw(rng);
        derived_rt(ctx, "raw-identifier-fields", Some("Verif.Raw"), 4, &r);
        let o = one(rng);
        derived_rt(ctx, "one-field", Some("Verif.One"), 1, &o);
        derived_rt(ctx, "no-fields", Some("Verif.Empty"), 0, &DEmpty {});
        let nested = DNested {
            inner: raw(rng),
            list: (0..rng.below(3)).map(|_| one(rng)).collect(),
            maybe: if rng.bool() { Some(raw(rng)) } else { None },
            pair: (one(rng), DEmpty {}),
            by_name: (0..rng.below(3)).map(|_| (text(rng), one(rng))).collect(),
            nil: rng.next_u32() as u8,
            undefined: rng.next_u32() as u8,
            r#true: rng.bool(),
            value: rng.next_u32() as i32,
            module: text(rng),
            __meta__: (rng.next_u32() as f64) / 7.0,
        };
        derived_rt(ctx, "nested", Some("Verif.Nested"), 11, &nested);
        derived_rt(ctx, "Vec<derived>", None, 0, &Wrapped(vec![raw(rng), raw(rng)]));
        // wrong shapes
        if let Ok(OwnedTerm::Map(m)) = erltf_serde::to_term(&r) {
            derived_wrong_shape::<DOne>(ctx, "one-field", "other-struct", &OwnedTerm::Map(m.clone()));
            let mut other = m.clone();
            other.insert(OwnedTerm::atom("__struct__"), OwnedTerm::atom("Elixir.Verif.Other"));
            derived_wrong_shape::<DRaw>(ctx, "raw-identifier-fields", "other-module", &OwnedTerm::Map(other));
            let keys: Vec<OwnedTerm> = m.keys().filter(|k| !matches!(k, OwnedTerm::Atom(a) if a.as_str() == "__struct__")).cloned().collect();
            let mut less = m.clone();
            less.remove(rng.pick(&keys));
            derived_wrong_shape::<DRaw>(ctx, "raw-identifier-fields", "missing-field", &OwnedTerm::Map(less));
            let mut wrong = m.clone();
            wrong.insert(rng.pick(&keys).clone(), OwnedTerm::Tuple(vec![]));
            derived_wrong_shape::<DRaw>(ctx, "raw-identifier-fields", "wrong-type", &OwnedTerm::Map(wrong));
            // another struct's term that carries keys the mapping does not know, sorting before and after everything
            // it does know (a map is visited in key order, so this moves the tag away from the first place)
            for extra in ["A", "Meta", "_", "__a__", "zzz", "", "0"] {
                let mut other = m.clone();
                other.insert(OwnedTerm::atom("__struct__"), OwnedTerm::atom("Elixir.Verif.Other"));
                other.insert(OwnedTerm::atom(extra), OwnedTerm::Integer(1));
                derived_wrong_shape::<DRaw>(ctx, "raw-identifier-fields", "other-module-with-an-unknown-key", &OwnedTerm::Map(other));
            }
        }
        // the same for a mapping one of whose own fields sorts before the tag
        if let Ok(OwnedTerm::Map(m)) = erltf_serde::to_term(&nested) {
            let mut other = m.clone();
            other.insert(OwnedTerm::atom("__struct__"), OwnedTerm::atom("Elixir.Verif.Other"));
            derived_wrong_shape::<DNested>(ctx, "nested", "other-module", &OwnedTerm::Map(other.clone()));
            other.remove(&OwnedTerm::atom("__struct__"));
            other.insert(OwnedTerm::atom("__struct__"), OwnedTerm::atom("Verif.Nested"));
            derived_wrong_shape::<DNested>(ctx, "nested", "module-without-the-Elixir-prefix", &OwnedTerm::Map(other));
        }
    }
}

/// A sequence of derived structs (the shape check of `derived_rt` is for a single struct, so it gets its own path).
#[derive(Debug, Clone, PartialEq, serde::Serialize, serde::Deserialize)]
struct Wrapped(Vec<DRaw>);

pub fn run(ctx: &Ctx) {
    ctx.rule("cases = every Elixir wrapper (Range, MapSet, Date, Time, NaiveDateTime, DateTime, 12 exception structs, derive(ElixirStruct) mappings incl. raw-identifier fields, no fields, nested mappings and fields named like words of the format) with field values from the extremes grid + random values, converted to a term and back in memory and across encode/decode; mutated terms (missing key, wrong type, out-of-range / negative / big integer, other struct) must be rejected or accepted without fabricating a field; Range len/contains/iteration/size_hint against an i128 reference over a bounds x steps grid incl. extremes (debug and release builds); proplist<->map helpers on well-formed proplists with distinct keys; the recursive conversion on nested property lists whose values are property lists, plain lists and lists that merely begin like one, against a model; keyword-list / atom-key-map builders driven through every method (put/insert in all flavours, conditional ones, extend with keys already present or repeated, build / build_struct) against a model; distinct = distinct (wrapper, value class) / (range class) / (mutation kind) labels");
    ctx.assume("ElixirRange::len saturates at usize::MAX for MIN..MAX//1 (2^64 elements) in the reference; members of sets/exceptions are compared by denoted value across the wire");
    let mut rng = Rng::derive(ctx.seed, 20, 1);
    range_checks(ctx, &mut rng);
    // wrappers
    let u8s: &[u8] = &[0, 1, 12, 13, 23, 24, 31, 59, 60, 255];
    let n = ctx.pick(400usize, 40_000usize);
    for i in 0..n {
        if !ctx.time_left() {
            break;
        }
        let big = |rng: &mut Rng| *rng.pick(I64S);
        let r = ElixirRange::new(big(&mut rng), big(&mut rng), *rng.pick(&[i64::MIN, -1, 0, 1, 2, i64::MAX, 1 << 33]));
        let rc = if [r.first, r.last, r.step].iter().any(|v| *v > i32::MAX as i64 || *v < i32::MIN as i64) { "beyond-i32" } else { "fits-i32" };
        roundtrip(ctx, &r, rc);
        mutations(ctx, &mut rng, &r);
        let set = ElixirMapSet::from_values((0..rng.below(5)).map(|_| member(&mut rng)).collect::<Vec<_>>());
        let twins = |members: &[OwnedTerm]| {
            let vs: Vec<Val> = members.iter().map(val_of).collect();
            vs.iter().enumerate().any(|(i, a)| vs[i + 1..].iter().any(|b| !a.same(b) && crate::refmodel::val::erl_eq(a, b)))
        };
        let members: Vec<OwnedTerm> = set.iter().cloned().collect();
        roundtrip(ctx, &set, if set.is_empty() { "empty" } else if twins(&members) { "members:int~float-twins" } else { "members" });
        if i == 0 {
            // members that are distinct in Elixir (===) but numerically equal: the term's map cannot hold both keys
            let tw = ElixirMapSet::from_values(vec![OwnedTerm::Integer(1), OwnedTerm::Float(1.0), OwnedTerm::atom("x")]);
            roundtrip(ctx, &tw, "members:int~float-twins");
        }
        let year = *rng.pick(&[i32::MIN, -1, 0, 1, 1970, 2024, 9999, 10000, i32::MAX]);
        let d = ElixirDate::new(year, *rng.pick(u8s), *rng.pick(u8s));
        let yc = if year == i32::MIN || year == i32::MAX { "year-extreme" } else { "year" };
        roundtrip(ctx, &d, yc);
        mutations(ctx, &mut rng, &d);
        let us = *rng.pick(&[0u32, 1, 999_999, 1_000_000, i32::MAX as u32, i32::MAX as u32 + 1, u32::MAX]);
        let usc = if us > i32::MAX as u32 { "microsecond>i32" } else { "microsecond" };
        let mut t = ElixirTime::new(*rng.pick(u8s), *rng.pick(u8s), *rng.pick(u8s), us, 6);
        t.microsecond_precision = *rng.pick(&[0u8, 1, 3, 6, 7, 255]);
        roundtrip(ctx, &t, usc);
        mutations(ctx, &mut rng, &t);
        let mut nd = ElixirNaiveDateTime::new(year, *rng.pick(u8s), *rng.pick(u8s), *rng.pick(u8s), *rng.pick(u8s), *rng.pick(u8s), us, 6);
        nd.microsecond_precision = *rng.pick(&[0u8, 6, 7]);
        roundtrip(ctx, &nd, &format!("{}/{}", yc, usc));
        mutations(ctx, &mut rng, &nd);
        let off = *rng.pick(&[i32::MIN, -3600, 0, 3600, i32::MAX]);
        let dt = ElixirDateTime::with_timezone(year, *rng.pick(u8s), *rng.pick(u8s), *rng.pick(u8s), *rng.pick(u8s), *rng.pick(u8s), us.min(999_999), *rng.pick(&[0u8, 3, 6]), &text(&mut rng), &text(&mut rng), off, *rng.pick(&[0, 3600, i32::MIN]));
        // every public field is settable: values the constructors would have clamped included
        let mut dt = dt;
        dt.microsecond_precision = *rng.pick(&[0u8, 1, 3, 6, 6, 7, 9, 255]);
        dt.microsecond_value = *rng.pick(&[0u32, 1, 999_999, 1_000_000, u32::MAX]).min(&us.max(1));
        if rng.chance(1, 4) {
            dt.month = *rng.pick(u8s);
            dt.second = *rng.pick(u8s);
        }
        let dtc = if dt.microsecond_precision > 6 { "precision>6" } else if off == i32::MIN || off == i32::MAX { "offset-extreme" } else { "offset" };
        roundtrip(ctx, &dt, dtc);
        mutations(ctx, &mut rng, &dt);
        roundtrip(ctx, &ArgumentError::new(text(&mut rng)), "message");
        roundtrip(ctx, &RuntimeError::new(text(&mut rng)), "message");
        roundtrip(ctx, &ArithmeticError::new(text(&mut rng)), "message");
        let ke = if rng.bool() { KeyError::new(member(&mut rng), member(&mut rng)) } else { KeyError::with_message(member(&mut rng), member(&mut rng), text(&mut rng)) };
        roundtrip(ctx, &ke, if ke.message.is_some() { "with-message" } else { "no-message" });
        roundtrip(ctx, &MatchError::new(member(&mut rng)), "term");
        roundtrip(ctx, &BadMapError::new(member(&mut rng)), "term");
        roundtrip(ctx, &BadFunctionError::new(member(&mut rng)), "term");
        roundtrip(ctx, &CaseClauseError::new(member(&mut rng)), "term");
        roundtrip(ctx, &WithClauseError::new(member(&mut rng)), "term");
        roundtrip(ctx, &CondClauseError::new(), "unit");
        let m = ident(&mut rng);
        let ufe = if rng.bool() { UndefinedFunctionError::new(m.clone(), "f", *rng.pick(u8s)) } else { UndefinedFunctionError::with_reason(m.clone(), "f", 2, text(&mut rng)) };
        roundtrip(ctx, &ufe, if m.starts_with("Elixir.") { "module-with-Elixir-prefix" } else { "module" });
        mutations(ctx, &mut rng, &ufe);
        let fce = if rng.chance(1, 4) { FunctionClauseError::empty() } else { FunctionClauseError::new(m.clone(), "g", *rng.pick(u8s), {
            // args == nil is how an absent argument list is written: inherently indistinguishable
            let a = member(&mut rng);
            if a.is_nil_atom() { OwnedTerm::Nil } else { a }
        }) };
        roundtrip(ctx, &fce, if fce.module.is_none() { "empty" } else if m.starts_with("Elixir.") { "module-with-Elixir-prefix" } else { "module" });
        if i % 53 == 0 {
            ctx.sample(json!({"wrapper": "DateTime", "value": show(&dt), "term": val_of(&OwnedTerm::from(dt.clone())).show()}));
        }
    }
    proplist_checks(ctx, &mut rng);
    recursive_conversion_checks(ctx, &mut rng);
    builder_checks(ctx, &mut rng);
    derived_checks(ctx, &mut rng);
}
