//! C13 – the zero-copy decoder agrees with the owned decoder.

use super::common::{guarded, kinds_mask};
use crate::genr::bytes::mutate;
use crate::genr::val::{Gen, GenCfg, boundary_leaves, skeletons};
use crate::out::{Ctx, hex_cap};
use crate::refmodel::denote::deep_eq;
use crate::refmodel::encode::{Opts, RandomChooser, ref_encode};
use crate::refmodel::val::Val;
use crate::rng::Rng;
use serde_json::json;

fn first_tag_after_error(bytes: &[u8], offset: usize) -> u8 {
    bytes.get(offset).copied().unwrap_or(0)
}

const MODERN_TAGS: &[u8] = &[70, 77, 88, 89, 90, 97, 98, 104, 105, 106, 107, 108, 109, 110, 111, 112, 113, 116, 118, 119, 120];

/// `valid_modern`: the input is, by construction, a valid encoding built only from modern tags.
pub fn check(ctx: &Ctx, x: &[u8], valid_modern: Option<&Val>, origin: &str) {
    ctx.eval(1);
    let owned = match guarded(|| erltf::decode(x)) {
        Ok(r) => r,
        Err(_) => {
            ctx.count("owned_panics_left_to_C02", 1);
            return;
        }
    };
    let borrowed = match guarded(|| erltf::decode_borrowed(x).map(|t| t.to_owned())) {
        Ok(r) => r,
        Err(_) => {
            ctx.count("borrowed_panics_left_to_C02", 1);
            return;
        }
    };
    let wit = |d: serde_json::Value| json!({"origin": origin, "bytes": hex_cap(x, 160), "detail": d});
    match (&borrowed, &owned) {
        (Ok(b), Ok(o)) => {
            ctx.count("both_accept", 1);
            if !deep_eq(b, o) {
                let (l, r) = super::c11::leaf_pair(b, o);
                ctx.viol(
                    &format!("C13:values-differ:{}~{}", super::c11::variant(l), super::c11::variant(r)),
                    "decode_borrowed(x).to_owned() != decode(x)",
                    wit(json!({"borrowed": format!("{:?}", b).chars().take(300).collect::<String>(), "owned": format!("{:?}", o).chars().take(300).collect::<String>()})),
                );
            }
        }
        (Ok(b), Err(e)) => {
            ctx.viol(
                &format!("C13:borrowed-accepts-owned-rejects:{}", super::c11::variant(b)),
                "the zero-copy decoder accepts an input the owned decoder rejects",
                wit(json!({"owned_error": e.to_string(), "borrowed": format!("{:?}", b).chars().take(300).collect::<String>()})),
            );
        }
        (Err(ce), Ok(_)) => {
            ctx.count("owned_only_accepts", 1);
            if let Some(v) = valid_modern {
                let tag = first_tag_after_error(x, ce.context.byte_offset);
                ctx.viol(
                    &format!("C13:borrowed-rejects-modern:tag{}", tag),
                    "the zero-copy decoder rejects a valid modern encoding that the owned decoder accepts",
                    wit(json!({"value": v.show(), "error": ce.to_string(), "offset": ce.context.byte_offset})),
                );
            }
        }
        (Err(_), Err(_)) => {
            ctx.count("both_reject", 1);
        }
    }
    if let Err(ce) = &borrowed {
        if ce.context.byte_offset > x.len() {
            ctx.viol(
                "C13:offset-out-of-range",
                "reported error offset lies outside the input",
                wit(json!({"offset": ce.context.byte_offset, "len": x.len(), "error": ce.to_string()})),
            );
        }
    }
}

/// For well-formed deep nestings the two decoders must agree on acceptance as well.
fn check_nesting(ctx: &Ctx, x: &[u8], origin: &str) {
    let o = guarded(|| erltf::decode(x).is_ok());
    let b = guarded(|| erltf::decode_borrowed(x).is_ok());
    if let (Ok(o), Ok(b)) = (o, b) {
        if o != b {
            ctx.eval(1);
            ctx.viol(
                if b { "C13:borrowed-accepts-owned-rejects:nesting-limit" } else { "C13:borrowed-rejects-modern:nesting-limit" },
                "the two decoders draw the nesting limit at different depths",
                json!({"origin": origin, "owned_accepts": o, "borrowed_accepts": b, "bytes": hex_cap(x, 24), "len": x.len()}),
            );
            return;
        }
    }
    check(ctx, x, None, origin);
}

pub fn run(ctx: &Ctx) {
    ctx.rule("inputs = valid encodings restricted to the modern tag set (from the independent writer) + valid encodings over all admissible tags incl. legacy ones (agreement where both accept) + every valid input with one place spelled another way the format offers (judged as a valid modern input when an independent reader parses it and meets modern tags only) + inputs at and just past the decoders' size limits with the payload really present (binaries and bit-strings of 10^8 bytes, maps of 10^6 entries, atoms of 65535 bytes) + their truncations at every offset + byte mutations/splices + random bytes; distinct = distinct (outcome pair of the two decoders, first tag byte, input-length bucket, value-kind set for valid inputs)");
    ctx.assume("modern tag set = 70,77,88,89,90,97,98,104..111,112,113,116,118,119,120 (what OTP 26+ emits over distribution)");
    let opts = Opts { modern_only: true, ..Opts::default() };
    let mut rng = Rng::derive(ctx.seed, 13, 1);
    let mut grng = Rng::derive(ctx.seed, 13, 2);
    let mut corpus: Vec<(Val, Vec<u8>)> = Vec::new();
    for leaf in boundary_leaves(false) {
        for v in skeletons(&leaf).into_iter().take(4) {
            let mut ch = RandomChooser { rng: &mut rng, legacy_bias: 50, taken: vec![] };
            if let Ok(b) = ref_encode(&v, &mut ch, &opts) {
                corpus.push((v, b));
            }
        }
    }
    // every small structure (lists of empty lists, tuples of empty tuples ...), bare and placed
    {
        let small = crate::genr::small::all_small_values();
        let stride = ctx.pick(3usize, 1usize);
        for (i, v) in small.iter().enumerate() {
            let placed = crate::genr::small::placed(v);
            for (j, w) in placed.iter().enumerate() {
                if j > 0 && (i + j) % stride != 0 {
                    continue;
                }
                let mut ch = RandomChooser { rng: &mut rng, legacy_bias: 10, taken: vec![] };
                if let Ok(b) = ref_encode(w, &mut ch, &opts) {
                    corpus.push((w.clone(), b));
                }
            }
        }
    }
    let n_random = ctx.pick(6_000usize, 300_000usize);
    for _ in 0..n_random {
        let cfg = GenCfg { max_depth: 2 + grng.below(5), max_nodes: 4 + grng.below(50), float_keys: true, ..GenCfg::default() };
        let v = {
            let mut g = Gen::new(&mut grng, cfg);
            g.value()
        };
        let mut ch = RandomChooser { rng: &mut rng, legacy_bias: 50, taken: vec![] };
        if let Ok(b) = ref_encode(&v, &mut ch, &opts) {
            corpus.push((v, b));
        }
    }
    // the same values in every admissible encoding, legacy tags included (Latin-1 atoms, text floats, old
    // identifier tags, STRING_EXT ...): the zero-copy decoder may reject these, but where it accepts it must agree
    let n_modern = corpus.len();
    {
        let legacy = Opts { allow_local: true, ..Opts::default() };
        for leaf in boundary_leaves(false) {
            for v in skeletons(&leaf).into_iter().take(3) {
                for bias in [60u32, 95] {
                    let mut ch = RandomChooser { rng: &mut rng, legacy_bias: bias, taken: vec![] };
                    if let Ok(b) = ref_encode(&v, &mut ch, &legacy) {
                        corpus.push((v.clone(), b));
                    }
                }
            }
        }
        for _ in 0..n_random / 2 {
            let cfg = GenCfg { max_depth: 2 + grng.below(4), max_nodes: 4 + grng.below(30), float_keys: true, ..GenCfg::default() };
            let v = {
                let mut g = Gen::new(&mut grng, cfg);
                g.value()
            };
            let mut ch = RandomChooser { rng: &mut rng, legacy_bias: 80, taken: vec![] };
            if let Ok(b) = ref_encode(&v, &mut ch, &legacy) {
                corpus.push((v, b));
            }
        }
    }
    let cls = |ctx: &Ctx, x: &[u8], kind: &str| {
        let o = erltf::decode(x).is_ok();
        let b = erltf::decode_borrowed(x).is_ok();
        ctx.class(&format!("{}/{}{}/{}/{}", kind, o as u8, b as u8, x.get(1).copied().unwrap_or(0), match x.len() { 0..=4 => 0, 5..=16 => 1, 17..=64 => 2, 65..=512 => 3, _ => 4 }));
    };
    for (i, (v, b)) in corpus.iter().enumerate() {
        if !ctx.time_left() {
            break;
        }
        if i < n_modern {
            ctx.class(&format!("valid/{:x}", kinds_mask(v)));
            check(ctx, b, Some(v), "valid modern encoding");
        } else {
            ctx.class(&format!("valid-any-tag/{:x}", kinds_mask(v)));
            check(ctx, b, None, "valid encoding using legacy tags");
        }
        if i % 4001 == 0 {
            ctx.sample(json!({"value": v.show(), "bytes": hex_cap(b, 48)}));
        }
        // truncation at every offset (short inputs) or sampled offsets
        if b.len() <= 200 || i % 50 == 0 {
            let step = if b.len() <= 200 { 1 } else { b.len() / 97 + 1 };
            let mut k = 0;
            while k < b.len() {
                cls(ctx, &b[..k], "trunc");
                check(ctx, &b[..k], None, "truncation");
                k += step;
            }
        }
        // one place spelled another way: whatever the owned decoder makes of it, the zero-copy one must make the same
        if b.len() <= 600 {
            for (how, m) in crate::genr::bytes::respellings(b, ctx.pick(40, 400)) {
                ctx.class(&format!("respelled/{}", how));
                // if an independent reader parses the whole input and meets modern tags only, the input is "built only
                // from the tags current OTP releases emit": the zero-copy decoder then has to accept whenever the owned does
                let modern: Option<Val> = if m.first() == Some(&131) {
                    let mut r = crate::refmodel::decode::Reader::new(&m[1..]);
                    r.allow_local = false;
                    match r.term(0) {
                        Ok(v) if r.pos == m.len() - 1 && (0..=255u8).all(|t| r.tags_seen[(t >> 6) as usize] & (1u64 << (t & 63)) == 0 || MODERN_TAGS.contains(&t)) => Some(v),
                        _ => None,
                    }
                } else {
                    None
                };
                if modern.is_some() {
                    ctx.count("respelled_inputs_that_are_valid_and_modern", 1);
                }
                check(ctx, &m, modern.as_ref(), "one place spelled another way");
            }
        }
        // mutations
        let donor = &corpus[rng.below(corpus.len())].1;
        let rounds = ctx.pick(4, 12);
        let mut cur = b.clone();
        for r in 0..rounds {
            cur = mutate(&mut rng, if r % 3 == 0 { b } else { &cur }, donor);
            if cur.len() > 1 << 16 {
                break;
            }
            cls(ctx, &cur, "mut");
            check(ctx, &cur, None, "mutation");
        }
    }
    // at and just past the decoders' size limits, with the payload really there (a declared size alone is refused by
    // both for want of data): whatever the owned decoder makes of it, the zero-copy one must make the same
    {
        let big = |tag: &[u8], n: usize, tail: &[u8]| {
            let mut v = Vec::with_capacity(n + 16);
            v.push(131);
            v.extend_from_slice(tag);
            v.extend_from_slice(&(n as u32).to_be_bytes());
            v.extend_from_slice(tail);
            v.resize(v.len() + n, 0x5a);
            v
        };
        for n in [99_999_999usize, 100_000_000, 100_000_001] {
            ctx.class(&format!("limits/binary/{}", if n > 100_000_000 { "over" } else { "within" }));
            check(ctx, &big(&[109], n, &[]), None, "binary around the size limit");
            ctx.class(&format!("limits/bit-binary/{}", if n > 100_000_000 { "over" } else { "within" }));
            check(ctx, &big(&[77], n, &[3]), None, "bit-string around the size limit");
            let mut nested = vec![131u8, 104, 2, 97, 1];
            nested.extend_from_slice(&big(&[109], n, &[])[1..]);
            check(ctx, &nested, None, "binary around the size limit inside a tuple");
        }
        for n in [999_999usize, 1_000_000, 1_000_001] {
            let mut m = vec![131u8, 116];
            m.extend_from_slice(&(n as u32).to_be_bytes());
            for k in 0..n as u32 {
                m.push(98);
                m.extend_from_slice(&k.to_be_bytes());
                m.push(106);
            }
            ctx.class(&format!("limits/map/{}", if n > 1_000_000 { "over" } else { "within" }));
            check(ctx, &m, None, "map around the size limit");
        }
        for n in [65_535usize, 65_536] {
            // atoms of the greatest length the two-byte field can announce, in both encodings
            for tag in [118u8, 100] {
                let mut a = vec![131u8, tag];
                a.extend_from_slice(&(n.min(65_535) as u16).to_be_bytes());
                a.resize(a.len() + n.min(65_535), b'a');
                ctx.class("limits/atom");
                check(ctx, &a, None, "atom of the greatest length");
            }
        }
    }
    // sibling keys: maps keyed by two values that differ minimally (incl. pairs Erlang's == identifies: 1 / 1.0,
    // 0.0 / -0.0, and non-finite floats with different payloads): both decoders must build the same map
    {
        use crate::genr::near::{Family, Twins, families, sibling_maps};
        let mut fams = families(&mut grng);
        fams.push(Family {
            name: "num:non-finite",
            members: [0x7ff8_0000_0000_0000u64, 0xfff8_0000_0000_0000, 0x7ff8_0000_0000_0001, 0x7ff0_0000_0000_0001, 0x7ff0_0000_0000_0000, 0xfff0_0000_0000_0000, 0x3ff0_0000_0000_0000, 0x7fef_ffff_ffff_ffff]
                .iter()
                .map(|b| Val::Float(*b))
                .collect(),
        });
        let maps = sibling_maps(&fams, Twins::Keep, true);
        let mut n = 0u64;
        for (fam, v) in &maps {
            if !ctx.time_left() {
                break;
            }
            let mut ch = RandomChooser { rng: &mut rng, legacy_bias: 50, taken: vec![] };
            if let Ok(b) = ref_encode(v, &mut ch, &opts) {
                ctx.class(&format!("siblings/{}", fam));
                check(ctx, &b, if *fam == "num:non-finite" { None } else { Some(v) }, "map keyed by sibling values");
                n += 1;
                let donor = &corpus[rng.below(corpus.len())].1;
                let m = mutate(&mut rng, &b, donor);
                check(ctx, &m, None, "mutation of a sibling-key map");
            }
        }
        ctx.extra("sibling_key_maps", json!(n));
    }

    // nesting boundary: both decoders must draw the line at the same depth, whatever sits inside
    let units: Vec<(&str, Vec<u8>)> = vec![
        ("tuple", vec![104, 1]),
        ("large-tuple", vec![105, 0, 0, 0, 1]),
        ("list-head", vec![108, 0, 0, 0, 1]),
        ("list-tail", vec![108, 0, 0, 0, 1, 97, 1]),
        ("map-value", vec![116, 0, 0, 0, 1, 97, 1]),
        ("map-key", vec![116, 0, 0, 0, 1]),
    ];
    let inners: Vec<(&str, Vec<u8>)> = vec![("leaf", vec![97, 7]), ("empty-tuple", vec![104, 0]), ("nil", vec![106]), ("atom", vec![119, 1, b'x']), ("pid", vec![88, 119, 1, b'n', 0, 0, 0, 1, 0, 0, 0, 2, 0, 0, 0, 3])];
    for (uname, unit) in &units {
        for (iname, inner) in &inners {
            for depth in (1usize..=6).chain(120..=130).chain(240..=272) {
                let mut x = vec![131u8];
                for _ in 0..depth {
                    x.extend_from_slice(unit);
                }
                x.extend_from_slice(inner);
                // close what needs closing: list heads need a tail, map keys need a value
                for _ in 0..depth {
                    match *uname {
                        "list-head" => x.push(106),
                        "map-key" => x.extend_from_slice(&[97, 0]),
                        _ => {}
                    }
                }
                ctx.class(&format!("nesting/{}/{}/{}", uname, iname, if depth < 200 { "shallow" } else { "at-limit" }));
                check_nesting(ctx, &x, &format!("nesting {} x{} around {}", uname, depth, iname));
            }
        }
    }
    // random bytes, with and without the version byte
    let n_junk = ctx.pick(20_000usize, 1_000_000usize);
    for _ in 0..n_junk {
        if !ctx.time_left() {
            break;
        }
        let n = rng.below(40);
        let mut x = rng.bytes(n);
        if rng.chance(3, 4) {
            x.insert(0, 131);
            if rng.chance(1, 2) && x.len() > 1 {
                x[1] = *rng.pick(crate::genr::bytes::ALL_TAGS);
            }
        }
        cls(ctx, &x, "junk");
        check(ctx, &x, None, "random bytes");
    }
    // history independence: the same ordinary calls before and after calls that fail or are unusual
    {
        let mut hrng = Rng::derive(ctx.seed, 13, 99);
        super::disturb::probe_history_independence(ctx, "C13", &mut hrng, ctx.pick(16, 60), &super::disturb::standard_probe);
    }
}
