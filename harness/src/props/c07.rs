//! C07 – each send operation emits exactly one well-formed frame with the right content;
//! concurrent senders through one node never interleave frames and keep per-caller order.

use crate::genr::val::{Gen, GenCfg};
use crate::mon::net::{self, FLAG_DIST_HDR_ATOM_CACHE, PEER_BASE_FLAGS};
use crate::out::{Ctx, hex_cap};
use crate::refmodel::decode::{Reader, ref_decode_prefix};
use crate::refmodel::denote::{Style, term_of, val_of};
use crate::refmodel::dist::{ReceiverCache, read_message};
use crate::refmodel::val::Val;
use crate::rng::Rng;
use edp_client::{Connection, ConnectionConfig, DistributionFlags};
use erltf::OwnedTerm;
use erltf::types::{Atom, ExternalPid, ExternalReference};
use serde_json::json;
use std::collections::HashMap;
use std::sync::Arc;
use std::sync::atomic::{AtomicU64, Ordering};
use std::time::Duration;

/// Independent reading of one frame body in the given mode: control value and optional payload.
fn read_frame(body: &[u8], header_mode: bool, cache: &mut ReceiverCache) -> Result<(Val, Option<Val>), String> {
    if body.is_empty() {
        return Err("empty frame (tick) where a message was expected".into());
    }
    if !header_mode {
        if body[0] != 112 {
            return Err(format!("pass-through frame starts with {} instead of 112", body[0]));
        }
        let (c, off) = ref_decode_prefix(&body[1..]).map_err(|e| format!("control term: {:?}", e))?;
        let rest = &body[1 + off..];
        if rest.is_empty() {
            return Ok((c, None));
        }
        let (p, off2) = ref_decode_prefix(rest).map_err(|e| format!("payload term: {:?}", e))?;
        if off2 != rest.len() {
            return Err(format!("{} bytes after the payload term", rest.len() - off2));
        }
        Ok((c, Some(p)))
    } else {
        if body.len() < 2 || body[0] != 131 || body[1] != 68 {
            return Err(format!("header-mode frame starts with {} instead of 131,68", hex_cap(body, 2)));
        }
        let vals = read_message(body, cache).map_err(|e| format!("distribution header message: {:?}", e))?;
        match vals.len() {
            1 => Ok((vals[0].clone(), None)),
            2 => Ok((vals[0].clone(), Some(vals[1].clone()))),
            n => Err(format!("{} terms in one frame", n)),
        }
    }
}

/// LOCAL_EXT wrapped pid as it would arrive from a peer (so that it carries raw bytes).
fn local_pid(rng: &mut Rng, node: &str, id: u32) -> (ExternalPid, Vec<u8>) {
    local_pid_of(rng, node, id, 0, 5)
}

fn local_pid_of(rng: &mut Rng, node: &str, id: u32, serial: u32, creation: u32) -> (ExternalPid, Vec<u8>) {
    let mut b = vec![131u8, 121];
    let hash = rng.bytes(8);
    b.extend_from_slice(&hash);
    b.push(88);
    b.push(119);
    b.push(node.len() as u8);
    b.extend_from_slice(node.as_bytes());
    b.extend_from_slice(&id.to_be_bytes());
    b.extend_from_slice(&serial.to_be_bytes());
    b.extend_from_slice(&creation.to_be_bytes());
    match erltf::decode(&b) {
        Ok(OwnedTerm::Pid(p)) => (p, b[1..].to_vec()),
        _ => (ExternalPid::new(Atom::new(node), id, serial, creation), vec![]),
    }
}

#[derive(Clone, Debug)]
struct Issued {
    uid: u64,
    op: &'static str,
    expect_control: Val,
    expect_payload: Option<Val>,
    must_contain: Vec<u8>,
}

fn payload_term(rng: &mut Rng, uid: u64) -> OwnedTerm {
    let cfg = GenCfg { max_depth: 3, max_nodes: 10, ..GenCfg::default() };
    let v = {
        let mut g = Gen::new(rng, cfg);
        g.value()
    };
    let extra = term_of(&v, rng, Style::User).unwrap_or(OwnedTerm::Nil);
    OwnedTerm::Tuple(vec![OwnedTerm::atom("uid"), OwnedTerm::Integer(uid as i64), extra])
}

/// Every operation x argument class against a directly driven Connection, in one framing mode.
/// `offers`: (this side offers the distribution header, the peer offers it). The negotiated mode is header
/// mode only when both do; every other combination must produce pass-through frames.
async fn single_ops(ctx: &Ctx, rng: &mut Rng, epmd: &net::EpmdTable, offers: (bool, bool), round: usize) {
    let header_mode = offers.0 && offers.1;
    ctx.beat(&format!("single-ops/{}", round));
    let name = format!("s{}{}x{}", if offers.0 { "h" } else { "p" }, if offers.1 { "h" } else { "p" }, round);
    let pl = net::listen_as(epmd, &name).await;
    let own_flags = DistributionFlags::default().as_u64() | if offers.0 { FLAG_DIST_HDR_ATOM_CACHE } else { 0 };
    let peer_flags = PEER_BASE_FLAGS | if offers.1 { FLAG_DIST_HDR_ATOM_CACHE } else { 0 };
    let (tx, mut rx) = tokio::sync::mpsc::unbounded_channel::<Vec<u8>>();
    let peer_task = tokio::spawn(async move {
        let mut peer = match pl.accept("cookie", peer_flags, 77).await {
            Ok(p) => p,
            Err(_) => return,
        };
        if peer.handshake().await.is_err() {
            return;
        }
        while let Ok(f) = peer.read_frame4().await {
            if tx.send(f).is_err() {
                break;
            }
        }
    });
    let cfg = ConnectionConfig::new("rust@127.0.0.1", format!("{}@127.0.0.1", name), "cookie")
        .with_epmd_host("127.0.0.1")
        .with_flags(DistributionFlags::new(own_flags))
        .with_timeout(Duration::from_millis(2000));
    let mut conn = Connection::new(cfg);
    // before the handshake every operation fails without writing
    let p0 = ExternalPid::new(Atom::new("rust@127.0.0.1"), 1, 0, 1);
    let r0 = ExternalReference::new(Atom::new("rust@127.0.0.1"), 1, vec![1, 2, 3]);
    let pre = [
        conn.send_message(p0.clone(), p0.clone(), OwnedTerm::Nil).await.is_err(),
        conn.send_to_name(p0.clone(), Atom::new("x"), OwnedTerm::Nil).await.is_err(),
        conn.link(&p0, &p0).await.is_err(),
        conn.unlink(&p0, &p0, 1).await.is_err(),
        conn.monitor(&p0, &p0, &r0).await.is_err(),
        conn.demonitor(&p0, &p0, &r0).await.is_err(),
    ];
    ctx.eval(6);
    ctx.class("before-handshake");
    if pre.iter().any(|e| !*e) {
        ctx.viol("C07:operation-before-handshake-accepted", "a send-side operation succeeded before the handshake completed", json!({"results_are_err": pre}));
    }
    if let Err(e) = conn.connect().await {
        ctx.inconclusive(&format!("handshake with the scripted peer failed: {}", e));
        peer_task.abort();
        return;
    }
    let mut cache = ReceiverCache::default();
    let peer_node = format!("{}@127.0.0.1", name);
    let n_ops = ctx.pick(40usize, 400usize);
    // histories matter: the same operation again, the same destination again, and the same destination in its
    // other wire form (an `==` pid that must nevertheless be written differently). The plan starts with every
    // operation issued to a fresh destination, to its twin in the other form (twice: both directions), to the
    // same destination again, and to the twin once more after an unrelated operation; random histories follow.
    let mut plan: Vec<(usize, usize)> = Vec::new();
    for op in 0..6 {
        plan.extend_from_slice(&[(op, 5), (op, 1), (op, 1), (op, 0), ((op + 1) % 6, 5), (op, 1)]);
    }
    let mut last_op = 0usize;
    for k in 0..n_ops {
        let op = if rng.chance(1, 3) { last_op } else { k % 6 };
        last_op = op;
        plan.push((op, rng.below(6)));
    }
    let mut last_to_by_op: HashMap<usize, (ExternalPid, Vec<u8>)> = HashMap::new();
    for (k, (op, sticky)) in plan.into_iter().enumerate() {
        let uid = (round as u64) * 100_000 + k as u64 + 1;
        let last_to = last_to_by_op.get(&op).cloned();
        // argument classes
        let (to_pid, to_raw) = if let (Some((lp, lraw)), true) = (&last_to, sticky < 3) {
            match sticky {
                0 => (lp.clone(), lraw.clone()),
                _ => {
                    if lraw.is_empty() {
                        local_pid_of(rng, lp.node.as_str(), lp.id, lp.serial, lp.creation)
                    } else {
                        (ExternalPid::new(lp.node.clone(), lp.id, lp.serial, lp.creation), vec![])
                    }
                }
            }
        } else if rng.chance(1, 3) { local_pid(rng, &peer_node, uid as u32) } else { (ExternalPid::new(Atom::new(&peer_node), *rng.pick(&[0u32, 1, 32767, u32::MAX]), *rng.pick(&[0u32, 8191, u32::MAX]), *rng.pick(&[1u32, 4, u32::MAX])), vec![]) };
        last_to_by_op.insert(op, (to_pid.clone(), to_raw.clone()));
        let from_pid = ExternalPid::new(Atom::new("rust@127.0.0.1"), uid as u32, 0, 9);
        let reference = ExternalReference::new(Atom::new("rust@127.0.0.1"), 9, vec![uid as u32, 2, 3][..1 + rng.below(3)].to_vec());
        let pidv = |p: &ExternalPid| val_of(&OwnedTerm::Pid(p.clone()));
        // now and then an operation that cannot be sent (an argument the format cannot carry, behind parts that
        // can be encoded): it must fail, put nothing on the wire and leave the next operation's frame as it would
        // have been (in header mode: no cache entry the peer never saw may be relied on later)
        if k % 7 == 3 {
            let too_long = "x".repeat(*rng.pick(&[65_536usize, 70_000]));
            let fresh = format!("fresh_atom_{}", uid);
            let bad = OwnedTerm::Tuple(vec![OwnedTerm::atom(&fresh), OwnedTerm::Integer(1), OwnedTerm::Binary(vec![7; 40]), OwnedTerm::atom(&too_long)]);
            // more distinct atoms than one distribution header can announce: sendable as it is in pass-through mode; in
            // header mode either refused, or sent in the negotiated mode - never as a frame of the other mode
            let many = OwnedTerm::List((0..300).map(|i| OwnedTerm::atom(&format!("atom_{}_{}", uid, i))).collect());
            let (what, r) = match rng.below(5) {
                3 => ("send:payload-with-300-distinct-atoms", conn.send_message(from_pid.clone(), to_pid.clone(), many).await),
                4 => ("send_to_name:payload-with-300-distinct-atoms", conn.send_to_name(from_pid.clone(), Atom::new("rex"), many).await),
                0 => ("send:payload-with-an-atom-the-format-cannot-carry", conn.send_message(from_pid.clone(), to_pid.clone(), bad).await),
                1 => ("send_to_name:payload-with-an-atom-the-format-cannot-carry", conn.send_to_name(from_pid.clone(), Atom::new("rex"), bad).await),
                _ => ("send_to_name:name-the-format-cannot-carry", conn.send_to_name(from_pid.clone(), Atom::new(&too_long), OwnedTerm::atom(&fresh)).await),
            };
            ctx.eval(1);
            ctx.class(&format!("single/unsendable/{}/{}", what, if header_mode { "header" } else { "pass-through" }));
            let stray = tokio::time::timeout(Duration::from_millis(20), rx.recv()).await;
            match (r.is_ok(), stray) {
                (false, Ok(Some(f))) => ctx.viol(&format!("C07:failed-operation-wrote-a-frame:{}", what), "an operation that returned an error put a frame on the wire", json!({"op": what, "frame": hex_cap(&f, 64), "frame_len": f.len()})),
                (true, Ok(Some(f))) => {
                    // reported as sent: then it has to be readable
                    if let Err(e) = read_frame(&f, header_mode, &mut cache) {
                        ctx.viol(&format!("C07:unparsable:{}", what), "an operation at the limits of what can be sent was reported successful and its frame is not well-formed in the negotiated framing mode", json!({"op": what, "negotiated_mode": if header_mode { "distribution header" } else { "pass-through" }, "error": e, "frame": hex_cap(&f, 64)}));
                    }
                }
                (true, _) => ctx.viol(&format!("C07:no-frame:{}", what), "the operation returned Ok but the peer received no frame", json!({"op": what})),
                (false, _) => {}
            }
        }
        let issued: Issued;
        let res = match op {
            0 => {
                let msg = payload_term(rng, uid);
                issued = Issued { uid, op: "send", expect_control: Val::Tuple(vec![Val::int(2), Val::atom(""), pidv(&to_pid)]), expect_payload: Some(val_of(&msg)), must_contain: to_raw.clone() };
                conn.send_message(from_pid.clone(), to_pid.clone(), msg).await
            }
            1 => {
                let msg = payload_term(rng, uid);
                let nm: String = match rng.below(4) {
                    0 => String::new(),
                    1 => "n".repeat(255),
                    2 => "имя".into(),
                    _ => "rex".into(),
                };
                issued = Issued { uid, op: "send_to_name", expect_control: Val::Tuple(vec![Val::int(6), pidv(&from_pid), Val::atom(""), Val::atom(&nm)]), expect_payload: Some(val_of(&msg)), must_contain: vec![] };
                conn.send_to_name(from_pid.clone(), Atom::new(&nm), msg).await
            }
            2 => {
                issued = Issued { uid, op: "link", expect_control: Val::Tuple(vec![Val::int(1), pidv(&from_pid), pidv(&to_pid)]), expect_payload: None, must_contain: to_raw.clone() };
                conn.link(&from_pid, &to_pid).await
            }
            3 => {
                let id = *rng.pick(&[0u64, 1, (1 << 31) - 1, 1 << 31, 1 << 40, i64::MAX as u64, 1 << 63, u64::MAX]);
                issued = Issued { uid, op: "unlink", expect_control: Val::Tuple(vec![Val::int(35), Val::int(id as i128), pidv(&from_pid), pidv(&to_pid)]), expect_payload: None, must_contain: to_raw.clone() };
                conn.unlink(&from_pid, &to_pid, id).await
            }
            4 => {
                issued = Issued { uid, op: "monitor", expect_control: Val::Tuple(vec![Val::int(19), pidv(&from_pid), pidv(&to_pid), val_of(&OwnedTerm::Reference(reference.clone()))]), expect_payload: None, must_contain: to_raw.clone() };
                conn.monitor(&from_pid, &to_pid, &reference).await
            }
            _ => {
                issued = Issued { uid, op: "demonitor", expect_control: Val::Tuple(vec![Val::int(20), pidv(&from_pid), pidv(&to_pid), val_of(&OwnedTerm::Reference(reference.clone()))]), expect_payload: None, must_contain: to_raw.clone() };
                conn.demonitor(&from_pid, &to_pid, &reference).await
            }
        };
        ctx.eval(1);
        let mode = match offers {
            (true, true) => "header",
            (false, true) => "pass-through",
            (true, false) => "pass-through(peer-declined-header)",
            (false, false) => "pass-through(nobody-offers-header)",
        };
        ctx.class(&format!("single/{}/{}/{}/{}", mode, issued.op, if issued.must_contain.is_empty() { "plain-pid" } else { "local-pid" }, match sticky { 0 => "same-destination-again", 1 | 2 => "same-destination-other-form", _ => "fresh-destination" }));
        // a plain pid must be written plainly: no LOCAL_EXT tag in front of it
        let must_not_be_local = issued.must_contain.is_empty() && matches!(issued.op, "send" | "link" | "unlink" | "monitor" | "demonitor");
        let wit = |d: serde_json::Value| json!({"op": issued.op, "mode": mode, "uid": issued.uid, "expected_control": issued.expect_control.show(), "detail": d});
        if let Err(e) = res {
            ctx.viol(&format!("C07:operation-failed:{}:{}", issued.op, mode), "a send-side operation failed on a connected connection", wit(json!({"error": e.to_string()})));
            continue;
        }
        // exactly one frame
        let first = tokio::time::timeout(Duration::from_millis(1500), rx.recv()).await;
        let body = match first {
            Ok(Some(b)) => b,
            _ => {
                ctx.viol(&format!("C07:no-frame:{}:{}", issued.op, mode), "the operation returned Ok but the peer received no frame", wit(json!({})));
                continue;
            }
        };
        if let Ok(Some(extra)) = tokio::time::timeout(Duration::from_millis(if k % 10 == 0 { 30 } else { 1 }), rx.recv()).await {
            ctx.viol(&format!("C07:more-than-one-frame:{}:{}", issued.op, mode), "one operation produced more than one frame", wit(json!({"second": hex_cap(&extra, 48)})));
        }
        match read_frame(&body, header_mode, &mut cache) {
            Err(e) => {
                let cause = if e.contains("distribution header") { "bad-header" } else if e.contains("starts with") { "wrong-marker" } else { "unparsable" };
                ctx.viol(&format!("C07:{}:{}:{}", cause, issued.op, mode), "the frame is not well-formed for an independent reader", wit(json!({"error": e, "frame": hex_cap(&body, 96)})));
            }
            Ok((c, p)) => {
                if !c.same(&issued.expect_control) {
                    let cause = match (&c, &issued.expect_control) {
                        (Val::Tuple(a), Val::Tuple(b)) if a.first() != b.first() => "wrong-tag".to_string(),
                        (Val::Tuple(a), Val::Tuple(b)) if a.len() != b.len() => "wrong-arity".to_string(),
                        _ => format!("field:{}", super::common::first_diff(&issued.expect_control, &c)),
                    };
                    ctx.viol(&format!("C07:control:{}:{}:{}", cause, issued.op, mode), "the control tuple is not the one the protocol assigns to the operation with the given arguments", wit(json!({"got": c.show(), "frame": hex_cap(&body, 96)})));
                }
                match (&p, &issued.expect_payload) {
                    (None, None) => {}
                    (Some(a), Some(b)) if a.same(b) => {}
                    _ => ctx.viol(&format!("C07:payload:{}:{}", issued.op, mode), "the payload on the wire is not the given payload", wit(json!({"got": p.as_ref().map(|x| x.show()), "want": issued.expect_payload.as_ref().map(|x| x.show())}))),
                }
                if must_not_be_local && !header_mode {
                    // none of the arguments was in node-local form: the control term must not contain a LOCAL_EXT wrapper
                    let mut strict = Reader::new(&body[1..]);
                    strict.allow_local = false;
                    let _ = strict.u8();
                    if let Err(crate::refmodel::decode::RefErr::BadTag(121)) = strict.term(0) {
                        ctx.viol(&format!("C07:plain-id-written-in-another-form:{}:{}", issued.op, mode), "an ordinary identifier was written in node-local form although the argument given was not", wit(json!({"frame": hex_cap(&body, 96)})));
                    }
                }
                if !issued.must_contain.is_empty() && !body.windows(issued.must_contain.len()).any(|w| w == &issued.must_contain[..]) {
                    ctx.viol(&format!("C07:node-local-id-not-verbatim:{}:{}", issued.op, mode), "a node-local identifier was not written back byte-for-byte", wit(json!({"raw": hex_cap(&issued.must_contain, 48), "frame": hex_cap(&body, 96)})));
                }
            }
        }
        if k % 37 == 0 {
            ctx.sample(json!({"op": issued.op, "mode": mode, "frame": hex_cap(&body, 48)}));
        }
    }
    let _ = conn.close().await;
    peer_task.abort();
}

/// "Operations before the handshake completes fail without writing" - also when a handshake was attempted and
/// failed at its last steps: the peer records every byte that arrives after its final handshake message.
async fn after_failed_handshake(ctx: &Ctx, epmd: &net::EpmdTable, round: usize) {
    ctx.beat(&format!("after-failed-handshake/{}", round));
    use tokio::io::AsyncReadExt;
    for (k, kind) in ["wrong-ack-digest", "status-nok", "closed-after-reply", "short-ack", "ack-for-another-cookie", "status-alive-then-close"].iter().enumerate() {
        let name = format!("f{}x{}", round, k);
        let pl = net::listen_as(epmd, &name).await;
        let kind_s = kind.to_string();
        let peer_task = tokio::spawn(async move {
            let mut peer = match pl.accept("cookie", PEER_BASE_FLAGS, 4711).await {
                Ok(p) => p,
                Err(_) => return None,
            };
            peer.recv_name().await.ok()?;
            let mut hold_open = true;
            match kind_s.as_str() {
                "status-nok" => {
                    let _ = peer.write_frame2(&net::Peer::status_body("nok")).await;
                }
                "status-alive-then-close" => {
                    let _ = peer.write_frame2(&net::Peer::status_body("alive")).await;
                }
                _ => {
                    let _ = peer.write_frame2(&net::Peer::status_body("ok")).await;
                    let ch = peer.challenge_body();
                    let _ = peer.write_frame2(&ch).await;
                    let (client_challenge, _digest) = peer.recv_reply().await.ok()?;
                    match kind_s.as_str() {
                        "wrong-ack-digest" => {
                            let mut d = crate::refmodel::md5::challenge_digest("cookie", client_challenge);
                            d[7] ^= 0x40;
                            let _ = peer.write_frame2(&net::Peer::ack_body(&d)).await;
                        }
                        "ack-for-another-cookie" => {
                            let d = crate::refmodel::md5::challenge_digest("another cookie", client_challenge);
                            let _ = peer.write_frame2(&net::Peer::ack_body(&d)).await;
                        }
                        "short-ack" => {
                            let _ = peer.write_frame2(&[b'a', 1, 2, 3]).await;
                        }
                        _ => hold_open = false, // closed-after-reply
                    }
                }
            }
            if !hold_open {
                return Some(Vec::new());
            }
            // everything that still arrives on this socket
            let mut extra: Vec<u8> = Vec::new();
            let mut buf = [0u8; 4096];
            loop {
                match tokio::time::timeout(Duration::from_millis(400), peer.sock.read(&mut buf)).await {
                    Ok(Ok(0)) | Ok(Err(_)) | Err(_) => break,
                    Ok(Ok(n)) => extra.extend_from_slice(&buf[..n]),
                }
            }
            Some(extra)
        });
        let cfg = ConnectionConfig::new("rust@127.0.0.1", format!("{}@127.0.0.1", name), "cookie").with_epmd_host("127.0.0.1").with_timeout(Duration::from_millis(1500));
        let mut conn = Connection::new(cfg);
        let connected = conn.connect().await.is_ok();
        ctx.eval(1);
        ctx.class(&format!("after-failed-handshake/{}", kind));
        if connected {
            // whether this handshake may succeed is C04's question; nothing to judge here
            ctx.count("failed_handshake_scenarios_that_connected", 1);
            peer_task.abort();
            continue;
        }
        let p0 = ExternalPid::new(Atom::new("rust@127.0.0.1"), 1, 0, 1);
        let r0 = ExternalReference::new(Atom::new("rust@127.0.0.1"), 1, vec![1, 2, 3]);
        let results = [
            ("send", conn.send_message(p0.clone(), p0.clone(), OwnedTerm::atom("leak")).await.is_ok()),
            ("send_to_name", conn.send_to_name(p0.clone(), Atom::new("x"), OwnedTerm::atom("leak")).await.is_ok()),
            ("link", conn.link(&p0, &p0).await.is_ok()),
            ("unlink", conn.unlink(&p0, &p0, 1).await.is_ok()),
            ("monitor", conn.monitor(&p0, &p0, &r0).await.is_ok()),
            ("demonitor", conn.demonitor(&p0, &p0, &r0).await.is_ok()),
        ];
        ctx.eval(6);
        let accepted: Vec<&str> = results.iter().filter(|(_, ok)| *ok).map(|(n, _)| *n).collect();
        let extra = match tokio::time::timeout(Duration::from_secs(5), peer_task).await {
            Ok(Ok(Some(x))) => x,
            _ => Vec::new(),
        };
        if !accepted.is_empty() {
            ctx.viol(
                &format!("C07:operation-after-failed-handshake-accepted:{}", kind),
                "a send-side operation succeeded on a connection whose handshake had failed",
                json!({"handshake_failure": kind, "operations_that_returned_ok": accepted, "bytes_seen_by_peer_afterwards": extra.len()}),
            );
        } else if !extra.is_empty() {
            ctx.viol(
                &format!("C07:bytes-written-after-failed-handshake:{}", kind),
                "bytes reached the peer after the handshake had failed",
                json!({"handshake_failure": kind, "bytes": hex_cap(&extra, 64)}),
            );
        }
    }
}

/// One frame far larger than the socket buffers, written while the peer is not reading yet, followed by a small
/// one: the kernel takes the big frame in several pieces (short writes), and both frames must arrive whole.
async fn big_frames(ctx: &Ctx, epmd: &net::EpmdTable, round: usize) {
    for (k, (header_mode, size)) in [(false, 6usize << 20), (true, 6 << 20), (true, 1 << 20), (false, 13 << 20), (true, 13 << 20)].into_iter().enumerate() {
        if ctx.quick() && k >= 3 {
            break;
        }
        ctx.beat(&format!("big-frames/{}", round));
        let name = format!("b{}x{}", round, k);
        let pl = net::listen_as(epmd, &name).await;
        let own_flags = DistributionFlags::default().as_u64() | if header_mode { FLAG_DIST_HDR_ATOM_CACHE } else { 0 };
        let peer_task = tokio::spawn(async move {
            let mut peer = pl.accept("cookie", PEER_BASE_FLAGS | FLAG_DIST_HDR_ATOM_CACHE, 81).await.ok()?;
            peer.handshake().await.ok()?;
            // not reading for a while: the client's writes fill the socket buffers
            tokio::time::sleep(Duration::from_millis(400)).await;
            let a = tokio::time::timeout(Duration::from_secs(20), peer.read_frame4()).await.ok()?.ok()?;
            let b = tokio::time::timeout(Duration::from_secs(5), peer.read_frame4()).await.ok().and_then(|r| r.ok());
            Some((a, b))
        });
        let cfg = ConnectionConfig::new("rust@127.0.0.1", format!("{}@127.0.0.1", name), "cookie")
            .with_epmd_host("127.0.0.1")
            .with_flags(DistributionFlags::new(own_flags))
            .with_timeout(Duration::from_secs(10));
        let mut conn = Connection::new(cfg);
        if let Err(e) = conn.connect().await {
            ctx.inconclusive(&format!("handshake with the scripted peer failed: {}", e));
            peer_task.abort();
            continue;
        }
        let mode = if header_mode { "header" } else { "pass-through" };
        let from = ExternalPid::new(Atom::new("rust@127.0.0.1"), 7, 0, 9);
        let to = ExternalPid::new(Atom::new(&format!("{}@127.0.0.1", name)), 5, 0, 1);
        let payload: Vec<u8> = (0..size).map(|i| (i as u32).wrapping_mul(2654435761).to_be_bytes()[0]).collect();
        let r1 = conn.send_message(from.clone(), to.clone(), OwnedTerm::Binary(payload.clone())).await;
        let r2 = conn.link(&from, &to).await;
        ctx.eval(2);
        ctx.class(&format!("big-frame/{}/{}MiB", mode, size >> 20));
        let wit = |d: serde_json::Value| json!({"mode": mode, "payload_bytes": size, "detail": d});
        if r1.is_err() || r2.is_err() {
            ctx.viol(&format!("C07:operation-failed:big-frame:{}", mode), "sending a large frame to a peer that reads late failed", wit(json!({"send": format!("{:?}", r1.err().map(|e| e.to_string())), "link": format!("{:?}", r2.err().map(|e| e.to_string()))})));
            peer_task.abort();
            continue;
        }
        let got = tokio::time::timeout(Duration::from_secs(40), peer_task).await;
        let mut cache = ReceiverCache::default();
        match got {
            Ok(Ok(Some((a, b)))) => {
                let first = read_frame(&a, header_mode, &mut cache);
                let ok1 = matches!(&first, Ok((c, Some(Val::Bits { bytes, bits }))) if *bits == size as u64 * 8 && bytes == &payload && matches!(c, Val::Tuple(t) if t.first() == Some(&Val::int(2))));
                let ok2 = match &b {
                    Some(b) => matches!(read_frame(b, header_mode, &mut cache), Ok((Val::Tuple(t), None)) if t.first() == Some(&Val::int(1))),
                    None => false,
                };
                if !ok1 || !ok2 {
                    let first_len = a.len();
                    ctx.viol(
                        &format!("C07:big-frame-damaged:{}", mode),
                        "a frame larger than the socket buffers (or the frame after it) did not arrive as written",
                        wit(json!({"first_frame_len": first_len, "first_frame_ok": ok1, "second_frame_ok": ok2, "first_frame_error": first.err(), "second_frame": b.as_ref().map(|x| hex_cap(x, 32))})),
                    );
                }
            }
            _ => ctx.viol(&format!("C07:big-frame-damaged:{}", mode), "the peer could not read the large frame and the one after it", wit(json!({"peer": "no complete frames within 40 s"}))),
        }
        let _ = conn.close().await;
    }
}

/// Through a Node: a remote call whose request is far larger than the socket buffers and whose timeout is far
/// shorter than the time the peer needs to start reading, then ordinary operations on the same connection. Whatever
/// the call returns, what the peer reads must split into whole, readable frames, and every operation reported
/// successful must be among them, in order.
async fn node_big_call(ctx: &Ctx, epmd: &net::EpmdTable, round: usize) {
    ctx.beat(&format!("node-big-call/{}", round));
    let name = format!("nb{}", round);
    let pl = net::listen_as(epmd, &name).await;
    let peer_task = tokio::spawn(async move {
        let mut frames: Vec<Vec<u8>> = Vec::new();
        let Ok(mut peer) = pl.accept("cookie", PEER_BASE_FLAGS, 83).await else { return frames };
        if peer.handshake().await.is_err() {
            return frames;
        }
        tokio::time::sleep(Duration::from_millis(500)).await;
        while frames.len() < 3 {
            match tokio::time::timeout(Duration::from_secs(6), peer.read_frame4()).await {
                Ok(Ok(f)) => {
                    if !f.is_empty() {
                        frames.push(f);
                    }
                }
                _ => break,
            }
        }
        frames
    });
    let mut node = edp_node::Node::new(format!("bigcall{}@127.0.0.1", round), "cookie");
    if let Err(e) = node.start(0).await {
        ctx.inconclusive(&format!("Node::start failed: {}", e));
        peer_task.abort();
        return;
    }
    let peer_node = format!("{}@127.0.0.1", name);
    if let Err(e) = node.connect(peer_node.clone()).await {
        ctx.inconclusive(&format!("Node::connect failed: {}", e));
        peer_task.abort();
        return;
    }
    let size = [9usize << 20, 16 << 20][round % 2];
    let call_timeout = Duration::from_millis([1u64, 40, 150][round % 3]);
    let big = OwnedTerm::Binary(vec![0x5a; size]);
    let r_call = tokio::time::timeout(Duration::from_secs(30), node.rpc_call_raw_with_timeout(&peer_node, "m", "f", vec![big], call_timeout)).await;
    let to = ExternalPid::new(Atom::new(&peer_node), 5, 0, 1);
    let r_send = tokio::time::timeout(Duration::from_secs(30), node.send(&to, OwnedTerm::Tuple(vec![OwnedTerm::atom("marker"), OwnedTerm::Integer(round as i64)]))).await;
    let r_call2 = tokio::time::timeout(Duration::from_secs(30), node.rpc_call_raw_with_timeout(&peer_node, "m", "g", vec![OwnedTerm::Integer(7)], Duration::from_millis(50))).await;
    ctx.eval(3);
    ctx.class(&format!("node-big-call/{}MiB/timeout-{}ms", size >> 20, call_timeout.as_millis()));
    let frames = tokio::time::timeout(Duration::from_secs(40), peer_task).await.ok().and_then(|r| r.ok()).unwrap_or_default();
    let wit = |d: serde_json::Value| json!({"request_bytes": size, "call_timeout_ms": call_timeout.as_millis() as u64, "big_call": format!("{:?}", r_call.as_ref().map(|r| r.as_ref().map(|_| ()).map_err(|e| e.to_string()))), "send": format!("{:?}", r_send.as_ref().map(|r| r.as_ref().map(|_| ()).map_err(|e| e.to_string()))), "frames_read_by_peer": frames.iter().map(|f| f.len()).collect::<Vec<_>>(), "detail": d});
    if r_call.is_err() || r_send.is_err() || r_call2.is_err() {
        ctx.viol("C07:stall:node-big-call", "an operation through the node did not return within 30 s", wit(json!({})));
        return;
    }
    let mut cache = ReceiverCache::default();
    let mut kinds: Vec<String> = Vec::new();
    for f in &frames {
        match read_frame(f, false, &mut cache) {
            Ok((Val::Tuple(c), p)) => {
                let tag = c.first().cloned().unwrap_or(Val::Nil);
                let what = if tag.same(&Val::int(6)) {
                    if f.len() > size { "big-call" } else { "small-call" }
                } else if tag.same(&Val::int(2)) && matches!(&p, Some(Val::Tuple(t)) if t.first() == Some(&Val::atom("marker"))) {
                    "marker"
                } else {
                    "other"
                };
                kinds.push(what.to_string());
            }
            Ok(_) => kinds.push("not-a-control-tuple".into()),
            Err(e) => {
                ctx.viol("C07:unparsable:after-a-timed-out-big-call", "what the peer read after a remote call with a large request and a short timeout does not split into well-formed frames", wit(json!({"error": e, "frame_head": hex_cap(f, 48)})));
                return;
            }
        }
    }
    let send_ok = matches!(&r_send, Ok(Ok(())));
    let marker_at = kinds.iter().position(|k| k == "marker");
    if send_ok && marker_at.is_none() {
        ctx.viol("C07:no-frame:send-after-a-timed-out-big-call", "a send reported successful after a remote call with a large request had timed out never reached the peer as a frame", wit(json!({"frames": kinds})));
    }
    if kinds.iter().filter(|k| *k == "big-call").count() > 1 || kinds.iter().filter(|k| *k == "marker").count() > 1 {
        ctx.viol("C07:more-than-one-frame:node-big-call", "an operation through the node appears more than once on the wire", wit(json!({"frames": kinds})));
    }
}

struct Quiet;
impl edp_node::Process for Quiet {
    async fn handle_message(&mut self, _msg: edp_node::Message) -> edp_node::Result<()> {
        Ok(())
    }
}

/// Histories of operations through a Node on behalf of processes that really live on it, with the same pairs used again
/// and again (link twice, link - unlink - link, monitor twice, operations tried before the connection exists and repeated
/// after): every operation reported successful is one frame of its kind at the peer, in order, and nothing else arrives.
async fn node_histories(ctx: &Ctx, rng: &mut Rng, epmd: &net::EpmdTable, round: usize) {
    ctx.beat(&format!("node-histories/{}", round));
    let name = format!("nh{}", round);
    let peer_node = format!("{}@127.0.0.1", name);
    let mut node = edp_node::Node::new(format!("hist{}@127.0.0.1", round), "cookie");
    if let Err(e) = node.start(0).await {
        ctx.inconclusive(&format!("Node::start failed: {}", e));
        return;
    }
    let (Ok(a), Ok(b)) = (node.spawn(Quiet).await, node.spawn(Quiet).await) else {
        ctx.inconclusive("spawn failed");
        return;
    };
    let locals = [a, b, ExternalPid::new(node.name().clone(), 900_000, 0, node.creation())];
    let remotes = [ExternalPid::new(Atom::new(&peer_node), 5, 0, 1), ExternalPid::new(Atom::new(&peer_node), 6, 0, 1)];
    // before there is a connection: every operation towards the peer fails (and must not be remembered as done)
    let mut early = 0;
    for l in &locals {
        for r in &remotes {
            if rng.bool() {
                early += 1;
                if node.link(l, r).await.is_ok() || node.monitor(l, r).await.is_ok() {
                    ctx.viol("C07:operation-without-connection-accepted", "an operation towards a node there is no connection to was reported successful", json!({"round": round}));
                }
            }
        }
    }
    let pl = net::listen_as(epmd, &name).await;
    let peer_task = tokio::spawn(async move {
        let mut tags: Vec<i128> = Vec::new();
        let Ok(mut peer) = pl.accept("cookie", PEER_BASE_FLAGS, 85).await else { return tags };
        if peer.handshake().await.is_err() {
            return tags;
        }
        loop {
            match tokio::time::timeout(Duration::from_millis(400), peer.read_frame4()).await {
                Ok(Ok(f)) => {
                    if f.is_empty() {
                        continue;
                    }
                    let mut cache = ReceiverCache::default();
                    match read_frame(&f, false, &mut cache) {
                        Ok((Val::Tuple(c), _)) => tags.push(match c.first() { Some(Val::Int(i)) => i.to_i128().unwrap_or(-1), _ => -1 }),
                        _ => tags.push(-2),
                    }
                }
                _ => break,
            }
        }
        tags
    });
    if let Err(e) = node.connect(peer_node.clone()).await {
        ctx.inconclusive(&format!("Node::connect failed: {}", e));
        peer_task.abort();
        return;
    }
    let mut expected: Vec<i128> = Vec::new();
    let mut trace: Vec<String> = Vec::new();
    let mut refs: Vec<(usize, usize, erltf::types::ExternalReference)> = Vec::new();
    let n = 10 + rng.below(30);
    for _ in 0..n {
        // few pairs, so that the same pair comes up again and again
        let (li, ri) = (rng.below(locals.len()), rng.below(remotes.len()));
        let (l, r) = (&locals[li], &remotes[ri]);
        let (what, tag, ok) = match rng.below(6) {
            0 | 1 => ("link", 1, node.link(l, r).await.is_ok()),
            2 => ("unlink", 35, node.unlink(l, r).await.is_ok()),
            3 => match node.monitor(l, r).await {
                Ok(x) => {
                    refs.push((li, ri, x));
                    ("monitor", 19, true)
                }
                Err(_) => ("monitor", 19, false),
            },
            4 => {
                if let Some(k) = (0..refs.len()).find(|k| refs[*k].0 == li && refs[*k].1 == ri) {
                    let (_, _, x) = refs.remove(k);
                    ("demonitor", 20, node.demonitor(l, r, &x).await.is_ok())
                } else {
                    ("link", 1, node.link(l, r).await.is_ok())
                }
            }
            _ => ("send", 2, node.send(r, OwnedTerm::Integer(7)).await.is_ok()),
        };
        trace.push(format!("{}({},{}){}", what, li, ri, if ok { "" } else { " failed" }));
        if ok {
            expected.push(tag);
        }
    }
    let got = tokio::time::timeout(Duration::from_secs(20), peer_task).await.ok().and_then(|r| r.ok()).unwrap_or_default();
    ctx.eval(n as u64);
    ctx.class(&format!("node-histories/{}ops/{}tried-before-connecting", (n / 10) * 10, early.min(3)));
    if got != expected {
        let at = got.iter().zip(expected.iter()).position(|(a, b)| a != b).unwrap_or(got.len().min(expected.len()));
        let cause = if got.len() < expected.len() { "no-frame" } else if got.len() > expected.len() { "more-than-one-frame" } else { "wrong-tag" };
        ctx.viol(
            &format!("C07:{}:node-history", cause),
            "the frames the peer received are not one frame per operation the node reported successful, in order",
            json!({"round": round, "operations": trace, "control_tags_expected": expected, "control_tags_received": got, "first_difference_at": at, "operations_tried_before_connecting": early}),
        );
    }
}

/// Many tasks sending through one Node; the peer's byte stream must split into whole frames.
async fn concurrent(ctx: &Ctx, rng: &mut Rng, epmd: &net::EpmdTable, run_id: usize, with_yields: bool) {
    ctx.beat(&format!("concurrent/{}", run_id));
    let name = format!("c{}", run_id);
    let pl = net::listen_as(epmd, &name).await;
    let peer_flags = PEER_BASE_FLAGS;
    let tasks = *rng.pick(&[2usize, 3, 8, 16, 64]);
    let per = *rng.pick(&[5usize, 10, 40]);
    let total = tasks * per;
    let peer_task = tokio::spawn(async move {
        let mut frames: Vec<Vec<u8>> = Vec::new();
        let mut peer = match pl.accept("cookie", peer_flags, 78).await {
            Ok(p) => p,
            Err(_) => return (frames, "accept failed".to_string()),
        };
        if let Err(e) = peer.handshake().await {
            return (frames, format!("handshake: {}", e));
        }
        let mut why = String::new();
        while frames.len() < total {
            match tokio::time::timeout(Duration::from_millis(3000), peer.read_frame4()).await {
                Ok(Ok(f)) => {
                    if f.len() > 64 << 20 {
                        why = "absurd frame length (stream out of sync)".into();
                        break;
                    }
                    frames.push(f);
                }
                Ok(Err(e)) => {
                    why = format!("read error: {}", e);
                    break;
                }
                Err(_) => {
                    why = "no more frames within 3 s".into();
                    break;
                }
            }
        }
        (frames, why)
    });
    let mut node = edp_node::Node::new(format!("rustnode{}@127.0.0.1", run_id), "cookie");
    if let Err(e) = node.start(0).await {
        ctx.inconclusive(&format!("Node::start against the fake EPMD failed: {}", e));
        peer_task.abort();
        return;
    }
    let peer_node = format!("{}@127.0.0.1", name);
    if let Err(e) = node.connect(peer_node.clone()).await {
        ctx.inconclusive(&format!("Node::connect to the scripted peer failed: {}", e));
        peer_task.abort();
        return;
    }
    let node = Arc::new(node);
    // seeded yields at the partial-write hook points
    let seed = rng.next_u64();
    let hits = Arc::new(AtomicU64::new(0));
    if with_yields {
        let h2 = hits.clone();
        edp_client::verif::set_callback(Some(Arc::new(move |nm: &'static str| -> u32 {
            if nm.starts_with("conn:send:") {
                let n = h2.fetch_add(1, Ordering::Relaxed);
                let x = (seed ^ n.wrapping_mul(0x9E37_79B9_7F4A_7C15)).wrapping_mul(0xBF58_476D_1CE4_E5B9);
                return ((x >> 33) % 4) as u32;
            }
            0
        })));
    }
    let mut handles = Vec::new();
    let mut issued: HashMap<u64, (usize, usize, &'static str)> = HashMap::new();
    for t in 0..tasks {
        for i in 0..per {
            issued.insert((t as u64) << 32 | i as u64, (t, i, ""));
        }
        let node = node.clone();
        let peer_node = peer_node.clone();
        let me = node.name().as_str().to_string();
        handles.push(tokio::spawn(async move {
            let mut errs: Vec<String> = Vec::new();
            for i in 0..per {
                let uid = (t as u64) << 32 | i as u64;
                let to = ExternalPid::new(Atom::new(&peer_node), 5, 0, 1);
                // caller identity travels in the payload (send) or in the `from` pid (link/unlink/monitor)
                let from = ExternalPid::new(Atom::new(&me), (t * 1000 + i) as u32 + 1, 77, 1);
                let r = match (t + i) % 4 {
                    0 | 1 => node.send(&to, OwnedTerm::Tuple(vec![OwnedTerm::atom("uid"), OwnedTerm::Integer(uid as i64), OwnedTerm::Binary(vec![t as u8; (i * 37) % 3000])])).await.map_err(|e| e.to_string()),
                    2 => node.link(&from, &to).await.map_err(|e| e.to_string()),
                    _ => node.unlink(&from, &to).await.map_err(|e| e.to_string()),
                };
                if let Err(e) = r {
                    errs.push(e);
                }
                if i % 3 == 0 {
                    tokio::task::yield_now().await;
                }
            }
            errs
        }));
    }
    let mut op_errors: Vec<String> = Vec::new();
    for h in handles {
        if let Ok(e) = h.await {
            op_errors.extend(e);
        }
    }
    let (frames, why) = match tokio::time::timeout(Duration::from_secs(20), peer_task).await {
        Ok(Ok(x)) => x,
        _ => (vec![], "peer task did not finish".to_string()),
    };
    edp_client::verif::set_callback(None);
    ctx.eval(total as u64);
    ctx.class(&format!("concurrent/{}tasks/{}each/{}", tasks, per, if with_yields { "current-thread+yields" } else { "multi-thread" }));
    ctx.count("partial_write_hook_hits", hits.load(Ordering::Relaxed));
    let wit = |d: serde_json::Value| json!({"tasks": tasks, "each": per, "yields": with_yields, "frames_received": frames.len(), "peer_stopped": why, "detail": d});
    if !op_errors.is_empty() {
        ctx.viol("C07:concurrent:operation-failed", "a send through the node failed", wit(json!({"errors": op_errors.iter().take(3).collect::<Vec<_>>()})));
    }
    // every frame parses; ids seen == ids issued; per-caller order
    let mut cache = ReceiverCache::default();
    let mut seen: Vec<(usize, usize)> = Vec::new();
    let mut interleave_hash: u64 = 0xcbf29ce484222325;
    for (fi, f) in frames.iter().enumerate() {
        match read_frame(f, false, &mut cache) {
            Err(e) => {
                ctx.viol("C07:concurrent:unparsable-frame", "bytes of different frames were interleaved (a frame does not parse)", wit(json!({"frame_index": fi, "error": e, "frame": hex_cap(f, 64)})));
                return;
            }
            Ok((c, p)) => {
                let key: Option<(usize, usize)> = match (&c, &p) {
                    (Val::Tuple(ct), Some(Val::Tuple(pt))) if ct.first() == Some(&Val::int(2)) && pt.len() == 3 => match &pt[1] {
                        Val::Int(i) => i.to_i128().map(|u| ((u >> 32) as usize, (u & 0xffff_ffff) as usize)),
                        _ => None,
                    },
                    (Val::Tuple(ct), None) if ct.first() == Some(&Val::int(1)) && ct.len() == 3 => match &ct[1] {
                        Val::Pid { id, .. } => Some((((*id - 1) / 1000) as usize, ((*id - 1) % 1000) as usize)),
                        _ => None,
                    },
                    (Val::Tuple(ct), None) if ct.first() == Some(&Val::int(35)) && ct.len() == 4 => match &ct[2] {
                        Val::Pid { id, .. } => Some((((*id - 1) / 1000) as usize, ((*id - 1) % 1000) as usize)),
                        _ => None,
                    },
                    _ => None,
                };
                match key {
                    Some(k) => {
                        interleave_hash = (interleave_hash ^ k.0 as u64).wrapping_mul(0x100000001b3);
                        seen.push(k);
                    }
                    None => {
                        ctx.viol("C07:concurrent:unexpected-frame", "a frame that no caller issued", wit(json!({"control": c.show()})));
                    }
                }
            }
        }
    }
    ctx.class_hash(interleave_hash);
    let mut sorted = seen.clone();
    sorted.sort();
    let dup = sorted.windows(2).any(|w| w[0] == w[1]);
    sorted.dedup();
    if dup {
        ctx.viol("C07:concurrent:duplicate-frame", "an operation's frame was written twice", wit(json!({})));
    }
    if sorted.len() != total && op_errors.is_empty() {
        ctx.viol("C07:concurrent:lost-frame", "not every operation's frame reached the peer", wit(json!({"distinct_ids_seen": sorted.len(), "issued": total})));
    }
    let mut last: HashMap<usize, usize> = HashMap::new();
    for (t, i) in &seen {
        if let Some(prev) = last.get(t) {
            if i < prev {
                ctx.viol("C07:concurrent:caller-order", "one caller's messages reached the peer out of the order it issued them", wit(json!({"caller": t, "saw": i, "after": prev})));
                break;
            }
        }
        last.insert(*t, *i);
    }
}

pub fn run(ctx: &Ctx) {
    ctx.rule("(1) every operation (send, send_to_name, link, unlink, monitor, demonitor) x argument classes (plain and node-local pids, names of 0..255 chars incl. non-ASCII, payloads from the term generator, unlink ids over the 64-bit range, references of 1..3 words) x all four combinations of which side offers the distribution header (header mode only when both do) against a directly driven Connection, each frame read by an independent implementation; operations before the handshake and after a handshake that failed at its last steps (wrong ack digest, refusal status, short ack, close), with the peer recording any byte that still arrives; frames of 1..13 MiB written while the peer is not reading yet, followed by a small frame, in both modes; remote calls through a Node with a 9..16 MiB request and a 1..150 ms timeout to a peer that starts reading late, followed by ordinary operations (the peer's bytes must split into whole frames); histories of link / unlink / monitor / demonitor / send through a Node for processes living on it, the same pairs again and again, also tried before the connection exists (one frame per successful operation, in order); (2) 2..64 tasks x 5..40 operations through one Node on a current-thread runtime with seeded yields at the partial-write hooks and on a multi-thread runtime; evaluations = operations judged; distinct = distinct (mode, operation, argument class) + concurrency configurations + observed frame interleavings (hash of the caller sequence at the peer)");
    ctx.assume("unique ids travel in the payload, or in the `from` pid for payload-less operations");
    let mut rng = Rng::derive(ctx.seed, 7, 1);
    {
        let rt = tokio::runtime::Builder::new_current_thread().enable_all().build().expect("runtime");
        rt.block_on(async {
            let epmd = net::start_epmd().await;
            for round in 0..ctx.pick(2usize, 20usize) {
                single_ops(ctx, &mut rng, &epmd, (false, true), round).await;
                single_ops(ctx, &mut rng, &epmd, (true, true), round).await;
                single_ops(ctx, &mut rng, &epmd, (true, false), round).await;
                if round % 2 == 0 {
                    single_ops(ctx, &mut rng, &epmd, (false, false), round).await;
                }
                after_failed_handshake(ctx, &epmd, round).await;
                if round == 0 || !ctx.quick() {
                    big_frames(ctx, &epmd, round).await;
                }
                for k in 0..ctx.pick(3usize, 12usize) {
                    node_histories(ctx, &mut rng, &epmd, round * 20 + k).await;
                }
                node_big_call(ctx, &epmd, round * 3).await;
                node_big_call(ctx, &epmd, round * 3 + 1).await;
                if !ctx.quick() {
                    node_big_call(ctx, &epmd, round * 3 + 2).await;
                }
            }
            for r in 0..ctx.pick(25usize, 2500usize) {
                if !ctx.time_left() {
                    break;
                }
                concurrent(ctx, &mut rng, &epmd, r, true).await;
            }
        });
    }
    {
        let rt = tokio::runtime::Builder::new_multi_thread().worker_threads(8).enable_all().build().expect("runtime");
        rt.block_on(async {
            let epmd = net::start_epmd().await;
            for r in 0..ctx.pick(25usize, 2500usize) {
                if !ctx.time_left() {
                    break;
                }
                concurrent(ctx, &mut rng, &epmd, 100_000 + r, false).await;
            }
        });
    }
    let _ = Reader::new(&[]);
}
