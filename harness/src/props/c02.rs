//! C02 – decoding untrusted bytes never panics, aborts, overflows a 2 MiB stack or blows up memory.
//!
//! The decoders run in child processes (`vh c02-child`) on a long-lived thread with a 2 MiB stack
//! (tokio's default worker stack) under the counting allocator; the parent attributes a crash to the
//! case in flight, restarts the child and goes on.

use super::common::guarded;
use crate::genr::bytes::{ALL_TAGS, INTERESTING_U32, mutate};
use crate::genr::val::{Gen, GenCfg, boundary_leaves};
use crate::mon::alloc;
use crate::out::{Ctx, hex, hex_cap, unhex};
use crate::refmodel::decode::AllowanceWorker;
use crate::refmodel::encode::{Opts, RandomChooser, ref_encode};
use crate::rng::Rng;
use serde_json::json;
use std::io::{BufRead, BufReader, Write};
use std::process::{Command, Stdio};

const STACK: usize = 2 * 1024 * 1024;
const HARD_CAP: usize = 6 << 30; // a request above this is reported by the allocator, never served
pub const ENTRIES: &[&str] = &[
    "decode",
    "decode_borrowed",
    "decode_with_atom_cache",
    "decode_with_trailing",
    "decode_raw_term",
    "decode_with_cache",
    "decode_fragment_header",
    "decode_fragment_cont",
    "decode_with_atom_cache(cache-of-a-running-connection)",
];

/// Three valid messages of a conforming sender that fill an atom cache the way a running connection does (17 entries
/// over two segments, the last message referring to old entries only).
fn priming_messages() -> &'static Vec<Vec<u8>> {
    use crate::refmodel::dist::{AtomRef, write_message};
    use crate::refmodel::val::Val;
    static M: std::sync::OnceLock<Vec<Vec<u8>>> = std::sync::OnceLock::new();
    M.get_or_init(|| {
        let r = |a: &str, seg: u8, i: u8, new_entry: bool| AtomRef { atom: a.to_string(), segment: seg, internal: i, new_entry };
        let first: Vec<AtomRef> = (0..12u8).map(|i| r(&format!("p{}", i), 0, i, true)).collect();
        let second: Vec<AtomRef> = (0..5u8).map(|i| r(&format!("q{}", i), 1, i * 3, true)).collect();
        let third: Vec<AtomRef> = vec![r("p0", 0, 0, false), r("q1", 1, 3, false), r("p11", 0, 11, false)];
        let tup = |rs: &[AtomRef]| Val::Tuple(rs.iter().map(|x| Val::atom(&x.atom)).collect());
        vec![write_message(&first, &[&tup(&first)]), write_message(&second, &[&tup(&second)]), write_message(&third, &[&tup(&third)])]
    })
}

#[derive(Clone)]
pub enum Case {
    /// label, full input
    Bytes(String, Vec<u8>),
    /// label, prefix (after the version byte), repetitions, suffix: 131 ++ prefix*n ++ suffix
    Nest(String, Vec<u8>, usize, Vec<u8>),
}

impl Case {
    fn label(&self) -> &str {
        match self {
            Case::Bytes(l, _) | Case::Nest(l, _, _, _) => l,
        }
    }
    fn line(&self) -> String {
        match self {
            Case::Bytes(l, b) => format!("H {} {}\n", l, if b.is_empty() { "-".to_string() } else { hex(b) }),
            Case::Nest(l, p, n, s) => format!(
                "N {} {} {} {}\n",
                l,
                hex(p),
                n,
                if s.is_empty() { "-".to_string() } else { hex(s) }
            ),
        }
    }
    fn describe(&self) -> serde_json::Value {
        match self {
            Case::Bytes(l, b) => json!({"label": l, "len": b.len(), "bytes": hex_cap(b, 96)}),
            Case::Nest(l, p, n, s) => json!({"label": l, "prefix": hex(p), "repeat": n, "suffix": hex_cap(s, 32)}),
        }
    }
    fn materialize(&self) -> Vec<u8> {
        match self {
            Case::Bytes(_, b) => b.clone(),
            Case::Nest(_, p, n, s) => {
                let mut v = Vec::with_capacity(1 + p.len() * n + s.len());
                v.push(131);
                for _ in 0..*n {
                    v.extend_from_slice(p);
                }
                v.extend_from_slice(s);
                v
            }
        }
    }
}

// ------------------------------------------------------------------------------------ child side

fn run_entry(entry: usize, data: &[u8]) -> (char, usize, usize) {
    alloc::begin();
    let r = guarded(|| match entry {
        0 => erltf::decode(data).is_ok(),
        1 => erltf::decode_borrowed(data).is_ok(),
        2 => {
            let mut cache = erltf::AtomCache::new();
            erltf::decode_with_atom_cache(data, &mut cache).is_ok()
        }
        3 => erltf::decoder::decode_with_trailing(data).is_ok(),
        4 => erltf::decoder::decode_raw_term(if data.is_empty() { data } else { &data[1..] }).is_ok(),
        5 => erltf::decoder::decode_with_cache(data).is_ok(),
        6 => erltf::decoder::decode_fragment_header(data).is_ok(),
        7 => erltf::decoder::decode_fragment_cont(data).is_ok(),
        _ => {
            let mut cache = erltf::AtomCache::new();
            for m in priming_messages() {
                let _ = erltf::decode_with_atom_cache(m, &mut cache);
            }
            erltf::decode_with_atom_cache(data, &mut cache).is_ok()
        }
    });
    let (peak, largest) = alloc::end();
    let o = match r {
        Ok(true) => 'o',
        Ok(false) => 'e',
        Err(_) => 'p',
    };
    (o, peak, largest)
}

pub fn child_main() {
    super::common::quiet_panics();
    alloc::set_hard_cap(HARD_CAP);
    let worker = std::thread::Builder::new()
        .stack_size(STACK)
        .name("decoder-2MiB".into())
        .spawn(|| {
            let stdin = std::io::stdin();
            let stdout = std::io::stdout();
            let allowance = AllowanceWorker::start();
            let mut idx = 0usize;
            for line in stdin.lock().lines() {
                let line = match line {
                    Ok(l) => l,
                    Err(_) => break,
                };
                let parts: Vec<&str> = line.split(' ').collect();
                let data: Vec<u8> = match parts.as_slice() {
                    ["H", _l, h] => {
                        if *h == "-" {
                            vec![]
                        } else {
                            unhex(h).unwrap_or_default()
                        }
                    }
                    ["N", _l, p, n, s] => {
                        let p = unhex(p).unwrap_or_default();
                        let n: usize = n.parse().unwrap_or(0);
                        let s = if *s == "-" { vec![] } else { unhex(s).unwrap_or_default() };
                        let mut v = Vec::with_capacity(1 + p.len() * n + s.len());
                        v.push(131);
                        for _ in 0..n {
                            v.extend_from_slice(&p);
                        }
                        v.extend_from_slice(&s);
                        v
                    }
                    _ => continue,
                };
                {
                    let mut o = stdout.lock();
                    let _ = writeln!(o, "B {}", idx);
                    let _ = o.flush();
                }
                let infl = allowance.measure(&data);
                let mut out = String::new();
                for e in 0..ENTRIES.len() {
                    {
                        let mut o = stdout.lock();
                        let _ = writeln!(o, "T {} {}", idx, e);
                        let _ = o.flush();
                    }
                    let (o, peak, largest) = run_entry(e, &data);
                    out.push_str(&format!("{}:{}:{} ", o, peak, largest));
                }
                {
                    let mut o = stdout.lock();
                    let _ = writeln!(o, "E {} {} {} {}", idx, data.len(), infl, out.trim_end());
                    let _ = o.flush();
                }
                idx += 1;
            }
        })
        .expect("spawn");
    let _ = worker.join();
}

// ----------------------------------------------------------------------------------- parent side

fn be32(v: u32) -> [u8; 4] {
    v.to_be_bytes()
}

/// (a) every tag byte followed by every interesting value of its count/length fields, with
/// 0..16 bytes behind it.
fn count_grid(rng: &mut Rng, quick: bool) -> Vec<Case> {
    let mut out = Vec::new();
    let tails: &[usize] = if quick { &[0, 1, 16] } else { &[0, 1, 2, 3, 4, 5, 8, 12, 16] };
    for tag in 0u16..=255 {
        let tag = tag as u8;
        for &v in INTERESTING_U32 {
            for &t in tails {
                let filler = rng.bytes(t);
                // 4-byte count directly after the tag
                let mut b = vec![131, tag];
                b.extend_from_slice(&be32(v));
                b.extend_from_slice(&filler);
                out.push(Case::Bytes(format!("grid/tag{}/u32", tag), b));
                if v <= 65535 {
                    let mut b = vec![131, tag];
                    b.extend_from_slice(&(v as u16).to_be_bytes());
                    b.extend_from_slice(&filler);
                    out.push(Case::Bytes(format!("grid/tag{}/u16", tag), b));
                }
                if v <= 255 {
                    let mut b = vec![131, tag, v as u8];
                    b.extend_from_slice(&filler);
                    out.push(Case::Bytes(format!("grid/tag{}/u8", tag), b));
                }
            }
        }
    }
    // fields that are not directly behind the tag
    let pid = [88u8, 119, 1, b'n', 0, 0, 0, 1, 0, 0, 0, 0, 0, 0, 0, 1];
    for &v in INTERESTING_U32 {
        for &t in tails {
            let filler = rng.bytes(t);
            // NEW_FUN_EXT: size, arity, uniq, index, num_free = v, module, oldindex, olduniq, pid
            for size in [0u32, 30, v] {
                let mut b = vec![131, 112];
                b.extend_from_slice(&be32(size));
                b.push(1);
                b.extend_from_slice(&[7u8; 16]);
                b.extend_from_slice(&be32(1));
                b.extend_from_slice(&be32(v));
                b.extend_from_slice(&[119, 1, b'm', 97, 1, 97, 2]);
                b.extend_from_slice(&pid);
                b.extend_from_slice(&filler);
                out.push(Case::Bytes("grid/tag112/num_free".to_string(), b));
            }
            // references: len2 after the tag is covered above; bignum n4; compressed size
            let mut b = vec![131, 80];
            b.extend_from_slice(&be32(v));
            b.extend_from_slice(&[0x78, 0x9c]);
            b.extend_from_slice(&filler);
            out.push(Case::Bytes("grid/tag80/declared".to_string(), b));
            // dist header: 131 68 n flags...
            let mut b = vec![131, 68, (v & 0xff) as u8];
            b.extend_from_slice(&filler);
            out.push(Case::Bytes("grid/dist-header/n".to_string(), b));
            // fragment header
            let mut b = vec![131, 69];
            b.extend_from_slice(&(v as u64).to_be_bytes());
            b.extend_from_slice(&((v as u64) << 32 | v as u64).to_be_bytes());
            b.push((v & 0xff) as u8);
            b.extend_from_slice(&filler);
            out.push(Case::Bytes("grid/frag-header".to_string(), b));
            // list inside tuple, map arity
            let mut b = vec![131, 104, 1, 108];
            b.extend_from_slice(&be32(v));
            b.extend_from_slice(&filler);
            out.push(Case::Bytes("grid/nested-list-count".to_string(), b));
        }
    }
    out
}

/// (b) nesting bombs through every tag that re-enters the parser.
fn nesting(quick: bool) -> Vec<Case> {
    let depths: &[usize] = if quick { &[10, 100, 200, 250, 255, 256, 257, 1000, 10_000, 100_000, 1_000_000] } else { &[10, 100, 200, 250, 254, 255, 256, 257, 300, 500, 1000, 2000, 5000, 10_000, 50_000, 100_000, 1_000_000, 4_000_000] };
    let mut out = Vec::new();
    let units: Vec<(&str, Vec<u8>, Vec<u8>)> = vec![
        ("small-tuple", vec![104, 1], vec![106]),
        ("large-tuple", vec![105, 0, 0, 0, 1], vec![106]),
        ("list-head", vec![108, 0, 0, 0, 1], vec![106]),
        ("list-tail", vec![108, 0, 0, 0, 1, 97, 1], vec![106]),
        ("map-key", vec![116, 0, 0, 0, 1], vec![106]),
        ("map-value", vec![116, 0, 0, 0, 1, 97, 1], vec![106]),
        ("local-ext", vec![121, 1, 2, 3, 4, 5, 6, 7, 8], vec![106]),
        ("pid-node", vec![88], vec![119, 1, b'n']),
        ("port-node", vec![120], vec![119, 1, b'n']),
        ("ref-node", vec![90, 0, 1], vec![119, 1, b'n']),
        ("old-pid-node", vec![103], vec![119, 1, b'n']),
        ("export-module", vec![113], vec![119, 1, b'm']),
        ("fun-module", {
            let mut v = vec![112, 0, 0, 0, 0, 1];
            v.extend_from_slice(&[7u8; 16]);
            v.extend_from_slice(&[0, 0, 0, 1, 0, 0, 0, 0]);
            v
        }, vec![119, 1, b'm']),
    ];
    for (name, unit, suffix) in &units {
        for &d in depths {
            out.push(Case::Nest(format!("nest/{}/{}", name, d), unit.clone(), d, suffix.clone()));
        }
    }
    // mixed units
    for &d in depths {
        let mut unit = vec![104, 1, 108, 0, 0, 0, 1];
        unit.extend_from_slice(&[116, 0, 0, 0, 1, 97, 1]);
        out.push(Case::Nest(format!("nest/mixed/{}", d), unit, d / 3 + 1, vec![106]));
    }
    // fun free variables nesting: NEW_FUN_EXT ... num_free=1, then nested
    for &d in depths {
        if d > 100_000 {
            continue;
        }
        let mut unit = vec![112, 0, 0, 0, 0, 1];
        unit.extend_from_slice(&[7u8; 16]);
        unit.extend_from_slice(&[0, 0, 0, 1, 0, 0, 0, 1]);
        unit.extend_from_slice(&[119, 1, b'm', 97, 1, 97, 2]);
        unit.extend_from_slice(&[88, 119, 1, b'n', 0, 0, 0, 1, 0, 0, 0, 0, 0, 0, 0, 1]);
        out.push(Case::Nest(format!("nest/fun-free-var/{}", d), unit, d, vec![106]));
    }
    out
}

fn zlib(data: &[u8]) -> Vec<u8> {
    let mut enc = flate2::write::ZlibEncoder::new(Vec::new(), flate2::Compression::best());
    enc.write_all(data).unwrap();
    enc.finish().unwrap()
}

/// (e) compressed sections inflating to more / less than declared, zip bombs, nesting.
fn compressed(quick: bool) -> Vec<Case> {
    let mut out = Vec::new();
    let mk = |declared: u32, body: &[u8]| {
        let mut b = vec![131, 80];
        b.extend_from_slice(&be32(declared));
        b.extend_from_slice(&zlib(body));
        b
    };
    // honest
    let mut term = vec![109];
    term.extend_from_slice(&be32(1000));
    term.extend_from_slice(&vec![b'a'; 1000]);
    out.push(Case::Bytes("compressed/honest".into(), mk(term.len() as u32, &term)));
    out.push(Case::Bytes("compressed/declares-less".into(), mk(10, &term)));
    out.push(Case::Bytes("compressed/declares-more".into(), mk(50_000_000, &term)));
    out.push(Case::Bytes("compressed/declares-max".into(), mk(100_000_000, &term)));
    out.push(Case::Bytes("compressed/declares-over-max".into(), mk(100_000_001, &term)));
    out.push(Case::Bytes("compressed/declares-u32max".into(), mk(u32::MAX, &term)));
    // bombs: a binary of zeros
    for mb in if quick { vec![8usize, 64] } else { vec![1usize, 8, 64, 256, 900] } {
        let n = mb << 20;
        let mut t = vec![109];
        t.extend_from_slice(&be32(n as u32));
        t.extend(std::iter::repeat(0u8).take(n));
        out.push(Case::Bytes(format!("compressed/bomb-{}MiB-declares-10", mb), mk(10, &t)));
        if mb <= 64 {
            out.push(Case::Bytes(format!("compressed/bomb-{}MiB-honest", mb), mk(t.len() as u32, &t)));
        }
    }
    // compressed inside compressed: every recursion level costs stack, so walk the depth up to and past the
    // nesting limit (the deepest input is a few KB)
    let depths: Vec<usize> = if quick { vec![10, 50, 100, 150, 200, 250, 255, 256, 300] } else { vec![10, 50, 100, 120, 150, 200, 250, 254, 255, 256, 257, 300, 1000, 3000] };
    let mut inner = vec![106u8];
    let mut level = 0usize;
    for d in depths {
        while level < d {
            let mut b = vec![80];
            b.extend_from_slice(&be32(inner.len() as u32));
            b.extend_from_slice(&zlib(&inner));
            inner = b;
            level += 1;
        }
        let mut b = vec![131];
        b.extend_from_slice(&inner);
        out.push(Case::Bytes(format!("compressed/nested-compressed/{}", d), b.clone()));
        // the same depth reached through a container between the layers
        let mut t = vec![131, 104, 1];
        t.extend_from_slice(&inner);
        out.push(Case::Bytes(format!("compressed/nested-compressed-in-tuple/{}", d), t));
    }
    // garbage zlib
    out.push(Case::Bytes("compressed/garbage".into(), {
        let mut b = vec![131, 80, 0, 0, 0, 5];
        b.extend_from_slice(&[1, 2, 3, 4, 5, 6, 7]);
        b
    }));
    out
}

fn corpus_cases(ctx: &Ctx, rng: &mut Rng) -> Vec<Case> {
    let mut out = Vec::new();
    let opts = Opts { allow_local: true, ..Opts::default() };
    let mut valid: Vec<Vec<u8>> = Vec::new();
    for leaf in boundary_leaves(false) {
        let mut ch = RandomChooser { rng, legacy_bias: 30, taken: vec![] };
        if let Ok(b) = ref_encode(&leaf, &mut ch, &opts) {
            if b.len() <= 4096 {
                valid.push(b);
            }
        }
    }
    let n = ctx.pick(300usize, 20_000usize);
    let mut grng = Rng::derive(ctx.seed, 2, 7);
    for _ in 0..n {
        let cfg = GenCfg { max_depth: 2 + grng.below(5), max_nodes: 4 + grng.below(40), float_keys: true, ..GenCfg::default() };
        let v = {
            let mut g = Gen::new(&mut grng, cfg);
            g.value()
        };
        let mut ch = RandomChooser { rng, legacy_bias: 30, taken: vec![] };
        if let Ok(b) = ref_encode(&v, &mut ch, &opts) {
            if b.len() <= 8192 {
                valid.push(b);
            }
        }
    }
    for (i, b) in valid.iter().enumerate() {
        out.push(Case::Bytes("corpus/valid".into(), b.clone()));
        // (c) truncation at every offset
        if b.len() <= 120 || i % 40 == 0 {
            let step = if b.len() <= 120 { 1 } else { b.len() / 61 + 1 };
            let mut k = 0;
            while k < b.len() {
                out.push(Case::Bytes("corpus/truncated".into(), b[..k].to_vec()));
                k += step;
            }
        }
        // (d) bit flips / splices
        let donor = &valid[rng.below(valid.len())];
        let mut cur = b.clone();
        for r in 0..ctx.pick(6, 16) {
            cur = mutate(rng, if r % 4 == 0 { b } else { &cur }, donor);
            if cur.len() > 1 << 16 {
                break;
            }
            out.push(Case::Bytes("corpus/mutated".into(), cur.clone()));
        }
        // as payload of a dist header / fragment header
        if i % 7 == 0 {
            let mut d = vec![131, 68, 0];
            d.extend_from_slice(&b[1..]);
            out.push(Case::Bytes("corpus/in-dist-header".into(), d));
            let mut f = vec![131, 69];
            f.extend_from_slice(&rng.bytes(16));
            f.push(rng.next_u32() as u8);
            f.extend_from_slice(&b[1..]);
            out.push(Case::Bytes("corpus/in-frag-header".into(), f));
            // hostile dist header: n refs, flags, then garbage
            let nrefs = *rng.pick(&[1u8, 2, 3, 7, 8, 200, 255]);
            let mut d = vec![131, 68, nrefs];
            d.extend(rng.bytes(nrefs as usize / 2 + 1));
            for _ in 0..rng.below(nrefs as usize + 1) {
                d.push(rng.next_u32() as u8);
                if rng.bool() {
                    let l = rng.below(6);
                    d.push(l as u8);
                    d.extend(rng.bytes(l));
                }
            }
            d.extend_from_slice(&b[1..]);
            out.push(Case::Bytes("corpus/hostile-dist-header".into(), d));
        }
    }
    // cache references in every position against headers with few references: indices inside the header, just past
    // it, inside what an earlier message left in the cache, and far out; headers whose references are old entries
    // (resolvable only on a running connection), new ones, or a mix
    for k in [0usize, 1, 2, 3, 5] {
        for variant in 0..4 {
            let mut d = vec![131u8, 68, k as u8];
            if k > 0 {
                let mut flags = vec![0u8; k / 2 + 1];
                let mut body = Vec::new();
                for i in 0..k {
                    let new_entry = match variant {
                        0 => true,
                        1 => false,
                        _ => i % 2 == 0,
                    };
                    let seg = if variant == 3 { 1u8 } else { 0 };
                    let nib = seg | if new_entry { 8 } else { 0 };
                    flags[i / 2] |= if i % 2 == 0 { nib } else { nib << 4 };
                    body.push((i * 3) as u8);
                    if new_entry {
                        body.extend_from_slice(&[2, b'z', b'0' + i as u8]);
                    }
                }
                d.extend_from_slice(&flags);
                d.extend_from_slice(&body);
            }
            for idx in (0u8..24).chain([100, 200, 254, 255]) {
                for shape in 0..4 {
                    let mut m = d.clone();
                    match shape {
                        0 => m.extend_from_slice(&[82, idx]),
                        1 => m.extend_from_slice(&[104, 2, 82, 0, 82, idx]),
                        2 => m.extend_from_slice(&[116, 0, 0, 0, 1, 82, idx, 97, 1]),
                        _ => m.extend_from_slice(&[88, 82, idx, 0, 0, 0, 1, 0, 0, 0, 2, 0, 0, 0, 3]),
                    }
                    if shape == 1 {
                        // a payload term behind the control term
                        m.extend_from_slice(&[131, 82, idx]);
                    }
                    out.push(Case::Bytes(format!("cache-ref-grid/{}refs/{}", k, ["new", "old", "mixed", "other-segment"][variant]), m));
                }
            }
        }
    }
    // valid maps keyed by sibling values (numbers of every representation that are neighbours or far apart in
    // digit count, identifiers one field apart, lists differing in their tails, non-finite floats ...): the
    // decoders order and hash keys while building a map, so this code runs on untrusted input too
    {
        use crate::genr::near::{Family, Twins, families, sibling_maps};
        use crate::refmodel::val::Val;
        let mut fams = families(&mut grng);
        fams.push(Family {
            name: "num:non-finite",
            members: [0x7ff8_0000_0000_0000u64, 0xfff8_0000_0000_0000, 0x7ff8_0000_0000_0001, 0x7ff0_0000_0000_0001, 0x7ff0_0000_0000_0000, 0xfff0_0000_0000_0000, 0x3ff0_0000_0000_0000, 0x7fef_ffff_ffff_ffff, 0x0000_0000_0000_0001]
                .iter()
                .map(|b| Val::Float(*b))
                .chain([Val::int(0), Val::int(1), Val::Int(crate::refmodel::val::Int::pow2(1024)), Val::Int(crate::refmodel::val::Int::pow2(1023)), Val::Int(crate::refmodel::val::Int::pow2(2000))])
                .collect(),
        });
        let maps = sibling_maps(&fams, Twins::Keep, !ctx.quick());
        for (i, (_, v)) in maps.iter().enumerate() {
            let mut ch = RandomChooser { rng, legacy_bias: 30, taken: vec![] };
            if let Ok(b) = ref_encode(v, &mut ch, &opts) {
                if b.len() > 8192 {
                    continue;
                }
                if i % 5 == 0 {
                    let donor = &valid[i % valid.len()];
                    out.push(Case::Bytes("siblings/mutated".into(), mutate(rng, &b, donor)));
                }
                out.push(Case::Bytes("siblings/valid-map".into(), b));
            }
        }
    }
    // the vocabulary real nodes send (exit reasons, tags, module names), under every atom tag, as the node of
    // an identifier, as a module name and as a new atom-cache entry
    for w in crate::genr::val::OTP_VOCABULARY {
        let wb = w.as_bytes();
        for tag in [100u8, 115, 118, 119] {
            let mut b = vec![131u8, tag];
            if tag == 100 || tag == 118 {
                b.extend_from_slice(&(wb.len() as u16).to_be_bytes());
            } else {
                b.push(wb.len() as u8);
            }
            b.extend_from_slice(wb);
            out.push(Case::Bytes("vocabulary/atom".into(), b));
        }
        let mut atom = vec![119u8, wb.len() as u8];
        atom.extend_from_slice(wb);
        let mut pid = vec![131u8, 88];
        pid.extend_from_slice(&atom);
        pid.extend_from_slice(&[0, 0, 0, 1, 0, 0, 0, 0, 0, 0, 0, 1]);
        out.push(Case::Bytes("vocabulary/pid-node".into(), pid));
        let mut export = vec![131u8, 113];
        export.extend_from_slice(&atom);
        export.extend_from_slice(&atom);
        export.extend_from_slice(&[97, 2]);
        out.push(Case::Bytes("vocabulary/export-fun".into(), export));
        // {badrpc, {'EXIT', {Word, []}}}
        let mut rpc = vec![131u8, 104, 2, 119, 6, b'b', b'a', b'd', b'r', b'p', b'c', 104, 2, 119, 4, b'E', b'X', b'I', b'T', 104, 2];
        rpc.extend_from_slice(&atom);
        rpc.push(106);
        out.push(Case::Bytes("vocabulary/rpc-error-reply".into(), rpc));
        // distribution header introducing the word as a new cache entry, control term = that atom
        let mut d = vec![131u8, 68, 1, 0x08, 0x00, 7, wb.len() as u8];
        d.extend_from_slice(wb);
        d.extend_from_slice(&[82, 0]);
        out.push(Case::Bytes("vocabulary/dist-header-new-entry".into(), d));
    }
    // text whose multi-byte characters start at every byte offset: an ASCII run of every length 0..300 followed
    // by two-, three- and four-byte characters, as an atom (UTF-8 and Latin-1 tags), a map key, a map value,
    // the node of a pid, a binary and a STRING_EXT - whatever cuts, pads or displays text at a byte offset
    // meets a character boundary it did not expect
    {
        let step = if ctx.quick() { 1 } else { 1 };
        for k in (0..=300usize).step_by(step) {
            let mut text = "a".repeat(k);
            text.push_str(["\u{e9}\u{20ac}\u{1d518}tail", "\u{1d518}\u{e9}x", "\u{20ac}\u{20ac}"][k % 3]);
            let tb = text.as_bytes();
            let mut atom = vec![118u8];
            atom.extend_from_slice(&(tb.len() as u16).to_be_bytes());
            atom.extend_from_slice(tb);
            let mut latin: Vec<u8> = vec![100];
            let lb: Vec<u8> = std::iter::repeat(b'a').take(k).chain([0xe9u8, 0xfc, b'z']).collect();
            latin.extend_from_slice(&(lb.len() as u16).to_be_bytes());
            latin.extend_from_slice(&lb);
            for a in [&atom, &latin] {
                let mut bare = vec![131u8];
                bare.extend_from_slice(a);
                out.push(Case::Bytes("text-boundary/atom".into(), bare));
                let mut key = vec![131u8, 116, 0, 0, 0, 1];
                key.extend_from_slice(a);
                key.extend_from_slice(&[97, 1]);
                out.push(Case::Bytes("text-boundary/map-key".into(), key));
                let mut val = vec![131u8, 116, 0, 0, 0, 1, 97, 1];
                val.extend_from_slice(a);
                out.push(Case::Bytes("text-boundary/map-value".into(), val));
                let mut pid = vec![131u8, 88];
                pid.extend_from_slice(a);
                pid.extend_from_slice(&[0, 0, 0, 1, 0, 0, 0, 0, 0, 0, 0, 1]);
                out.push(Case::Bytes("text-boundary/pid-node".into(), pid));
                // nested: the key of a map inside a list inside a tuple (error paths are built on the way)
                let mut nested = vec![131u8, 104, 2, 97, 0, 108, 0, 0, 0, 1, 116, 0, 0, 0, 1];
                nested.extend_from_slice(a);
                nested.extend_from_slice(&[255]); // the value is undecodable: an error that mentions the key
                out.push(Case::Bytes("text-boundary/map-key-then-error".into(), nested));
            }
            let mut bin = vec![131u8, 109];
            bin.extend_from_slice(&(tb.len() as u32).to_be_bytes());
            bin.extend_from_slice(tb);
            out.push(Case::Bytes("text-boundary/binary".into(), bin));
            if tb.len() <= 65535 {
                let mut st = vec![131u8, 107];
                st.extend_from_slice(&(tb.len() as u16).to_be_bytes());
                st.extend_from_slice(tb);
                out.push(Case::Bytes("text-boundary/string-ext".into(), st));
            }
        }
    }
    // random bytes
    for _ in 0..ctx.pick(3000usize, 200_000usize) {
        let n = rng.below(48);
        let mut x = rng.bytes(n);
        if rng.chance(3, 4) {
            x.insert(0, 131);
            if x.len() > 1 && rng.bool() {
                x[1] = *rng.pick(ALL_TAGS);
            }
        }
        out.push(Case::Bytes("random".into(), x));
    }
    out
}

struct Outcome {
    case: usize,
    kind: String, // "ok" or a failure class
    detail: serde_json::Value,
}

/// Run one shard of cases through child processes, restarting after every crash.
fn run_shard(exe: &std::path::Path, cases: &[Case], first_index: usize) -> (Vec<Outcome>, u64, Vec<String>) {
    let mut outcomes = Vec::new();
    let mut evals = 0u64;
    let mut notes = Vec::new();
    let mut start = 0usize;
    let mut restarts = 0;
    while start < cases.len() {
        let mut child = match Command::new(exe)
            .arg("c02-child")
            .stdin(Stdio::piped())
            .stdout(Stdio::piped())
            .stderr(Stdio::piped())
            .spawn()
        {
            Ok(c) => c,
            Err(e) => {
                notes.push(format!("child could not be started: {}", e));
                return (outcomes, evals, notes);
            }
        };
        let mut stdin = child.stdin.take().unwrap();
        let lines: Vec<String> = cases[start..].iter().map(|c| c.line()).collect();
        let writer = std::thread::spawn(move || {
            for l in lines {
                if stdin.write_all(l.as_bytes()).is_err() {
                    break;
                }
            }
        });
        let stdout = child.stdout.take().unwrap();
        let mut stderr = child.stderr.take().unwrap();
        let err_reader = std::thread::spawn(move || {
            let mut s = String::new();
            let _ = std::io::Read::read_to_string(&mut stderr, &mut s);
            s
        });
        let mut in_flight: Option<usize> = None;
        let mut in_entry: usize = 0;
        let mut blowup: Option<u64> = None;
        let mut done_here = 0usize;
        for line in BufReader::new(stdout).lines() {
            let line = match line {
                Ok(l) => l,
                Err(_) => break,
            };
            let mut it = line.split(' ');
            match it.next() {
                Some("B") => {
                    in_flight = it.next().and_then(|x| x.parse().ok());
                    in_entry = 0;
                }
                Some("T") => {
                    let _ = it.next();
                    in_entry = it.next().and_then(|x| x.parse().ok()).unwrap_or(0);
                }
                Some("X") => {
                    blowup = it.next().and_then(|x| x.parse().ok());
                }
                Some("E") => {
                    let idx: usize = it.next().and_then(|x| x.parse().ok()).unwrap_or(0);
                    let len: usize = it.next().and_then(|x| x.parse().ok()).unwrap_or(0);
                    let infl: usize = it.next().and_then(|x| x.parse().ok()).unwrap_or(0);
                    let limit = (1usize << 20) + 256 * (len + infl);
                    for (e, tok) in it.enumerate() {
                        let f: Vec<&str> = tok.split(':').collect();
                        if f.len() != 3 {
                            continue;
                        }
                        evals += 1;
                        let peak: usize = f[1].parse().unwrap_or(0);
                        let largest: usize = f[2].parse().unwrap_or(0);
                        if f[0] == "p" {
                            outcomes.push(Outcome {
                                case: first_index + start + idx,
                                kind: format!("panic:{}", ENTRIES[e]),
                                detail: json!({"entry": ENTRIES[e]}),
                            });
                        }
                        if peak > limit || largest > limit {
                            outcomes.push(Outcome {
                                case: first_index + start + idx,
                                kind: format!("memory-out-of-proportion:{}", ENTRIES[e]),
                                detail: json!({"entry": ENTRIES[e], "peak": peak, "largest_request": largest, "limit": limit, "input_len": len, "inflated": infl}),
                            });
                        }
                    }
                    in_flight = None;
                    done_here = idx + 1;
                }
                _ => {}
            }
        }
        let status = child.wait();
        let _ = writer.join();
        let errtxt = err_reader.join().unwrap_or_default();
        match in_flight {
            None => {
                // child ended without a case in flight: all done (or stdin closed)
                start += done_here.max(cases.len() - start);
            }
            Some(idx) => {
                use std::os::unix::process::ExitStatusExt;
                let st = status.ok();
                let sig = st.and_then(|s| s.signal());
                let code = st.and_then(|s| s.code());
                let kind = if let Some(b) = blowup {
                    let _ = b;
                    "allocation-blowup".to_string()
                } else if errtxt.contains("overflowed its stack") {
                    "stack-overflow".to_string()
                } else if errtxt.contains("memory allocation of") {
                    "allocation-abort".to_string()
                } else if let Some(s) = sig {
                    format!("killed-by-signal-{}", s)
                } else {
                    format!("child-exit-{}", code.unwrap_or(-1))
                };
                outcomes.push(Outcome {
                    case: first_index + start + idx,
                    kind: format!("{}:{}", kind, ENTRIES[in_entry.min(ENTRIES.len() - 1)]),
                    detail: json!({"entry": ENTRIES[in_entry.min(ENTRIES.len() - 1)], "signal": sig, "exit": code, "requested_bytes": blowup, "stderr": errtxt.chars().take(300).collect::<String>()}),
                });
                start += idx + 1;
                restarts += 1;
                if restarts > 5000 {
                    notes.push("more than 5000 child crashes in one shard; giving up on the rest".into());
                    break;
                }
            }
        }
    }
    (outcomes, evals, notes)
}

pub fn run(ctx: &Ctx) {
    ctx.rule("cases = (tag x count-field value x trailing bytes) grid + nesting bombs through every re-entrant tag at depths 10..4e6 + truncations at every offset / bit-flips / splices of a valid corpus + compressed sections (honest, lying, bombs, nested) + hostile dist/fragment headers + random bytes, each through all 8 decoding entry points in a child process on a 2 MiB-stack thread; evaluations = (case, entry point) executions judged; distinct = distinct (generator label, outcome vector over the 8 entry points) combinations");
    ctx.assume("memory limit per call = 1 MiB + 256 x (input length + bytes an independent reader really inflates from all COMPRESSED sections the input contains, nested ones included, each capped by its declared size); stack = 2 MiB (tokio's default worker stack)");
    let exe = std::env::current_exe().expect("current exe");
    let mut rng = Rng::derive(ctx.seed, 2, 1);
    let mut cases: Vec<Case> = Vec::new();
    cases.extend(count_grid(&mut rng, ctx.quick()));
    cases.extend(nesting(ctx.quick()));
    cases.extend(compressed(ctx.quick()));
    cases.extend(corpus_cases(ctx, &mut rng));
    ctx.extra("cases", json!(cases.len()));
    // shard over worker threads, each driving its own children
    let shards = ctx.pick(8usize, 16usize);
    let per = cases.len().div_ceil(shards);
    let mut handles = Vec::new();
    for s in 0..shards {
        let lo = (s * per).min(cases.len());
        let hi = ((s + 1) * per).min(cases.len());
        let slice: Vec<Case> = cases[lo..hi].to_vec();
        let exe = exe.clone();
        handles.push(std::thread::spawn(move || run_shard(&exe, &slice, lo)));
    }
    let mut class_set: std::collections::HashSet<String> = std::collections::HashSet::new();
    for h in handles {
        let (outcomes, evals, notes) = h.join().expect("shard");
        ctx.eval(evals);
        for n in notes {
            ctx.inconclusive(&n);
        }
        for o in outcomes {
            let c = &cases[o.case];
            // cause class: failure kind + the generator label without its numeric parameters
            let label = c.label();
            let cause: String = {
                let parts: Vec<&str> = label.split('/').collect();
                if parts[0] == "nest" {
                    format!("nest/{}", parts[1])
                } else {
                    label.to_string()
                }
            };
            ctx.viol(
                &format!("C02:{}:{}", o.kind, cause),
                "a decoding entry point did not simply return a term or an error",
                json!({"case": c.describe(), "outcome": o.detail}),
            );
        }
    }
    for c in &cases {
        class_set.insert(c.label().to_string());
    }
    for l in class_set {
        ctx.class(&l);
    }
    for i in [0usize, cases.len() / 3, cases.len() / 2, cases.len() - 1] {
        ctx.sample(cases[i].describe());
    }
    let _ = Case::materialize;
}
