pub mod common;
pub mod disturb;
pub mod c01;
pub mod c02;
pub mod c03;
pub mod c04;
pub mod c05;
pub mod c06;
pub mod c07;
pub mod c08;
pub mod c09;
pub mod c10;
pub mod c11;
pub mod c13;
pub mod c14;
pub mod c15;
pub mod c16;
pub mod c17;
pub mod c18;
pub mod c19;
pub mod c20;

use crate::out::Ctx;

pub fn dispatch(prop: &str, ctx: &'static Ctx, _rest: &[String]) -> bool {
    common::quiet_panics();
    // checks that drive an async runtime get an observer outside of it (see Ctx::watch_stalls); their
    // scenarios call ctx.beat() when they start
    let limit = std::time::Duration::from_secs(120);
    match prop {
        "c06" => ctx.watch_stalls("C06:stall:runtime-blocked", limit),
        "c07" => ctx.watch_stalls("C07:stall:runtime-blocked", limit),
        "c17" => ctx.watch_stalls("C17:stall:runtime-blocked", limit),
        "c18" => ctx.watch_stalls("C18:stall:runtime-blocked", limit),
        "c19" => ctx.watch_stalls("C19:stall:runtime-blocked", limit),
        _ => {}
    }
    match prop {
        "c01" => c01::run(ctx),
        "c02" => c02::run(ctx),
        "c03" => c03::run(ctx),
        "c04" => c04::run(ctx),
        "c05" => c05::run(ctx),
        "c06" => c06::run(ctx),
        "c07" => c07::run(ctx),
        "c08" => c08::run(ctx),
        "c09" => c09::run(ctx),
        "c10" => c10::run(ctx),
        "c11" => c11::run_c11(ctx),
        "c12" => c11::run_c12(ctx),
        "c11dbg" => c11::debug_classes(ctx),
        "c13" => c13::run(ctx),
        "c14" => c14::run(ctx),
        "c15" => c15::run(ctx),
        "c16" => c16::run(ctx),
        "c17" => c17::run(ctx),
        "c18" => c18::run(ctx),
        "c19" => c19::run(ctx),
        "c20" => c20::run(ctx),
        _ => return false,
    }
    true
}
