//! C08 – control messages parse and serialise losslessly and use the protocol's numbering.

use super::common::guarded;
use crate::genr::val::{Gen, GenCfg};
use crate::out::Ctx;
use crate::refmodel::denote::{Style, term_of, val_of};
use crate::refmodel::val::{Int, Val};
use crate::rng::Rng;
use edp_client::control::ControlMessage;
use erltf::OwnedTerm;
use serde_json::json;

fn a(s: &str) -> OwnedTerm {
    OwnedTerm::atom(s)
}

/// The protocol table (erl_dist_protocol): operation -> tuple, with marker atoms as fields.
/// Returns (name, message built through the library's variant, expected tuple per protocol).
fn protocol_table() -> Vec<(&'static str, ControlMessage, Vec<OwnedTerm>)> {
    use ControlMessage as C;
    let t = |tag: i64, fields: &[&str]| -> Vec<OwnedTerm> {
        let mut v = vec![OwnedTerm::Integer(tag)];
        v.extend(fields.iter().map(|f| a(f)));
        v
    };
    vec![
        ("Link", C::Link { from_pid: a("FromPid"), to_pid: a("ToPid") }, t(1, &["FromPid", "ToPid"])),
        ("Send", C::Send { cookie: a("Unused"), to_pid: a("ToPid") }, t(2, &["Unused", "ToPid"])),
        ("Exit", C::Exit { from_pid: a("FromPid"), to_pid: a("ToPid"), reason: a("Reason") }, t(3, &["FromPid", "ToPid", "Reason"])),
        ("Unlink", C::Unlink { from_pid: a("FromPid"), to_pid: a("ToPid") }, t(4, &["FromPid", "ToPid"])),
        ("NodeLink", C::NodeLink, t(5, &[])),
        ("RegSend", C::RegSend { from_pid: a("FromPid"), cookie: a("Unused"), to_name: a("ToName") }, t(6, &["FromPid", "Unused", "ToName"])),
        ("GroupLeader", C::GroupLeader { from_pid: a("FromPid"), to_pid: a("ToPid") }, t(7, &["FromPid", "ToPid"])),
        ("Exit2", C::Exit2 { from_pid: a("FromPid"), to_pid: a("ToPid"), reason: a("Reason") }, t(8, &["FromPid", "ToPid", "Reason"])),
        ("SendTt", C::SendTt { cookie: a("Unused"), to_pid: a("ToPid"), trace_token: a("TraceToken") }, t(12, &["Unused", "ToPid", "TraceToken"])),
        ("ExitTt", C::ExitTt { from_pid: a("FromPid"), to_pid: a("ToPid"), trace_token: a("TraceToken"), reason: a("Reason") }, t(13, &["FromPid", "ToPid", "TraceToken", "Reason"])),
        ("RegSendTt", C::RegSendTt { from_pid: a("FromPid"), cookie: a("Unused"), to_name: a("ToName"), trace_token: a("TraceToken") }, t(16, &["FromPid", "Unused", "ToName", "TraceToken"])),
        ("Exit2Tt", C::Exit2Tt { from_pid: a("FromPid"), to_pid: a("ToPid"), trace_token: a("TraceToken"), reason: a("Reason") }, t(18, &["FromPid", "ToPid", "TraceToken", "Reason"])),
        ("MonitorP", C::MonitorP { from_pid: a("FromPid"), to_proc: a("ToProc"), reference: a("Ref") }, t(19, &["FromPid", "ToProc", "Ref"])),
        ("DemonitorP", C::DemonitorP { from_pid: a("FromPid"), to_proc: a("ToProc"), reference: a("Ref") }, t(20, &["FromPid", "ToProc", "Ref"])),
        ("MonitorPExit", C::MonitorPExit { from_proc: a("FromProc"), to_pid: a("ToPid"), reference: a("Ref"), reason: a("Reason") }, t(21, &["FromProc", "ToPid", "Ref", "Reason"])),
        ("SendSender", C::SendSender { from_pid: a("FromPid"), to_pid: a("ToPid") }, t(22, &["FromPid", "ToPid"])),
        ("SendSenderTt", C::SendSenderTt { from_pid: a("FromPid"), to_pid: a("ToPid"), trace_token: a("TraceToken") }, t(23, &["FromPid", "ToPid", "TraceToken"])),
        ("PayloadExit", C::PayloadExit { from_pid: a("FromPid"), to_pid: a("ToPid") }, t(24, &["FromPid", "ToPid"])),
        ("PayloadExitTt", C::PayloadExitTt { from_pid: a("FromPid"), to_pid: a("ToPid"), trace_token: a("TraceToken") }, t(25, &["FromPid", "ToPid", "TraceToken"])),
        ("PayloadExit2", C::PayloadExit2 { from_pid: a("FromPid"), to_pid: a("ToPid") }, t(26, &["FromPid", "ToPid"])),
        ("PayloadExit2Tt", C::PayloadExit2Tt { from_pid: a("FromPid"), to_pid: a("ToPid"), trace_token: a("TraceToken") }, t(27, &["FromPid", "ToPid", "TraceToken"])),
        ("PayloadMonitorPExit", C::PayloadMonitorPExit { from_proc: a("FromProc"), to_pid: a("ToPid"), reference: a("Ref") }, t(28, &["FromProc", "ToPid", "Ref"])),
        (
            "SpawnRequest",
            C::SpawnRequest { req_id: a("ReqId"), from: a("From"), group_leader: a("GroupLeader"), mfa: a("MFA"), arg_list: a("ArgList"), opt_list: a("OptList") },
            t(29, &["ReqId", "From", "GroupLeader", "MFA", "OptList"]),
        ),
        (
            "SpawnRequestTt",
            C::SpawnRequestTt { req_id: a("ReqId"), from: a("From"), group_leader: a("GroupLeader"), mfa: a("MFA"), arg_list: a("ArgList"), opt_list: a("OptList"), trace_token: a("TraceToken") },
            t(30, &["ReqId", "From", "GroupLeader", "MFA", "OptList", "TraceToken"]),
        ),
        ("SpawnReply", C::SpawnReply { req_id: a("ReqId"), to: a("To"), flags: a("Flags"), result: a("Result") }, t(31, &["ReqId", "To", "Flags", "Result"])),
        ("SpawnReplyTt", C::SpawnReplyTt { req_id: a("ReqId"), to: a("To"), flags: a("Flags"), result: a("Result"), trace_token: a("TraceToken") }, t(32, &["ReqId", "To", "Flags", "Result", "TraceToken"])),
        ("AliasSend", C::AliasSend { from_pid: a("FromPid"), alias: a("Alias") }, t(33, &["FromPid", "Alias"])),
        ("AliasSendTt", C::AliasSendTt { from_pid: a("FromPid"), alias: a("Alias"), trace_token: a("TraceToken") }, t(34, &["FromPid", "Alias", "TraceToken"])),
        ("UnlinkId", C::UnlinkId { id: 77, from_pid: a("FromPid"), to_pid: a("ToPid") }, {
            let mut v = vec![OwnedTerm::Integer(35), OwnedTerm::Integer(77)];
            v.push(a("FromPid"));
            v.push(a("ToPid"));
            v
        }),
        ("UnlinkIdAck", C::UnlinkIdAck { id: 77, from_pid: a("FromPid"), to_pid: a("ToPid") }, {
            let mut v = vec![OwnedTerm::Integer(36), OwnedTerm::Integer(77)];
            v.push(a("FromPid"));
            v.push(a("ToPid"));
            v
        }),
        // the same operations put together through the public helper constructors (arguments named as in the protocol)
        ("helper:link", C::link(a("FromPid"), a("ToPid")), t(1, &["FromPid", "ToPid"])),
        ("helper:send", C::send(a("Unused"), a("ToPid")), t(2, &["Unused", "ToPid"])),
        ("helper:exit", C::exit(a("FromPid"), a("ToPid"), a("Reason")), t(3, &["FromPid", "ToPid", "Reason"])),
        ("helper:unlink", C::unlink(a("FromPid"), a("ToPid")), t(4, &["FromPid", "ToPid"])),
        ("helper:reg_send", C::reg_send(a("FromPid"), a("Unused"), a("ToName")), t(6, &["FromPid", "Unused", "ToName"])),
        ("helper:group_leader", C::group_leader(a("FromPid"), a("ToPid")), t(7, &["FromPid", "ToPid"])),
        ("helper:exit2", C::exit2(a("FromPid"), a("ToPid"), a("Reason")), t(8, &["FromPid", "ToPid", "Reason"])),
        ("helper:monitor_p", C::monitor_p(a("FromPid"), a("ToProc"), a("Ref")), t(19, &["FromPid", "ToProc", "Ref"])),
        ("helper:demonitor_p", C::demonitor_p(a("FromPid"), a("ToProc"), a("Ref")), t(20, &["FromPid", "ToProc", "Ref"])),
        ("helper:monitor_p_exit", C::monitor_p_exit(a("FromProc"), a("ToPid"), a("Ref"), a("Reason")), t(21, &["FromProc", "ToPid", "Ref", "Reason"])),
        ("helper:send_sender", C::send_sender(a("FromPid"), a("ToPid")), t(22, &["FromPid", "ToPid"])),
        ("helper:payload_exit", C::payload_exit(a("FromPid"), a("ToPid")), t(24, &["FromPid", "ToPid"])),
        ("helper:payload_exit2", C::payload_exit2(a("FromPid"), a("ToPid")), t(26, &["FromPid", "ToPid"])),
        ("helper:payload_monitor_p_exit", C::payload_monitor_p_exit(a("FromProc"), a("ToPid"), a("Ref")), t(28, &["FromProc", "ToPid", "Ref"])),
    ]
}

fn is_unlink_shape(tag: i64, arity: usize) -> bool {
    (tag == 35 || tag == 36) && arity == 4
}

fn id_in_u64(v: &Val) -> bool {
    match v {
        Val::Int(i) => !i.neg && i.mag.len() <= 8,
        _ => false,
    }
}

fn class_of_id(i: &Int) -> &'static str {
    if i.neg {
        if i.mag.len() > 8 || (i.mag.len() == 8 && i.mag[7] >= 0x80 && !(i.mag[7] == 0x80 && i.mag[..7].iter().all(|b| *b == 0))) { "negative-beyond-i64" } else { "negative" }
    } else if i.mag.len() > 8 {
        ">=2^64"
    } else if i.mag.len() == 8 && i.mag[7] >= 0x80 {
        "2^63..2^64"
    } else if i.mag.len() > 4 || (i.mag.len() == 4 && i.mag[3] >= 0x80) {
        "2^31..2^63"
    } else {
        "<2^31"
    }
}

fn check_tuple(ctx: &Ctx, elems: Vec<OwnedTerm>, origin: &str) {
    ctx.eval(1);
    let input = OwnedTerm::Tuple(elems.clone());
    let iv = val_of(&input);
    let tag = match &elems[0] {
        OwnedTerm::Integer(i) => *i,
        _ => -1,
    };
    let arity = elems.len();
    let wit = |d: serde_json::Value| json!({"origin": origin, "tuple": iv.show(), "detail": d});
    let parsed = match guarded(|| ControlMessage::from_term(&input)) {
        Err(p) => {
            ctx.viol("C08:panic:from_term", "from_term panicked", wit(json!({"panic": p})));
            return;
        }
        Ok(r) => r,
    };
    let unlink = is_unlink_shape(tag, arity);
    let id_ok = unlink && id_in_u64(&val_of(&elems[1]));
    match parsed {
        Err(e) => {
            if unlink && !id_ok {
                ctx.class(&format!("reject/unlink-id/{}", elems[1].type_name()));
                return; // the permitted exception
            }
            let cause = if unlink {
                match &val_of(&elems[1]) {
                    Val::Int(i) => format!("unlink-id:{}:{}", class_of_id(i), elems[1].type_name()),
                    _ => "unlink-id".into(),
                }
            } else {
                format!("tag{}:arity{}", tag, arity)
            };
            ctx.viol(
                &format!("C08:rejects:{}", cause),
                "a tuple headed by an integer tag 0..255 is rejected",
                wit(json!({"error": e.to_string()})),
            );
        }
        Ok(m) => {
            if unlink && !id_ok {
                ctx.viol(
                    "C08:accepts-bad-unlink-id",
                    "an unlink message whose id is not a non-negative 64-bit integer is accepted",
                    wit(json!({"parsed": format!("{:?}", m).chars().take(200).collect::<String>()})),
                );
                return;
            }
            let variant = format!("{:?}", m).split(|c: char| !c.is_alphanumeric()).next().unwrap_or("").to_string();
            ctx.class(&format!("{}/arity{}", variant, arity));
            let back = match guarded(|| m.to_term()) {
                Ok(t) => t,
                Err(p) => {
                    ctx.viol("C08:panic:to_term", "to_term panicked", wit(json!({"panic": p})));
                    return;
                }
            };
            let bv = val_of(&back);
            if !bv.same(&iv) {
                let cause = if unlink {
                    match &val_of(&elems[1]) {
                        Val::Int(i) => format!("unlink-id:{}", class_of_id(i)),
                        _ => "unlink-id".into(),
                    }
                } else {
                    format!("{}:{}", variant, super::common::first_diff(&iv, &bv))
                };
                ctx.viol(
                    &format!("C08:to_term-differs:{}", cause),
                    "serialising the parsed message does not give back the same tuple",
                    wit(json!({"back": bv.show()})),
                );
            }
            let into = match guarded(|| m.clone().into_term()) {
                Ok(t) => t,
                Err(p) => {
                    ctx.viol("C08:panic:into_term", "into_term panicked", wit(json!({"panic": p})));
                    return;
                }
            };
            if !crate::refmodel::denote::deep_eq(&into, &back) {
                ctx.viol(
                    &format!("C08:into_term-differs:{}", variant),
                    "the consuming and the borrowing serialiser disagree",
                    wit(json!({"to_term": val_of(&back).show(), "into_term": val_of(&into).show()})),
                );
            }
            // through the wire
            match guarded(|| erltf::encode(&back).map(|b| erltf::decode(&b))) {
                Ok(Ok(Ok(wire))) => match guarded(|| ControlMessage::from_term(&wire)) {
                    Ok(Ok(m2)) => {
                        let t2 = m2.to_term();
                        if !val_of(&t2).same(&bv) {
                            ctx.viol(
                                &format!("C08:wire-trip-differs:{}", variant),
                                "the message changes across encode/decode",
                                wit(json!({"after": val_of(&t2).show()})),
                            );
                        }
                        if std::mem::discriminant(&m2) != std::mem::discriminant(&m) {
                            ctx.viol(
                                &format!("C08:wire-trip-variant:{}", variant),
                                "the message parses as another variant after encode/decode",
                                wit(json!({"after": format!("{:?}", m2).chars().take(120).collect::<String>()})),
                            );
                        }
                    }
                    Ok(Err(e)) => {
                        let cause = if unlink {
                            match &val_of(&elems[1]) {
                                Val::Int(i) => format!("unlink-id:{}", class_of_id(i)),
                                _ => "unlink-id".into(),
                            }
                        } else {
                            variant.clone()
                        };
                        ctx.viol(
                            &format!("C08:wire-trip-rejected:{}", cause),
                            "a structured message does not survive the wire encoding",
                            wit(json!({"error": e.to_string()})),
                        );
                    }
                    Err(p) => ctx.viol("C08:panic:from_term-after-wire", "panic", wit(json!({"panic": p}))),
                },
                Ok(Ok(Err(e))) => ctx.count(&format!("wire_decode_failed_left_to_C01:{}", e.to_string().chars().take(30).collect::<String>()), 1),
                Ok(Err(_)) => ctx.count("wire_encode_failed_left_to_C01", 1),
                Err(p) => ctx.viol("C08:panic:wire", "panic", wit(json!({"panic": p}))),
            }
        }
    }
}

pub fn run(ctx: &Ctx) {
    ctx.rule("cases = tuples {Tag, F1..Fn} for every tag 0..255 x arity 1..10 x random field terms + every structured variant with random fields + unlink ids over the 64-bit range (and beyond) + non-tuples / empty tuples / bad heads + the protocol table (each operation built from its variant and, where there is one, through its public helper constructor); distinct = distinct (parsed variant, arity) and rejection classes");
    ctx.assume("protocol table transcribed from erl_dist_protocol (DESIGN.md appendix A): SPAWN_REQUEST has 6 elements (arguments travel as payload), ALIAS_SEND_TT = 34");
    let mut rng = Rng::derive(ctx.seed, 8, 1);
    // (1) protocol table
    for (name, msg, expect) in protocol_table() {
        ctx.eval(1);
        let got = msg.to_term();
        let ev = val_of(&OwnedTerm::Tuple(expect.clone()));
        let gv = val_of(&got);
        if !gv.same(&ev) {
            let (gtag, garity) = match &got {
                OwnedTerm::Tuple(e) => (e.first().and_then(|x| x.as_integer()).unwrap_or(-1), e.len()),
                _ => (-1, 0),
            };
            let etag = expect[0].as_integer().unwrap();
            let cause = if gtag != etag {
                format!("tag:{}={}", name, gtag)
            } else if garity != expect.len() {
                format!("arity:{}={}", name, garity)
            } else {
                format!("field-order:{}", name)
            };
            ctx.viol(
                &format!("C08:{}", cause),
                "a named operation does not use the tag / arity / field order the protocol assigns",
                json!({"operation": name, "library": gv.show(), "protocol": ev.show()}),
            );
        }
        // and the protocol's tuple must parse as that variant
        match ControlMessage::from_term(&OwnedTerm::Tuple(expect.clone())) {
            Ok(m) => {
                if std::mem::discriminant(&m) != std::mem::discriminant(&msg) {
                    ctx.viol(
                        &format!("C08:protocol-tuple-not-recognised:{}", name),
                        "the protocol's tuple for the operation is not parsed as that operation",
                        json!({"operation": name, "parsed_as": format!("{:?}", m).chars().take(120).collect::<String>()}),
                    );
                }
            }
            Err(e) => ctx.viol(&format!("C08:protocol-tuple-rejected:{}", name), "rejected", json!({"error": e.to_string()})),
        }
        ctx.class(&format!("table/{}", name));
    }
    // (2) everything else is rejected
    let mut bad: Vec<(OwnedTerm, &str)> = vec![
        (OwnedTerm::Tuple(vec![]), "empty"),
        (OwnedTerm::atom("x"), "atom"),
        (OwnedTerm::List(vec![OwnedTerm::Integer(1)]), "list"),
        (OwnedTerm::Tuple(vec![OwnedTerm::atom("a")]), "atom-head"),
        (OwnedTerm::Tuple(vec![OwnedTerm::Integer(-1)]), "negative-head"),
        (OwnedTerm::Tuple(vec![OwnedTerm::Integer(256), OwnedTerm::Nil]), "head-256"),
        (OwnedTerm::Tuple(vec![OwnedTerm::Float(1.0), OwnedTerm::Nil]), "float-head"),
        (OwnedTerm::Tuple(vec![OwnedTerm::Integer(i64::MAX)]), "huge-head"),
        (OwnedTerm::Nil, "nil"),
        (OwnedTerm::Integer(2), "integer"),
    ];
    // heads outside 0..255 over the whole integer range, in particular values congruent to a valid tag modulo
    // 2^8 / 2^16 / 2^32 (what a narrowing cast would let through), in both integer representations, with the
    // field count of the message the low byte would select
    let mut wide: Vec<(OwnedTerm, &str)> = Vec::new();
    for tag in [0i128, 1, 2, 3, 6, 19, 22, 35, 36, 255] {
        for k in [8u32, 16, 31, 32, 33, 40, 48, 56, 62] {
            for m in [1i128, 3, -1, -2] {
                let v = tag + m * (1i128 << k);
                if (0..=255).contains(&v) || v > i64::MAX as i128 || v < i64::MIN as i128 {
                    continue;
                }
                for arity in [2usize, 3, 4] {
                    let mut e = vec![OwnedTerm::Integer(v as i64)];
                    e.extend((0..arity).map(|i| OwnedTerm::Integer(10 + i as i64)));
                    wide.push((OwnedTerm::Tuple(e), "head-congruent-to-a-tag"));
                }
            }
        }
        for big in [(1i128 << 64) + tag, -((1i128 << 64) - tag), (1i128 << 63) + tag] {
            let i = Int::from_i128(big);
            wide.push((OwnedTerm::Tuple(vec![OwnedTerm::BigInt(erltf::BigInt::new(i.neg, i.mag.clone())), OwnedTerm::Integer(11), OwnedTerm::Integer(22)]), "big-integer-head"));
        }
    }
    for v in [i64::MIN, i64::MIN + 1, i64::MIN + 255, -256, -255, 257, 511, 512, 65535, 65536, u32::MAX as i64, u32::MAX as i64 + 1, i64::MAX - 255] {
        wide.push((OwnedTerm::Tuple(vec![OwnedTerm::Integer(v), OwnedTerm::Integer(11), OwnedTerm::Integer(22)]), "head-out-of-range"));
    }
    bad.extend(wide);
    for (t, what) in bad.drain(..) {
        ctx.eval(1);
        ctx.class(&format!("must-reject/{}", what));
        match guarded(|| ControlMessage::from_term(&t)) {
            Ok(Err(_)) => {}
            Ok(Ok(m)) => ctx.viol(
                &format!("C08:accepts-non-message:{}", what),
                "something that is not a tuple headed by an integer 0..255 is accepted",
                json!({"input": val_of(&t).show(), "parsed": format!("{:?}", m).chars().take(120).collect::<String>()}),
            ),
            Err(p) => ctx.viol("C08:panic:from_term", "panic", json!({"panic": p})),
        }
    }
    // (3) grid: all tags x arities x fills
    let fills = ctx.pick(12usize, 600usize);
    let mut grng = Rng::derive(ctx.seed, 8, 2);
    let ids: Vec<Int> = vec![
        Int::from_i128(0), Int::from_i128(1), Int::from_i128((1 << 31) - 1), Int::from_i128(1 << 31), Int::from_i128((1i128 << 63) - 1),
        Int::from_i128(1i128 << 63), Int::from_i128((1i128 << 64) - 1), Int::from_i128(1i128 << 64), Int::from_i128(-1), Int::from_i128(1 << 40),
        // negative ids of every width (none is an id), and ids just past 64 bits
        Int::from_i128(-(1i128 << 31)), Int::from_i128(-(1i128 << 63) + 1), Int::from_i128(-(1i128 << 63)), Int::from_i128(-(1i128 << 63) - 1), Int::from_i128(-(1i128 << 64) + 1),
        Int::from_i128(-(1i128 << 64)), Int::from_i128(-(1i128 << 64) - 1), Int::from_i128(-(1i128 << 100)), Int::from_i128((1i128 << 64) + 1), Int::from_i128(1i128 << 100),
    ];
    for tag in 0..=255i64 {
        for arity in 1..=10usize {
            for f in 0..fills {
                if !ctx.time_left() {
                    return;
                }
                let mut elems = vec![OwnedTerm::Integer(tag)];
                for _ in 1..arity {
                    let cfg = GenCfg { max_depth: 1 + grng.below(3), max_nodes: 1 + grng.below(8), ..GenCfg::default() };
                    let v = {
                        let mut g = Gen::new(&mut grng, cfg);
                        g.value()
                    };
                    let style = *rng.pick(&[Style::User, Style::Wire]);
                    elems.push(term_of(&v, &mut rng, style).unwrap_or(OwnedTerm::Nil));
                }
                if is_unlink_shape(tag, arity) {
                    // ids over the 64-bit range in both representations, and non-integers
                    let i = &ids[f % ids.len()];
                    let style = if (f / ids.len()) % 2 == 0 { Style::User } else { Style::Wire };
                    elems[1] = match (f / (2 * ids.len())) % 4 {
                        3 => OwnedTerm::atom("not_an_id"),
                        _ => term_of(&Val::Int(i.clone()), &mut rng, style).unwrap(),
                    };
                }
                check_tuple(ctx, elems, "grid");
            }
        }
    }
    // (4) unlink ids over the whole 64-bit range, every representation, both operations, both directions
    for tag in [35i64, 36] {
        for i in &ids {
            for style in [Style::User, Style::Wire] {
                let idt = term_of(&Val::Int(i.clone()), &mut rng, style).unwrap();
                let elems = vec![OwnedTerm::Integer(tag), idt, OwnedTerm::atom("from"), OwnedTerm::atom("to")];
                ctx.class(&format!("unlink/{}/{}/{:?}", tag, class_of_id(i), style));
                check_tuple(ctx, elems, "unlink-id range");
            }
        }
        for id in [0u64, 1, (1 << 31) - 1, 1 << 31, (1 << 53) + 1, i64::MAX as u64, 1 << 63, u64::MAX] {
            ctx.eval(1);
            let m = if tag == 35 {
                ControlMessage::UnlinkId { id, from_pid: a("from"), to_pid: a("to") }
            } else {
                ControlMessage::UnlinkIdAck { id, from_pid: a("from"), to_pid: a("to") }
            };
            let expect = Val::Tuple(vec![Val::int(tag as i128), Val::int(id as i128), Val::atom("from"), Val::atom("to")]);
            for (which, t) in [("to_term", m.to_term()), ("into_term", m.clone().into_term())] {
                if !val_of(&t).same(&expect) {
                    ctx.viol(
                        &format!("C08:{}-unlink-id:{}", which, class_of_id(&Int::from_i128(id as i128))),
                        "an unlink id is not serialised as the integer it is",
                        json!({"id": id, "serialised": val_of(&t).show()}),
                    );
                }
            }
        }
    }
    ctx.sample(json!({"tuple": "{35, 9223372036854775808, FromPid, ToPid}", "note": "unlink ids are exercised as Integer and as BigInt"}));
    ctx.sample(json!({"tuple": val_of(&OwnedTerm::Tuple(vec![OwnedTerm::Integer(200), OwnedTerm::atom("x")])).show()}));
}
