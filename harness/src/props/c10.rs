//! C10 – identifiers received from a peer are re-emitted byte-for-byte; they compare and hash
//! by their logical fields only.

use super::common::guarded;
use crate::genr::val::{gen_pid, gen_port, gen_ref, GenCfg};
use crate::out::{Ctx, hex_cap};
use crate::refmodel::encode::{Canonical, Chooser, Opts, RandomChooser, encode_term};
use crate::refmodel::val::Val;
use crate::rng::Rng;
use erltf::{BorrowedTerm, OwnedTerm};
use serde_json::json;
use std::collections::hash_map::DefaultHasher;
use std::hash::{Hash, Hasher};

#[derive(Clone, Copy, PartialEq, Eq, Debug)]
enum Form {
    Plain,
    Local,
}

/// Bytes of one identifier: modern plain form, or LOCAL_EXT hash8 + (any admissible inner encoding).
fn id_bytes(id: &Val, form: Form, rng: &mut Rng) -> Vec<u8> {
    let mut o = Vec::new();
    match form {
        Form::Plain => {
            encode_term(&mut o, id, &mut Canonical, &Opts::default()).unwrap();
        }
        Form::Local => {
            o.push(121);
            o.extend_from_slice(&rng.bytes(8));
            // inside the opaque wrapper anything the format allows may appear
            let mut ch = RandomChooser { rng, legacy_bias: 50, taken: vec![] };
            encode_term(&mut o, id, &mut ch as &mut dyn Chooser, &Opts::default()).unwrap();
        }
    }
    o
}

/// Context: wraps the raw identifier bytes in term bytes that the library re-encodes canonically.
fn in_context(kind: usize, id: &[u8], other: &[u8]) -> Vec<u8> {
    let mut o = vec![131u8];
    match kind {
        0 => o.extend_from_slice(id),
        1 => {
            o.extend_from_slice(&[104, 2, 119, 1, b'k']);
            o.extend_from_slice(id);
        }
        2 => {
            o.extend_from_slice(&[108, 0, 0, 0, 2]);
            o.extend_from_slice(id);
            o.extend_from_slice(&[97, 7, 106]);
        }
        3 => {
            // list tail
            o.extend_from_slice(&[108, 0, 0, 0, 1, 97, 1]);
            o.extend_from_slice(id);
        }
        4 => {
            // map value
            o.extend_from_slice(&[116, 0, 0, 0, 1, 119, 1, b'k']);
            o.extend_from_slice(id);
        }
        5 => {
            // map key
            o.extend_from_slice(&[116, 0, 0, 0, 1]);
            o.extend_from_slice(id);
            o.extend_from_slice(&[97, 1]);
        }
        6 => {
            // fun: NEW_FUN_EXT made by `other`, with the identifier as its one free variable
            let mut body = vec![1u8];
            body.extend_from_slice(&[9u8; 16]);
            body.extend_from_slice(&[0, 0, 0, 1, 0, 0, 0, 1]);
            body.extend_from_slice(&[119, 1, b'm', 97, 1, 97, 2]);
            // the process that made the fun: a pid of its own, in whichever form it arrived (not a term of the
            // environment but a field of the fun)
            body.extend_from_slice(other);
            body.extend_from_slice(id);
            o.push(112);
            o.extend_from_slice(&(body.len() as u32 + 4).to_be_bytes());
            o.extend_from_slice(&body);
        }
        7 => {
            // nested: {[#{k => Id}], Other}
            o.extend_from_slice(&[104, 2, 108, 0, 0, 0, 1, 116, 0, 0, 0, 1, 119, 1, b'k']);
            o.extend_from_slice(id);
            o.push(106);
            o.extend_from_slice(other);
        }
        _ => {
            // two identifiers side by side in a tuple
            o.extend_from_slice(&[104, 2]);
            o.extend_from_slice(id);
            o.extend_from_slice(other);
        }
    }
    o
}

const CONTEXTS: &[&str] = &["bare", "tuple", "list", "list-tail", "map-value", "map-key", "fun-env", "nested", "pair"];

fn hash_of<T: Hash>(t: &T) -> u64 {
    let mut h = DefaultHasher::new();
    t.hash(&mut h);
    h.finish()
}

/// Identifiers that sit in a slot before another one is copied over them with `Clone::clone_from`: plain ones,
/// node-local ones, the same identifier in the other form.
#[derive(Default)]
struct Dirt {
    pids: Vec<erltf::types::ExternalPid>,
    ports: Vec<erltf::types::ExternalPort>,
    refs: Vec<erltf::types::ExternalReference>,
}

impl Dirt {
    fn collect(&mut self, t: &OwnedTerm) {
        match t {
            OwnedTerm::Pid(p) => self.pids.push(p.clone()),
            OwnedTerm::Port(p) => self.ports.push(p.clone()),
            OwnedTerm::Reference(r) => self.refs.push(r.clone()),
            _ => {}
        }
    }
    fn of(rng: &mut Rng) -> Dirt {
        let mut d = Dirt::default();
        let cfg = GenCfg::default();
        for i in 0..24 {
            let v = match i % 3 {
                0 => gen_pid(rng),
                1 => gen_port(rng),
                _ => gen_ref(rng, &cfg),
            };
            if matches!(&v, Val::Ref { ids, .. } if ids.is_empty() || ids.len() > 5) {
                continue;
            }
            for form in [Form::Plain, Form::Local] {
                let mut b = vec![131u8];
                b.extend_from_slice(&id_bytes(&v, form, rng));
                if let Ok(t) = erltf::decode(&b) {
                    d.collect(&t);
                }
            }
        }
        d
    }
}

/// Copy `src` over a used slot the way `mode` says: directly, or through a container whose `clone_from` works
/// element by element.
fn copy_over<T: Clone>(src: &T, used: &[T], salt: usize, mode: u8) -> T {
    if used.is_empty() {
        return src.clone();
    }
    let old = || used[salt % used.len()].clone();
    match mode {
        0 => {
            let mut slot = old();
            slot.clone_from(src);
            slot
        }
        1 => {
            let mut v = vec![old(), old()];
            v.clone_from(&vec![src.clone()]);
            v.swap_remove(0)
        }
        2 => {
            let mut o = Some(old());
            o.clone_from(&Some(src.clone()));
            o.unwrap()
        }
        _ => {
            let mut b = Box::new(old());
            b.clone_from(&Box::new(src.clone()));
            *b
        }
    }
}

/// The same term, every identifier in it copied over a used slot.
fn rebuilt_over(t: &OwnedTerm, dirt: &Dirt, salt: usize, mode: u8) -> OwnedTerm {
    let go = |x: &OwnedTerm| rebuilt_over(x, dirt, salt + 1, mode);
    match t {
        OwnedTerm::Pid(p) => OwnedTerm::Pid(copy_over(p, &dirt.pids, salt, mode)),
        OwnedTerm::Port(p) => OwnedTerm::Port(copy_over(p, &dirt.ports, salt, mode)),
        OwnedTerm::Reference(r) => OwnedTerm::Reference(copy_over(r, &dirt.refs, salt, mode)),
        OwnedTerm::Tuple(v) => OwnedTerm::Tuple(v.iter().map(go).collect()),
        OwnedTerm::List(v) => OwnedTerm::List(v.iter().map(go).collect()),
        OwnedTerm::ImproperList { elements, tail } => OwnedTerm::ImproperList { elements: elements.iter().map(go).collect(), tail: Box::new(go(tail)) },
        OwnedTerm::Map(m) => OwnedTerm::Map(m.iter().map(|(k, v)| (go(k), go(v))).collect()),
        OwnedTerm::InternalFun(f) => {
            let mut f2 = (**f).clone();
            f2.pid = copy_over(&f.pid, &dirt.pids, salt, mode);
            f2.free_vars = f.free_vars.iter().map(go).collect();
            OwnedTerm::InternalFun(Box::new(f2))
        }
        other => other.clone(),
    }
}

fn convert(t: OwnedTerm, chain: &[u8], dirt: &Dirt) -> OwnedTerm {
    let mut cur = t;
    for (at, op) in chain.iter().enumerate() {
        cur = match op {
            6..=9 => rebuilt_over(&cur, dirt, at * 7 + chain.len(), op - 6),
            0 => cur.clone(),
            1 => {
                let b = BorrowedTerm::from(&cur);
                b.to_owned()
            }
            2 => {
                let v = vec![cur];
                let mut it = v.into_iter();
                it.next().unwrap()
            }
            3 => {
                let boxed = Box::new(cur);
                *boxed
            }
            4 => {
                let b = BorrowedTerm::from(&cur);
                let b2 = b.clone();
                b2.to_owned()
            }
            _ => {
                let c2 = cur.clone();
                drop(cur);
                c2
            }
        };
    }
    cur
}

pub fn run(ctx: &Ctx) {
    ctx.rule("cases = identifier (pid/port/ref; node names 1..255 bytes, 32/64-bit numbers, 1..5 words) x form (modern plain / LOCAL_EXT with random 8-byte hash and any admissible inner tag) x 9 term contexts x conversion chain of length 0..6 over {clone, to-borrowed-and-back, move, box, clone_from over a slot that held another identifier (directly and through Vec/Option/Box)}; decoded by the owned and (where it accepts) the zero-copy decoder, re-encoded plainly and behind a distribution header (single term, and next to a control tuple); plus every ordered pair of sibling identifiers (one field or one trailing reference word apart) in all four form combinations as the two keys of one map; distinct = distinct (kind, form, context, chain) combinations");
    ctx.assume("LOCAL_EXT layout = tag, 8 hash bytes, one tag-led term (the library's documented reading)");
    let mut rng = Rng::derive(ctx.seed, 10, 1);
    let cfg = GenCfg::default();
    let dirt = Dirt::of(&mut Rng::derive(ctx.seed, 10, 3));
    // sibling identifiers (one field / one trailing word apart) side by side as the keys of one map: both must
    // survive decoding, conversions and re-encoding, each in the form it arrived in
    {
        let mut frng = Rng::derive(ctx.seed, 10, 2);
        let fams = crate::genr::near::families(&mut frng);
        let mut pairs = 0u64;
        for fam in fams.iter().filter(|f| f.name.starts_with("id:")) {
            let m = &fam.members;
            for i in 0..m.len() {
                for j in 0..m.len() {
                    if i == j {
                        continue;
                    }
                    for (fa, fb) in [(Form::Plain, Form::Plain), (Form::Local, Form::Local), (Form::Plain, Form::Local), (Form::Local, Form::Plain)] {
                        let (a, b) = (id_bytes(&m[i], fa, &mut rng), id_bytes(&m[j], fb, &mut rng));
                        let map_of = |x: &[u8], y: &[u8], wrap: bool| {
                            let mut o = vec![131u8, 116, 0, 0, 0, 2];
                            for (k, v) in [(x, 1u8), (y, 2u8)] {
                                if wrap {
                                    o.extend_from_slice(&[104, 2, 119, 1, b'k']);
                                }
                                o.extend_from_slice(k);
                                o.extend_from_slice(&[97, v]);
                            }
                            o
                        };
                        for wrap in [false, true] {
                            let bytes = map_of(&a, &b, wrap);
                            // the library writes map entries in its own key order: either order of the two entries is "identical"
                            let mut swapped = vec![131u8, 116, 0, 0, 0, 2];
                            for (k, v) in [(&b, 2u8), (&a, 1u8)] {
                                if wrap {
                                    swapped.extend_from_slice(&[104, 2, 119, 1, b'k']);
                                }
                                swapped.extend_from_slice(k);
                                swapped.extend_from_slice(&[97, v]);
                            }
                            let chain: Vec<u8> = (0..rng.below(4)).map(|_| rng.below(10) as u8).collect();
                            ctx.eval(1);
                            pairs += 1;
                            ctx.class(&format!("siblings/{}/{:?}{:?}/{}", fam.name, fa, fb, wrap));
                            let wit = |d: serde_json::Value| json!({"a": m[i].show(), "b": m[j].show(), "forms": format!("{:?}/{:?}", fa, fb), "chain": chain, "bytes": hex_cap(&bytes, 200), "detail": d});
                            match guarded(|| erltf::decode(&bytes).map(|t| erltf::encode(&convert(t, &chain, &dirt)))) {
                                Ok(Ok(Ok(again))) => {
                                    if again != bytes && again != swapped {
                                        ctx.viol(
                                            &format!("C10:sibling-keys:bytes-differ:{}", fam.name),
                                            "two distinct identifiers used as keys of one map are not both re-emitted byte-for-byte",
                                            wit(json!({"again": hex_cap(&again, 200)})),
                                        );
                                    }
                                }
                                Ok(Ok(Err(e))) => ctx.viol("C10:encode-error", "re-encoding failed", wit(json!({"error": e.to_string()}))),
                                Ok(Err(e)) => ctx.viol(&format!("C10:sibling-keys:decode-error:{}", fam.name), "a map keyed by two identifiers is rejected", wit(json!({"error": e.to_string()}))),
                                Err(p) => ctx.viol("C10:panic:sibling-keys", "panic", wit(json!({"panic": p}))),
                            }
                        }
                        // distinct identifiers are told apart by ==, cmp and hashed/ordered sets, whatever their forms
                        let (ta, tb) = (erltf::decode(&in_context(0, &a, &[])), erltf::decode(&in_context(0, &b, &[])));
                        if let (Ok(ta), Ok(tb)) = (ta, tb) {
                            let bt: std::collections::BTreeSet<OwnedTerm> = [ta.clone(), tb.clone()].into_iter().collect();
                            let hs: std::collections::HashSet<OwnedTerm> = [ta.clone(), tb.clone()].into_iter().collect();
                            let borrowed_equal = BorrowedTerm::from(&ta).cmp(&BorrowedTerm::from(&tb)) == std::cmp::Ordering::Equal;
                            if ta == tb || ta.cmp(&tb) == std::cmp::Ordering::Equal || borrowed_equal || bt.len() != 2 || hs.len() != 2 {
                                ctx.viol(
                                    &format!("C10:different-ids-identified:{}", fam.name),
                                    "identifiers that differ in a logical field compare equal",
                                    json!({"a": m[i].show(), "b": m[j].show(), "eq": ta == tb, "cmp": format!("{:?}", ta.cmp(&tb)), "borrowed_cmp_equal": borrowed_equal, "btreeset": bt.len(), "hashset": hs.len()}),
                                );
                            }
                        }
                    }
                }
            }
        }
        ctx.extra("sibling_identifier_cases", json!(pairs));
    }

    let n = ctx.pick(30_000usize, 2_000_000usize);
    for case in 0..n {
        if !ctx.time_left() {
            break;
        }
        let kind = rng.below(3);
        let id = match kind {
            0 => gen_pid(&mut rng),
            1 => gen_port(&mut rng),
            _ => loop {
                let r = gen_ref(&mut rng, &cfg);
                if let Val::Ref { ids, .. } = &r {
                    if !ids.is_empty() && ids.len() <= 5 {
                        break r;
                    }
                }
            },
        };
        let form = if rng.bool() { Form::Plain } else { Form::Local };
        let idb = id_bytes(&id, form, &mut rng);
        let other_id = gen_pid(&mut rng);
        let other = id_bytes(&other_id, if rng.bool() { Form::Plain } else { Form::Local }, &mut rng);
        let cx = rng.below(CONTEXTS.len());
        let bytes = in_context(cx, &idb, &other);
        let chain: Vec<u8> = (0..rng.below(7)).map(|_| rng.below(10) as u8).collect();
        ctx.eval(1);
        ctx.class(&format!("{}/{:?}/{}/{:?}", ["pid", "port", "ref"][kind], form, CONTEXTS[cx], chain));
        let wit = |d: serde_json::Value| json!({"id": id.show(), "form": format!("{:?}", form), "context": CONTEXTS[cx], "chain": chain, "bytes": hex_cap(&bytes, 160), "detail": d});
        let t = match guarded(|| erltf::decode(&bytes)) {
            Ok(Ok(t)) => t,
            Ok(Err(e)) => {
                ctx.viol(
                    &format!("C10:decode-error:{}:{:?}", ["pid", "port", "ref"][kind], form),
                    "an identifier in an admissible form is rejected",
                    wit(json!({"error": e.to_string()})),
                );
                continue;
            }
            Err(p) => {
                ctx.viol("C10:panic:decode", "panic", wit(json!({"panic": p})));
                continue;
            }
        };
        let t2 = convert(t.clone(), &chain, &dirt);
        match guarded(|| erltf::encode(&t2)) {
            Ok(Ok(again)) => {
                if again != bytes {
                    let chain_kind = if chain.is_empty() { "none" } else if chain.iter().any(|c| *c >= 6) { "clone-from-over-a-used-slot" } else if chain.iter().any(|c| *c == 1 || *c == 4) { "via-borrowed" } else { "clone-move" };
                    ctx.viol(
                        &format!("C10:bytes-differ:{}:{:?}:{}", ["pid", "port", "ref"][kind], form, chain_kind),
                        "identifier is not re-emitted byte-for-byte",
                        wit(json!({"again": hex_cap(&again, 160)})),
                    );
                }
            }
            Ok(Err(e)) => ctx.viol("C10:encode-error", "re-encoding failed", wit(json!({"error": e.to_string()}))),
            Err(p) => ctx.viol("C10:panic:encode", "panic", wit(json!({"panic": p}))),
        }
        // through the zero-copy decoder: it may refuse node-local identifiers altogether, but whatever it accepts must
        // come back as the bytes that arrived (after to_owned, and after the same conversion chain)
        {
            ctx.eval(1);
            match guarded(|| erltf::decode_borrowed(&bytes).map(|b| b.to_owned())) {
                Ok(Ok(owned)) => {
                    let again = guarded(|| erltf::encode(&convert(owned, &chain, &dirt)));
                    if !matches!(&again, Ok(Ok(a)) if a == &bytes) {
                        ctx.viol(
                            &format!("C10:bytes-differ:{}:{:?}:through-the-zero-copy-decoder", ["pid", "port", "ref"][kind], form),
                            "an identifier accepted by the zero-copy decoder is not re-emitted byte-for-byte",
                            wit(json!({"again": format!("{:?}", again.map(|r| r.map(|a| hex_cap(&a, 160)).map_err(|e| e.to_string())))})),
                        );
                    }
                    ctx.count("accepted_by_the_zero_copy_decoder", 1);
                }
                Ok(Err(_)) => ctx.count("refused_by_the_zero_copy_decoder", 1),
                Err(p) => ctx.viol("C10:panic:decode_borrowed", "panic", wit(json!({"panic": p}))),
            }
        }
        // the same behind a distribution header (what a connection with a negotiated atom cache sends): a node-local
        // identifier is opaque and goes out byte for byte; an ordinary one comes back equal and re-encodes to the
        // bytes it arrived in
        {
            ctx.eval(1);
            let control = OwnedTerm::Tuple(vec![OwnedTerm::Integer(2), OwnedTerm::atom(""), t2.clone()]);
            let which = rng.below(3);
            let r = guarded(|| match which {
                0 => erltf::encoder::encode_with_dist_header(&t2),
                1 => erltf::encoder::encode_with_dist_header_multi(&[&control, &t2]),
                _ => erltf::encoder::encode_with_dist_header_multi(&[&t2, &control]),
            });
            let entry = ["encode_with_dist_header", "encode_with_dist_header_multi(control, term)", "encode_with_dist_header_multi(term, control)"][which];
            match r {
                Ok(Ok(hb)) => {
                    if form == Form::Local {
                        let occurrences = hb.windows(idb.len()).filter(|w| *w == &idb[..]).count();
                        let wanted = if which == 0 { 1 } else { 2 };
                        if occurrences < wanted {
                            ctx.viol(
                                &format!("C10:bytes-differ:{}:Local:behind-a-distribution-header", ["pid", "port", "ref"][kind]),
                                "a node-local identifier is not written byte-for-byte when the term is encoded behind a distribution header",
                                wit(json!({"entry": entry, "identifier_bytes": hex_cap(&idb, 80), "encoded": hex_cap(&hb, 200), "verbatim_occurrences": occurrences, "expected": wanted})),
                            );
                        }
                    } else if which == 0 {
                        let mut cache = erltf::AtomCache::new();
                        match guarded(|| erltf::decode_with_atom_cache(&hb, &mut cache)) {
                            Ok(Ok((back, _))) => {
                                let again = erltf::encode(&back).unwrap_or_default();
                                if again != bytes {
                                    ctx.viol(
                                        &format!("C10:bytes-differ:{}:Plain:behind-a-distribution-header", ["pid", "port", "ref"][kind]),
                                        "an ordinary identifier encoded behind a distribution header does not come back as the identifier it was",
                                        wit(json!({"entry": entry, "encoded": hex_cap(&hb, 200), "re-encoded": hex_cap(&again, 160)})),
                                    );
                                }
                            }
                            Ok(Err(e)) => ctx.viol("C10:decode-error:behind-a-distribution-header", "the library cannot read its own distribution-header encoding of a term with an identifier", wit(json!({"error": e.to_string(), "encoded": hex_cap(&hb, 200)}))),
                            Err(p) => ctx.viol("C10:panic:decode", "panic", wit(json!({"panic": p}))),
                        }
                    }
                }
                Ok(Err(e)) => ctx.viol("C10:encode-error:behind-a-distribution-header", "encoding behind a distribution header failed", wit(json!({"entry": entry, "error": e.to_string()}))),
                Err(p) => ctx.viol("C10:panic:encode", "panic", wit(json!({"panic": p}))),
            }
        }
        // logical identity across forms
        if cx == 0 {
            let plain = in_context(0, &id_bytes(&id, Form::Plain, &mut rng), &[]);
            let local = in_context(0, &id_bytes(&id, Form::Local, &mut rng), &[]);
            // two node-local forms of the same identifier (other hash, other inner encoding) are one identifier too
            let local2 = in_context(0, &id_bytes(&id, Form::Local, &mut rng), &[]);
            if let (Ok(b1), Ok(b2)) = (erltf::decode(&local), erltf::decode(&local2)) {
                let same = b1 == b2 && b2 == b1 && hash_of(&b1) == hash_of(&b2) && b1.cmp(&b2) == std::cmp::Ordering::Equal;
                let wrapped = OwnedTerm::Tuple(vec![b1.clone(), OwnedTerm::Nil]) == OwnedTerm::Tuple(vec![b2.clone(), OwnedTerm::Nil]);
                let set: std::collections::HashSet<OwnedTerm> = [b1.clone(), b2.clone()].into_iter().collect();
                if !same || !wrapped || set.len() != 1 {
                    ctx.viol(
                        &format!("C10:forms-not-identified:two-local-forms:{}", ["pid", "port", "ref"][kind]),
                        "two node-local forms of one identifier (other hash / other inner encoding) are not ==/hash-equal/cmp-Equal",
                        wit(json!({"eq": b1 == b2, "hash_eq": hash_of(&b1) == hash_of(&b2), "cmp": format!("{:?}", b1.cmp(&b2)), "inside_tuple_eq": wrapped, "hashset_len": set.len(), "other_form": hex_cap(&local2, 80)})),
                    );
                }
            }
            if let (Ok(a), Ok(b)) = (erltf::decode(&plain), erltf::decode(&local)) {
                let same = a == b && hash_of(&a) == hash_of(&b) && a.cmp(&b) == std::cmp::Ordering::Equal;
                let bsame = BorrowedTerm::from(&a).cmp(&BorrowedTerm::from(&b)) == std::cmp::Ordering::Equal;
                if !same || !bsame {
                    ctx.viol(
                        &format!("C10:forms-not-identified:{}", ["pid", "port", "ref"][kind]),
                        "plain and node-local form of one identifier are not ==/hash-equal/cmp-Equal",
                        wit(json!({"eq": a == b, "hash_eq": hash_of(&a) == hash_of(&b), "cmp": format!("{:?}", a.cmp(&b))})),
                    );
                }
                // a changed field must be noticed
                let changed = match &id {
                    Val::Pid { node, id, serial, creation } => match rng.below(4) {
                        0 => Val::Pid { node: format!("{}x", node), id: *id, serial: *serial, creation: *creation },
                        1 => Val::Pid { node: node.clone(), id: id ^ 1, serial: *serial, creation: *creation },
                        2 => Val::Pid { node: node.clone(), id: *id, serial: serial ^ 1, creation: *creation },
                        _ => Val::Pid { node: node.clone(), id: *id, serial: *serial, creation: creation ^ 1 },
                    },
                    Val::Port { node, id, creation } => match rng.below(3) {
                        0 => Val::Port { node: format!("{}x", node), id: *id, creation: *creation },
                        1 => Val::Port { node: node.clone(), id: id ^ 1, creation: *creation },
                        _ => Val::Port { node: node.clone(), id: *id, creation: creation ^ 1 },
                    },
                    Val::Ref { node, creation, ids } => match rng.below(3) {
                        0 => Val::Ref { node: format!("{}x", node), creation: *creation, ids: ids.clone() },
                        1 => Val::Ref { node: node.clone(), creation: creation ^ 1, ids: ids.clone() },
                        _ => {
                            let mut i2 = ids.clone();
                            let k = rng.below(i2.len());
                            i2[k] ^= 1;
                            Val::Ref { node: node.clone(), creation: *creation, ids: i2 }
                        }
                    },
                    _ => unreachable!(),
                };
                let cb = in_context(0, &id_bytes(&changed, Form::Local, &mut rng), &[]);
                if let Ok(c) = erltf::decode(&cb) {
                    if a == c || a.cmp(&c) == std::cmp::Ordering::Equal || b == c {
                        ctx.viol(
                            &format!("C10:different-ids-identified:{}", ["pid", "port", "ref"][kind]),
                            "identifiers that differ in a logical field compare equal",
                            wit(json!({"changed": changed.show()})),
                        );
                    }
                }
                ctx.count("cross_form_checks", 1);
            }
        }
        if case % 4999 == 0 {
            ctx.sample(json!({"id": id.show(), "form": format!("{:?}", form), "context": CONTEXTS[cx], "chain": chain, "bytes": hex_cap(&bytes, 64)}));
        }
    }
    // history independence: the same ordinary calls before and after calls that fail or are unusual
    {
        let mut hrng = Rng::derive(ctx.seed, 10, 99);
        super::disturb::probe_history_independence(ctx, "C10", &mut hrng, ctx.pick(16, 60), &super::disturb::standard_probe);
    }
}
