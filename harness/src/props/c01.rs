//! C01 – encode/decode round trip preserves the Erlang value of every term.
//! Oracle: independent reader (`ref_decode`) + denotation (`val_of`), see DESIGN.md section 6.

use super::common::{first_diff, guarded, kinds_mask, size_bucket};
use crate::genr::val::{Gen, GenCfg, boundary_leaves, skeletons};
use crate::out::{Ctx, hex_cap};
use crate::refmodel::decode::ref_decode;
use crate::refmodel::denote::{Style, term_of, val_of};
use crate::refmodel::val::Val;
use crate::rng::Rng;
use erltf::{EncodeError, OwnedTerm};
use serde_json::json;

/// The harness's own size walk: names a component the format cannot express, if any.
pub fn oversize(v: &Val) -> Option<&'static str> {
    match v {
        Val::Atom(a) if a.len() > 65535 => Some("atom"),
        Val::Ref { ids, node, .. } => {
            if ids.len() > 65535 {
                Some("reference")
            } else if node.len() > 65535 {
                Some("atom")
            } else {
                None
            }
        }
        Val::Pid { node, .. } | Val::Port { node, .. } if node.len() > 65535 => Some("atom"),
        Val::ExtFun { module, function, .. } if module.len() > 65535 || function.len() > 65535 => {
            Some("atom")
        }
        Val::List { elems, tail } => elems.iter().find_map(oversize).or_else(|| oversize(tail)),
        Val::Tuple(e) => e.iter().find_map(oversize),
        Val::Map(e) => e.iter().find_map(|(k, v)| oversize(k).or_else(|| oversize(v))),
        Val::IntFun { module, pid, free, .. } => {
            if module.len() > 65535 {
                Some("atom")
            } else {
                oversize(pid).or_else(|| free.iter().find_map(oversize))
            }
        }
        _ => None,
    }
}

fn is_size_error(e: &EncodeError) -> bool {
    matches!(
        e,
        EncodeError::AtomTooLarge { .. }
            | EncodeError::StringTooLarge { .. }
            | EncodeError::ListTooLarge { .. }
            | EncodeError::MapTooLarge { .. }
            | EncodeError::BinaryTooLarge { .. }
            | EncodeError::TupleTooLarge { .. }
            | EncodeError::ReferenceTooLarge { .. }
    )
}

pub fn check_one(ctx: &Ctx, v: &Val, t: &OwnedTerm, origin: &str) {
    ctx.eval(1);
    let wit = |extra: serde_json::Value| json!({"origin": origin, "value": v.show(), "detail": extra});
    let denoted = val_of(t);
    if !denoted.same(v) {
        // the term the library's constructors built does not denote the value asked for. If a constructor is shown
        // to be at fault without any model of this harness involved (an atom asked for by name carries another
        // name), that is the library's doing; anything else is a doubt about term_of/val_of, not a verdict
        let mut atoms = Vec::new();
        crate::refmodel::dist::collect_atoms(v, &mut atoms);
        for a in &atoms {
            let made = erltf::types::Atom::new(a.as_str());
            if made.as_str() != a.as_str() {
                ctx.viol(
                    "C01:atom-constructor-names-another-atom",
                    "Atom::new(x) is not the atom x, so a term built for x is encoded as (and every x that is decoded becomes) another atom",
                    json!({"origin": origin, "asked_for": a, "got": made.as_str()}),
                );
                return;
            }
        }
        ctx.inconclusive(&format!("self-check: val_of(term_of(v)) != v for {}", v.show()));
        return;
    }
    let enc = match guarded(|| erltf::encode(t)) {
        Err(p) => {
            ctx.viol("C01:panic:encode", "encode panicked", wit(json!({"panic": p})));
            return;
        }
        Ok(Err(e)) => {
            let over = oversize(v);
            if !is_size_error(&e) || over.is_none() {
                ctx.viol(
                    &format!("C01:encode-error-unjustified:{}", v.kind()),
                    "encode failed although every component is expressible",
                    wit(json!({"error": e.to_string()})),
                );
            } else {
                ctx.class(&format!("size-error/{}", over.unwrap()));
            }
            return;
        }
        Ok(Ok(b)) => b,
    };
    if let Some(o) = oversize(v) {
        ctx.viol(
            &format!("C01:oversize-accepted:{}", o),
            "encode succeeded for a component the format cannot express",
            wit(json!({"bytes": hex_cap(&enc, 64)})),
        );
        return;
    }
    // (1) independent reader
    match ref_decode(&enc) {
        Err(e) => {
            let cause = if first_reject_kind(v) == "intfun.old_index>=2^31" {
                "intfun.old_index>=2^31".to_string()
            } else {
                format!("{:?}", e).chars().take(60).collect::<String>()
            };
            ctx.viol(
                &format!("C01:invalid-encoding:{}", cause),
                "bytes are not a valid encoding for the independent reader",
                wit(json!({"bytes": hex_cap(&enc, 96), "ref_error": format!("{:?}", e)})),
            );
        }
        Ok(r) => {
            if !r.same(v) {
                ctx.viol(
                    &format!("C01:encoded-value-differs:{}", first_diff(v, &r)),
                    "independent reader sees a different value",
                    wit(json!({"bytes": hex_cap(&enc, 96), "ref_value": r.show()})),
                );
            }
        }
    }
    // (2) own decoder
    match guarded(|| erltf::decode(&enc)) {
        Err(p) => ctx.viol("C01:panic:decode", "decode panicked", wit(json!({"panic": p}))),
        Ok(Err(e)) => ctx.viol(
            &format!("C01:decode-rejects-own-encoding:{}", first_reject_kind(v)),
            "decode(encode(t)) failed",
            wit(json!({"bytes": hex_cap(&enc, 96), "error": e.to_string()})),
        ),
        Ok(Ok(d)) => {
            let dv = val_of(&d);
            if !dv.same(v) {
                ctx.viol(
                    &format!("C01:decoded-value-differs:{}", first_diff(v, &dv)),
                    "decode(encode(t)) denotes another value",
                    wit(json!({"bytes": hex_cap(&enc, 96), "decoded": dv.show()})),
                );
            }
            match guarded(|| erltf::encode(&d)) {
                Ok(Ok(again)) => {
                    if again != enc {
                        // cause class: same value with map entries in another byte order, or another value
                        let cause = match ref_decode(&again) {
                            Ok(r2) if r2.same(v) => "map-entry-order",
                            Ok(_) => "value",
                            Err(_) => "invalid",
                        };
                        ctx.viol(
                            &format!("C01:reencode-differs:{}", cause),
                            "encode(decode(bytes)) != bytes",
                            wit(json!({"bytes": hex_cap(&enc, 96), "again": hex_cap(&again, 96)})),
                        );
                    }
                }
                Ok(Err(e)) => ctx.viol(
                    "C01:reencode-error",
                    "encoding the decoded term failed",
                    wit(json!({"error": e.to_string()})),
                ),
                Err(p) => ctx.viol("C01:panic:reencode", "re-encode panicked", wit(json!({"panic": p}))),
            }
        }
    }
    // (3) writer entry point
    let mut w: Vec<u8> = Vec::new();
    match guarded(|| erltf::encode_to_writer(t, &mut w)) {
        Ok(Ok(())) => {
            if w != enc {
                ctx.viol(
                    "C01:writer-differs",
                    "encode_to_writer bytes differ from encode",
                    wit(json!({"bytes": hex_cap(&enc, 64), "writer": hex_cap(&w, 64)})),
                );
            }
        }
        Ok(Err(e)) => ctx.viol("C01:writer-error", "encode_to_writer failed", wit(json!({"error": e.to_string()}))),
        Err(p) => ctx.viol("C01:panic:writer", "encode_to_writer panicked", wit(json!({"panic": p}))),
    }
}

/// For a value the own decoder rejects: which component is the likely culprit (for the signature).
fn first_reject_kind(v: &Val) -> String {
    fn has_big_fun_index(v: &Val) -> bool {
        let big = |i: &crate::refmodel::val::Int| i.to_i128().map(|x| x > i32::MAX as i128).unwrap_or(true);
        match v {
            Val::IntFun { old_index, old_uniq, free, .. } => {
                big(old_index) || big(old_uniq) || free.iter().any(has_big_fun_index)
            }
            Val::Tuple(e) => e.iter().any(has_big_fun_index),
            Val::List { elems, tail } => elems.iter().any(has_big_fun_index) || has_big_fun_index(tail),
            Val::Map(e) => e.iter().any(|(k, x)| has_big_fun_index(k) || has_big_fun_index(x)),
            _ => false,
        }
    }
    if has_big_fun_index(v) {
        return "intfun.old_index>=2^31".into();
    }
    // otherwise the smallest sub-value that is still rejected names the cause
    fn rejected(v: &Val) -> bool {
        let mut rng = Rng::new(1);
        match term_of(v, &mut rng, Style::User) {
            Some(t) => match erltf::encode(&t) {
                Ok(b) => erltf::decode(&b).is_err(),
                Err(_) => false,
            },
            None => false,
        }
    }
    fn go(v: &Val) -> Option<String> {
        let subs: Vec<&Val> = match v {
            Val::Tuple(e) => e.iter().collect(),
            Val::List { elems, tail } => elems.iter().chain(std::iter::once(&**tail)).collect(),
            Val::Map(e) => e.iter().flat_map(|(k, x)| [k, x]).collect(),
            Val::IntFun { free, .. } => free.iter().collect(),
            _ => vec![],
        };
        for s in subs {
            if rejected(s) {
                return go(s).or_else(|| Some(s.kind().to_string()));
            }
        }
        None
    }
    go(v).unwrap_or_else(|| v.kind().to_string())
}

pub fn run(ctx: &Ctx) {
    ctx.rule("cases = (boundary leaf x container skeleton x representation style) + seeded random trees over all value kinds; distinct = distinct (set of value kinds/width classes present, node-count bucket, style) combinations");
    ctx.assume("well-formed terms only: finite floats, num_free == free_vars.len(), improper lists with >=1 element and a non-list tail, bit-string padding bits zero");
    ctx.assume("reference reader/writer transcribed from erl_ext_dist (DESIGN.md appendix A); LOCAL_EXT read as hash8 + term");
    let mut rng = Rng::derive(ctx.seed, 1, 1);

    if let Some(rep) = &ctx.replay {
        // replay: rerun the recorded value through the same oracle is not possible from text alone;
        // the driver re-runs the whole check at the recorded seed/tier (see `check`).
        let _ = rep;
    }

    // the names real nodes send, in terms whose atoms are put together field by field (no constructor involved):
    // the bytes must name that atom and decoding must give it back
    for name in crate::genr::val::OTP_VOCABULARY.iter() {
        let atom = |n: &str| erltf::types::Atom { name: std::sync::Arc::from(n) };
        let v = Val::Tuple(vec![Val::atom(name), Val::List { elems: vec![Val::atom(name)], tail: Box::new(Val::Nil) }]);
        let t = OwnedTerm::Tuple(vec![OwnedTerm::Atom(atom(name)), OwnedTerm::List(vec![OwnedTerm::Atom(atom(name))])]);
        ctx.class("vocabulary-atom/built-field-by-field");
        check_one(ctx, &v, &t, &format!("vocabulary atom {}", name));
    }
    // deterministic boundary corpus
    let huge = true;
    let leaves = boundary_leaves(huge);
    for (li, leaf) in leaves.iter().enumerate() {
        let sk = if leaf.node_count() == 1 && approx_bytes(leaf) > 4096 {
            // huge leaves: only the bare leaf and two skeletons (cost)
            skeletons(leaf).into_iter().take(3).collect::<Vec<_>>()
        } else {
            skeletons(leaf)
        };
        for (si, v) in sk.iter().enumerate() {
            for style in [Style::User, Style::Wire, Style::Mixed] {
                if let Some(t) = term_of(v, &mut rng, style) {
                    ctx.class(&format!("{:x}/{}/{:?}", kinds_mask(v), size_bucket(v.node_count()), style));
                    check_one(ctx, v, &t, &format!("boundary leaf {} skeleton {}", li, si));
                    if ctx.samples_len() < 3 && si == 2 && li % 37 == 0 {
                        ctx.sample(json!({"value": v.show(), "bytes": erltf::encode(&t).map(|b| hex_cap(&b, 48)).unwrap_or_default()}));
                    }
                } else {
                    ctx.count("unrepresentable_skipped", 1);
                }
            }
        }
    }
    // tuple arity 0 / 255 / 256 and large flat containers
    for n in [0usize, 1, 255, 256, 300] {
        let v = Val::Tuple((0..n).map(|i| Val::int(i as i128)).collect());
        let t = term_of(&v, &mut rng, Style::User).unwrap();
        ctx.class(&format!("tuple-arity-{}", n));
        check_one(ctx, &v, &t, "tuple arity boundary");
        let l = Val::list((0..n).map(|i| Val::int((i % 256) as i128)).collect());
        let t = term_of(&l, &mut rng, Style::User).unwrap();
        check_one(ctx, &l, &t, "byte list (STRING_EXT candidate)");
        let m = Val::Map((0..n).map(|i| (Val::int(i as i128), Val::atom("v"))).collect());
        let t = term_of(&m, &mut rng, Style::User).unwrap();
        check_one(ctx, &m, &t, "map size boundary");
    }
    for n in [65535usize, 65536] {
        let l = Val::list(vec![Val::int(7); n]);
        let t = term_of(&l, &mut rng, Style::User).unwrap();
        check_one(ctx, &l, &t, "byte list at the STRING_EXT limit");
    }

    // every small structure, bare and placed, in every representation style
    {
        let small = crate::genr::small::all_small_values();
        let stride = ctx.pick(4usize, 1usize);
        for (i, v) in small.iter().enumerate() {
            for (j, w) in crate::genr::small::placed(v).iter().enumerate() {
                if j > 0 && (i + j) % stride != 0 {
                    continue;
                }
                for style in [Style::User, Style::Mixed] {
                    if let Some(t) = term_of(w, &mut rng, style) {
                        check_one(ctx, w, &t, "small structure");
                    }
                }
            }
        }
        ctx.class("small-structures/exhaustive");
    }
    // seeded random trees
    let n_random = ctx.pick(60_000usize, 3_000_000usize);
    let mut done = 0usize;
    let mut grng = Rng::derive(ctx.seed, 1, 2);
    while done < n_random && ctx.time_left() {
        let cfg = GenCfg {
            max_depth: 2 + grng.below(6),
            max_nodes: 8 + grng.below(120),
            huge_leaves: grng.chance(1, 400),
            ..GenCfg::default()
        };
        let v = {
            let mut g = Gen::new(&mut grng, cfg);
            g.value()
        };
        let style = *rng.pick(&[Style::User, Style::Wire, Style::Mixed]);
        match term_of(&v, &mut rng, style) {
            Some(t) => {
                ctx.class(&format!("{:x}/{}/{:?}", kinds_mask(&v), size_bucket(v.node_count()), style));
                check_one(ctx, &v, &t, "random tree");
                if ctx.samples_len() < 8 && done % 9973 == 0 {
                    ctx.sample(json!({"value": v.show(), "bytes": erltf::encode(&t).map(|b| hex_cap(&b, 48)).unwrap_or_default()}));
                }
            }
            None => ctx.count("unrepresentable_skipped", 1),
        }
        done += 1;
    }
    ctx.extra("random_trees", json!(done));
    // history independence: the same ordinary calls before and after calls that fail or are unusual
    {
        let mut hrng = Rng::derive(ctx.seed, 1, 99);
        super::disturb::probe_history_independence(ctx, "C01", &mut hrng, ctx.pick(16, 60), &super::disturb::standard_probe);
    }
}

fn approx_bytes(v: &Val) -> usize {
    match v {
        Val::Atom(a) => a.len(),
        Val::Bits { bytes, .. } => bytes.len(),
        Val::Ref { ids, .. } => ids.len() * 4,
        Val::Int(i) => i.mag.len(),
        _ => 0,
    }
}
