//! History independence of the codec: what a call returns must not depend on what the same thread was
//! asked before. `disturb` issues calls that are expected to fail or to be unusual - the kind of call that
//! tempts an implementation into leaving state behind (depth counters, scratch buffers, memo tables,
//! thread-locals) - and `probe_history_independence` compares the answers to a fixed set of ordinary
//! calls before and after. Panics inside a disturbance are swallowed here (C02 owns them).

use super::common::guarded;
use crate::out::Ctx;
use crate::rng::Rng;
use erltf::OwnedTerm;
use serde_json::json;

fn nest(unit: &[u8], depth: usize, inner: &[u8], closer: &[u8]) -> Vec<u8> {
    let mut x = vec![131u8];
    for _ in 0..depth {
        x.extend_from_slice(unit);
    }
    x.extend_from_slice(inner);
    for _ in 0..depth {
        x.extend_from_slice(closer);
    }
    x
}

/// A valid, moderately nested term `{k, [#{a => {1, <<..>>, [x | y]}}], 2.5}` as bytes.
fn nested_sample() -> Vec<u8> {
    let t = OwnedTerm::Tuple(vec![
        OwnedTerm::atom("k"),
        OwnedTerm::List(vec![OwnedTerm::Map(
            [(
                OwnedTerm::atom("a"),
                OwnedTerm::Tuple(vec![
                    OwnedTerm::Integer(1),
                    OwnedTerm::Binary(vec![1, 2, 3]),
                    OwnedTerm::ImproperList { elements: vec![OwnedTerm::atom("x")], tail: Box::new(OwnedTerm::atom("y")) },
                ]),
            )]
            .into_iter()
            .collect(),
        )]),
        OwnedTerm::Float(2.5),
    ]);
    erltf::encode(&t).unwrap_or_else(|_| vec![131, 106])
}

pub const DISTURBANCES: &[&str] = &[
    "decode:over-deep-tuples",
    "decode:over-deep-lists",
    "decode:over-deep-maps",
    "decode_borrowed:over-deep",
    "decode:truncated-inside-nesting",
    "decode:bad-tag-inside-nesting",
    "decode:garbage-compressed",
    "decode:local-identifiers-with-other-hashes",
    "encode:fails-midway-oversize-atom",
    "encode_to_writer:fails-midway",
    "decode_with_atom_cache:hostile-header",
    "decode:trailing-bytes",
];

/// Run disturbance `k` once.
pub fn disturb(k: usize, rng: &mut Rng) -> &'static str {
    let label = DISTURBANCES[k % DISTURBANCES.len()];
    let _ = guarded(|| match label {
        "decode:over-deep-tuples" => {
            let d = *rng.pick(&[257usize, 300, 1000]);
            let _ = erltf::decode(&nest(&[104, 1], d, &[97, 7], &[]));
        }
        "decode:over-deep-lists" => {
            let d = *rng.pick(&[257usize, 300, 600]);
            let _ = erltf::decode(&nest(&[108, 0, 0, 0, 1], d, &[97, 7], &[106]));
        }
        "decode:over-deep-maps" => {
            let d = *rng.pick(&[257usize, 400]);
            let _ = erltf::decode(&nest(&[116, 0, 0, 0, 1, 97, 1], d, &[106], &[]));
        }
        "decode_borrowed:over-deep" => {
            let d = *rng.pick(&[257usize, 300, 1000]);
            let _ = erltf::decode_borrowed(&nest(&[104, 1], d, &[97, 7], &[])).map(|t| t.to_owned());
        }
        "decode:truncated-inside-nesting" => {
            let b = nested_sample();
            let cut = b.len() - 1 - rng.below(b.len() / 2);
            let _ = erltf::decode(&b[..cut]);
            let _ = erltf::decode_borrowed(&b[..cut]).map(|t| t.to_owned());
            // and deeper ones cut exactly where the next term's tag byte is expected: inside tuples, after the
            // elements of a list (tail missing), after a map key (value missing), right behind the version byte
            let deep = nest(&[104, 1], 40 + rng.below(200), &[], &[]);
            let _ = erltf::decode(&deep);
            let _ = erltf::decode_borrowed(&deep).map(|t| t.to_owned());
            let _ = erltf::decode(&[131]);
            let _ = erltf::decode(&[131, 108, 0, 0, 0, 1, 97, 1]);
            let _ = erltf::decode(&[131, 116, 0, 0, 0, 1, 97, 1]);
            let _ = erltf::decode(&[131, 104, 3, 97, 1, 97, 2]);
            let mut cache = erltf::AtomCache::new();
            let _ = erltf::decode_with_atom_cache(&[131, 104, 2, 97, 1], &mut cache);
            let _ = erltf::decoder::decode_with_trailing(&[131, 108, 0, 0, 0, 2, 97, 1]);
        }
        "decode:bad-tag-inside-nesting" => {
            let mut b = nested_sample();
            let n = b.len();
            b[n - 12] = 255;
            let _ = erltf::decode(&b);
            let _ = erltf::decode(&nest(&[104, 1], 100, &[255, 1, 2], &[]));
        }
        "decode:garbage-compressed" => {
            let _ = erltf::decode(&[131, 80, 0, 0, 0, 9, 0x78, 0x9c, 1, 2, 3, 4]);
            let _ = erltf::decode(&[131, 104, 2, 97, 1, 80, 0, 0, 1, 0, 0x78, 0xda, 9, 9]);
        }
        "decode:local-identifiers-with-other-hashes" => {
            // the identifiers the probes use, wrapped with another hash / another inner encoding
            for id in probe_identifiers() {
                let mut b = vec![131u8, 121];
                b.extend_from_slice(&rng.bytes(8));
                b.extend_from_slice(&id);
                let _ = erltf::decode(&b);
                let _ = erltf::decode_borrowed(&b).map(|t| t.to_owned());
            }
        }
        "encode:fails-midway-oversize-atom" => {
            let t = OwnedTerm::Tuple(vec![OwnedTerm::Integer(42), OwnedTerm::List(vec![OwnedTerm::atom("fine"), OwnedTerm::atom("z".repeat(70_000))])]);
            let _ = erltf::encode(&t);
            let _ = erltf::encode(&OwnedTerm::Map([(OwnedTerm::atom("k"), OwnedTerm::atom("y".repeat(65_536)))].into_iter().collect()));
        }
        "encode_to_writer:fails-midway" => {
            let t = OwnedTerm::Tuple(vec![OwnedTerm::Binary(vec![7; 100]), OwnedTerm::atom("q".repeat(66_000))]);
            let mut sink: Vec<u8> = Vec::new();
            let _ = erltf::encode_to_writer(&t, &mut sink);
        }
        "decode_with_atom_cache:hostile-header" => {
            let mut cache = erltf::AtomCache::new();
            let _ = erltf::decode_with_atom_cache(&[131, 68, 3, 0xff, 0xff, 1, 2, 3, 4, 5], &mut cache);
            let _ = erltf::decode_with_atom_cache(&[131, 68, 1, 0x08, 0, 3, b'a', b'b'], &mut cache);
        }
        _ => {
            let mut b = nested_sample();
            b.extend_from_slice(&[1, 2, 3]);
            let _ = erltf::decode(&b);
        }
    });
    label
}

/// The deepest nesting of one-element tuples around a small integer that `erltf::decode` accepts, measured once
/// on a fresh thread (nothing done elsewhere in this process can have influenced it).
pub fn max_legal_depth() -> usize {
    static DEPTH: std::sync::OnceLock<usize> = std::sync::OnceLock::new();
    *DEPTH.get_or_init(|| {
        std::thread::spawn(|| {
            let mut d = 1usize;
            while d < 5000 && erltf::decode(&nest(&[104, 1], d + 1, &[97, 7], &[])).is_ok() {
                d += 1;
            }
            d
        })
        .join()
        .unwrap_or(64)
    })
}

/// Inner encodings (without version byte) of the identifiers used by `standard_probe`.
pub fn probe_identifiers() -> Vec<Vec<u8>> {
    let node = [119u8, 3, b'n', b'@', b'h'];
    let mut pid = vec![88u8];
    pid.extend_from_slice(&node);
    pid.extend_from_slice(&[0, 0, 0, 1, 0, 0, 0, 0, 0, 0, 0, 1]);
    let mut port = vec![120u8];
    port.extend_from_slice(&node);
    port.extend_from_slice(&[0, 0, 0, 0, 0, 0, 0, 5, 0, 0, 0, 1]);
    let mut rf = vec![90u8, 0, 2];
    rf.extend_from_slice(&node);
    rf.extend_from_slice(&[0, 0, 0, 1, 0, 0, 0, 7, 0, 0, 0, 8]);
    vec![pid, port, rf]
}

/// Answers of the codec to a fixed set of ordinary calls, as one string per call.
pub fn standard_probe() -> Vec<(String, String)> {
    let mut out: Vec<(String, String)> = Vec::new();
    let mut add = |name: &str, f: &dyn Fn() -> String| {
        out.push((name.to_string(), guarded(f).unwrap_or_else(|p| format!("PANIC {}", p))));
    };
    let sample = nested_sample();
    add("decode nested sample", &|| format!("{:?}", erltf::decode(&sample)));
    add("decode_borrowed nested sample", &|| format!("{:?}", erltf::decode_borrowed(&sample).map(|t| t.to_owned())));
    add("re-encode nested sample", &|| format!("{:?}", erltf::decode(&sample).map(|t| erltf::encode(&t))));
    // valid terms close to the nesting limit, the deepest accepted one included (so that a single leaked level shows)
    let deepest = max_legal_depth();
    for d in [100usize, 200, 250, deepest.saturating_sub(1), deepest] {
        let deep = nest(&[104, 1], d, &[97, 7], &[]);
        add(&format!("decode {} nested tuples", d), &|| format!("{:?}", erltf::decode(&deep).map(|t| erltf::encode(&t).map(|b| b == deep))));
        add(&format!("decode_borrowed {} nested tuples", d), &|| format!("{:?}", erltf::decode_borrowed(&deep).is_ok()));
        let deepl = nest(&[108, 0, 0, 0, 1], d, &[97, 7], &[106]);
        add(&format!("decode {} nested lists", d), &|| format!("{:?}", erltf::decode(&deepl).is_ok()));
    }
    // node-local identifiers with a fixed hash: the bytes must come back
    for (i, id) in probe_identifiers().into_iter().enumerate() {
        let mut b = vec![131u8, 121, 0xde, 0xad, 0xbe, 0xef, 0, 1, 2, 3];
        b.extend_from_slice(&id);
        add(&format!("node-local identifier {}", i), &|| format!("{:?}", erltf::decode(&b).map(|t| erltf::encode(&t).map(|e| e == b))));
        let mut pair = vec![131u8, 104, 2, 121, 1, 1, 1, 1, 1, 1, 1, 1];
        pair.extend_from_slice(&id);
        pair.extend_from_slice(&[121, 2, 2, 2, 2, 2, 2, 2, 2]);
        pair.extend_from_slice(&id);
        add(&format!("same identifier twice, two hashes {}", i), &|| format!("{:?}", erltf::decode(&pair).map(|t| erltf::encode(&t).map(|e| e == pair))));
    }
    // plain encode calls
    let terms = vec![
        OwnedTerm::Tuple(vec![OwnedTerm::atom("ok"), OwnedTerm::Integer(1)]),
        OwnedTerm::List(vec![OwnedTerm::Float(-0.0), OwnedTerm::Integer(i64::MIN), OwnedTerm::Binary(vec![0; 300])]),
        OwnedTerm::Map([(OwnedTerm::atom("k"), OwnedTerm::String("v".into()))].into_iter().collect()),
    ];
    for (i, t) in terms.iter().enumerate() {
        add(&format!("encode term {}", i), &|| format!("{:?}", erltf::encode(t)));
        add(&format!("encode_to_writer term {}", i), &|| {
            let mut w: Vec<u8> = Vec::new();
            format!("{:?} {:?}", erltf::encode_to_writer(t, &mut w), w)
        });
    }
    // a distribution header with two new entries, fresh cache
    add("decode_with_atom_cache fresh", &|| {
        let mut cache = erltf::AtomCache::new();
        let msg = [131u8, 68, 2, 0x88, 0x00, 1, 2, b'o', b'k', 2, 3, b'a', b'b', b'c', 104, 2, 82, 0, 82, 1];
        format!("{:?}", erltf::decode_with_atom_cache(&msg, &mut cache))
    });
    out
}

/// Probe, disturb, probe again; any changed answer is a violation `<prop>:history-dependent:<disturbance>`.
pub fn probe_history_independence(ctx: &Ctx, prop: &str, rng: &mut Rng, rounds: usize, probe: &dyn Fn() -> Vec<(String, String)>) {
    let before = probe();
    for round in 0..rounds {
        let k = if round < DISTURBANCES.len() { round } else { rng.below(DISTURBANCES.len()) };
        // the first pass issues every disturbance very often (a leak of one unit per call needs many calls to
        // show), later rounds once, a few times or often
        let repeats = if round < DISTURBANCES.len() { 300 } else { *rng.pick(&[1usize, 1, 3, 40, 300]) };
        let mut label = "";
        for _ in 0..repeats {
            label = disturb(k, rng);
        }
        let after = probe();
        ctx.eval(after.len() as u64);
        ctx.class(&format!("history-independence/{}", label));
        let changed: Vec<serde_json::Value> = before
            .iter()
            .zip(after.iter())
            .filter(|(b, a)| b.1 != a.1)
            .take(3)
            .map(|(b, a)| json!({"call": b.0, "before": b.1.chars().take(160).collect::<String>(), "after": a.1.chars().take(160).collect::<String>()}))
            .collect();
        if !changed.is_empty() {
            ctx.viol(
                &format!("{}:history-dependent:{}", prop, label),
                "an ordinary call on the same thread answers differently after calls that failed or were unusual",
                json!({"disturbance": label, "repeated": repeats, "calls_that_changed": changed}),
            );
            return; // the state is poisoned for the rest of this thread
        }
    }
}
