//! C17 – each remote call gets its own reply; nothing is left behind afterwards.
//! A scripted peer plays `rex`; callers run through a real Node.

use crate::mon::net::{self, PEER_BASE_FLAGS};
use crate::out::Ctx;
use crate::refmodel::decode::ref_decode_prefix;
use crate::refmodel::denote::val_of;
use crate::refmodel::encode::ref_encode_canonical;
use crate::refmodel::val::Val;
use crate::rng::Rng;
use erltf::OwnedTerm;
use serde_json::json;
use std::sync::Arc;
use std::sync::atomic::{AtomicU64, Ordering};
use std::time::{Duration, Instant};

#[derive(Clone, Copy, Debug, PartialEq, Eq)]
enum Script {
    InOrder,
    Reversed,
    Shuffled,
    Duplicated,
    SomeMissing,
    SomeLate,
    UnknownAddressees,
    PeerClosesMidRun,
    Mixed,
}

const SCRIPTS: &[Script] = &[
    Script::InOrder, Script::Reversed, Script::Shuffled, Script::Duplicated, Script::SomeMissing, Script::SomeLate, Script::UnknownAddressees, Script::PeerClosesMidRun, Script::Mixed,
];

struct Request {
    uid: i128,
    reply_to: Val,
}

fn parse_request(body: &[u8]) -> Option<Request> {
    if body.first() != Some(&112) {
        return None;
    }
    let (c, off) = ref_decode_prefix(&body[1..]).ok()?;
    let (p, _) = ref_decode_prefix(&body[1 + off..]).ok()?;
    // control {6, From, '', rex}; payload {From, {call, M, F, [Uid], user}}
    let Val::Tuple(ct) = &c else { return None };
    if ct.first() != Some(&Val::int(6)) {
        return None;
    }
    let Val::Tuple(pt) = &p else { return None };
    let Val::Tuple(call) = pt.get(1)? else { return None };
    let uid = match call.get(3)? {
        Val::List { elems, .. } => match elems.first()? {
            Val::Int(i) => i.to_i128()?,
            _ => return None,
        },
        _ => return None,
    };
    Some(Request { uid, reply_to: pt.first()?.clone() })
}

fn reply_frame(to: &Val, uid: i128) -> Vec<u8> {
    let control = Val::Tuple(vec![Val::int(2), Val::atom(""), to.clone()]);
    let payload = Val::Tuple(vec![Val::atom("rex"), Val::Tuple(vec![Val::atom("reply_for"), Val::int(uid)])]);
    let mut b = vec![112u8];
    b.extend(ref_encode_canonical(&control).unwrap());
    b.extend(ref_encode_canonical(&payload).unwrap());
    b
}

struct LogSink(Arc<std::sync::Mutex<Vec<String>>>);
impl LogSink {
    fn push(&mut self, s: String) {
        self.0.lock().unwrap().push(s);
    }
}

struct CallOutcome {
    uid: i128,
    result: Result<Val, String>,
    elapsed: Duration,
    timeout: Duration,
}

async fn scenario(ctx: &Ctx, rng: &mut Rng, epmd: &net::EpmdTable, id: usize, script: Script, yields: bool, early: usize, epmd_creation: u32) {
    ctx.beat(&format!("{:?}/scenario {} first wave", script, id));
    let name = format!("x{}", id);
    let pl = net::listen_as(epmd, &name).await;
    let callers = *rng.pick(&[1usize, 2, 3, 5, 8, 16, 64]);
    let call_timeout = Duration::from_millis(*rng.pick(&[120u64, 200, 300]));
    let seed = rng.next_u64();
    let late_by = call_timeout + Duration::from_millis(150);
    let wave2 = 1 + callers.min(4);
    let shared_log: Arc<std::sync::Mutex<Vec<String>>> = Default::default();
    let sl = shared_log.clone();
    let peer_task = tokio::spawn(async move {
        let mut prng = Rng::new(seed);
        let mut log = LogSink(sl);
        let mut peer = match pl.accept("cookie", PEER_BASE_FLAGS, 79).await {
            Ok(p) => p,
            Err(_) => return,
        };
        if let Err(e) = peer.handshake().await {
            log.push(format!("handshake failed: {}", e));
            return;
        }
        // collect the requests
        let mut reqs: Vec<Request> = Vec::new();
        // calls made before the node was started (they have timed out by the time they are answered)
        let mut early_reqs: Vec<Request> = Vec::new();
        let deadline = Instant::now() + Duration::from_millis(if early > 0 { 260 } else { 100 });
        let expected_requests = callers + 2 + callers.min(6);
        while reqs.len() < expected_requests {
            let left = deadline.saturating_duration_since(Instant::now()).max(Duration::from_millis(20));
            match tokio::time::timeout(left, peer.read_frame4()).await {
                Ok(Ok(f)) => {
                    if let Some(r) = parse_request(&f) {
                        if r.uid >= 0 && r.uid % 1000 >= 900 {
                            early_reqs.push(r);
                        } else {
                            reqs.push(r);
                        }
                    } else if !f.is_empty() {
                        log.push("unparsable request frame".into());
                    }
                }
                _ => break,
            }
        }
        log.push(format!("requests seen: {}", reqs.len()));
        if script == Script::PeerClosesMidRun {
            // answer about half, then drop the socket
            for r in reqs.iter().take(reqs.len() / 2) {
                let _ = peer.write_frame4(&reply_frame(&r.reply_to, r.uid)).await;
            }
            return;
        }
        for r in &early_reqs {
            let _ = peer.write_frame4(&reply_frame(&r.reply_to, r.uid)).await;
        }
        log.push(format!("requests from before the node's start: {}", early_reqs.len()));
        let mut order: Vec<usize> = (0..reqs.len()).collect();
        match script {
            Script::Reversed => order.reverse(),
            Script::Shuffled | Script::Mixed | Script::Duplicated | Script::UnknownAddressees => prng.shuffle(&mut order),
            _ => {}
        }
        let mut late: Vec<usize> = Vec::new();
        for (k, i) in order.iter().enumerate() {
            let r = &reqs[*i];
            let (missing, is_late, dup, unknown) = match script {
                Script::SomeMissing => (k % 3 == 0, false, false, false),
                Script::SomeLate => (false, k % 2 == 0, false, false),
                Script::Duplicated => (false, false, true, false),
                Script::UnknownAddressees => (false, false, false, true),
                Script::Mixed => (prng.chance(1, 6), prng.chance(1, 5), prng.chance(1, 4), prng.chance(1, 4)),
                _ => (false, false, false, false),
            };
            if unknown {
                // a reply for a call that never existed (another pid of the same node)
                // (another pid of the same node: another number, or the same number with another serial / creation /
                // node name - an identifier of an earlier incarnation or era)
                if let Val::Pid { node, id, serial, creation } = &r.reply_to {
                    let ghost = match k % 4 {
                        0 => Val::Pid { node: node.clone(), id: id.wrapping_add(500_000), serial: *serial, creation: *creation },
                        1 => Val::Pid { node: node.clone(), id: *id, serial: serial.wrapping_add(1), creation: *creation },
                        2 => Val::Pid { node: node.clone(), id: *id, serial: *serial, creation: creation.wrapping_add(1) },
                        _ => Val::Pid { node: format!("x{}", node), id: *id, serial: *serial, creation: *creation },
                    };
                    let _ = peer.write_frame4(&reply_frame(&ghost, 424242)).await;
                    // the same idea in the pid encoding of older releases (PID_EXT: 32-bit id and serial, one byte of
                    // creation), with bits set that those releases never used: still another pid
                    if *creation < 250 {
                        let (gid, gserial, gcreation) = match k % 3 {
                            0 => (id | 0x8000, *serial, *creation as u8),
                            1 => (*id, serial | 0x2000, *creation as u8),
                            _ => (*id, *serial, *creation as u8 + 4),
                        };
                        if (gid, gserial, gcreation as u32) != (*id, *serial, *creation) {
                            let mut b = vec![112u8, 131, 104, 3, 97, 2, 119, 0, 103, 119, node.len() as u8];
                            b.extend_from_slice(node.as_bytes());
                            b.extend_from_slice(&gid.to_be_bytes());
                            b.extend_from_slice(&gserial.to_be_bytes());
                            b.push(gcreation);
                            b.extend(ref_encode_canonical(&Val::Tuple(vec![Val::atom("rex"), Val::Tuple(vec![Val::atom("reply_for"), Val::int(434343)])])).unwrap());
                            let _ = peer.write_frame4(&b).await;
                        }
                    }
                }
                // and a SEND to the call's own reply pid that carries no payload at all (a shorter frame right after
                // a longer one): there is nothing to deliver, the call keeps waiting for its real reply
                if k % 2 == 0 {
                    let control = Val::Tuple(vec![Val::int(2), Val::atom(""), r.reply_to.clone()]);
                    let mut b = vec![112u8];
                    b.extend(ref_encode_canonical(&control).unwrap());
                    let _ = peer.write_frame4(&b).await;
                }
            }
            if missing {
                continue;
            }
            if is_late {
                late.push(*i);
                continue;
            }
            let _ = peer.write_frame4(&reply_frame(&r.reply_to, r.uid)).await;
            if dup {
                let _ = peer.write_frame4(&reply_frame(&r.reply_to, r.uid)).await;
            }
            if prng.chance(1, 3) {
                tokio::task::yield_now().await;
            }
        }
        // second wave: the callers of the first wave have returned (replied to, or timed out) and new calls are
        // outstanding when the stragglers of the first wave arrive: replies later than their caller's timeout and
        // repeated replies to calls that completed long ago. Only then is the second wave answered.
        let mut reqs2: Vec<Request> = Vec::new();
        let deadline2 = Instant::now() + late_by + Duration::from_millis(1500);
        while reqs2.len() < wave2 {
            let left = deadline2.saturating_duration_since(Instant::now());
            if left.is_zero() {
                break;
            }
            match tokio::time::timeout(left, peer.read_frame4()).await {
                Ok(Ok(f)) => {
                    if let Some(r) = parse_request(&f) {
                        if r.uid >= 0 && r.uid % 1000 >= 500 {
                            reqs2.push(r);
                        }
                    }
                }
                Ok(Err(_)) => break,
                Err(_) => break,
            }
        }
        log.push(format!("second-wave requests seen: {}", reqs2.len()));
        for i in late {
            let r = &reqs[i];
            let _ = peer.write_frame4(&reply_frame(&r.reply_to, r.uid)).await;
        }
        // repeated replies to completed (or timed-out) calls of the first wave and of the time before the start
        for r in early_reqs.iter().chain(reqs.iter().take(4)) {
            let _ = peer.write_frame4(&reply_frame(&r.reply_to, r.uid)).await;
        }
        tokio::task::yield_now().await;
        for r in &reqs2 {
            let _ = peer.write_frame4(&reply_frame(&r.reply_to, r.uid)).await;
        }
        log.push("script finished".into());
        tokio::time::sleep(Duration::from_millis(2000)).await;
    });
    let mut node = edp_node::Node::new(format!("caller{}@127.0.0.1", id), "cookie");
    let peer_node = format!("{}@127.0.0.1", name);
    *epmd.creation.lock().unwrap() = epmd_creation;
    if early > 0 {
        // a node may connect and call before it is started (registered): those calls time out here and are
        // answered much later, when calls made after the start are outstanding
        if let Err(e) = node.connect(peer_node.clone()).await {
            ctx.inconclusive(&format!("Node::connect failed: {}", e));
            peer_task.abort();
            return;
        }
        let calls: Vec<std::pin::Pin<Box<dyn std::future::Future<Output = ()> + '_>>> = (0..early)
            .map(|c| {
                let uid = (id as i64 % 1_000_000) * 1000 + 900 + c as i64;
                let (node, peer_node) = (&node, &peer_node);
                Box::pin(async move {
                    let _ = node.rpc_call_raw_with_timeout(peer_node, "m", "f", vec![OwnedTerm::Integer(uid)], Duration::from_millis(25)).await;
                }) as std::pin::Pin<Box<dyn std::future::Future<Output = ()> + '_>>
            })
            .collect();
        super::common::join_all(calls).await;
        ctx.count("calls_made_before_the_node_was_started", early as u64);
    }
    if let Err(e) = node.start(0).await {
        ctx.inconclusive(&format!("Node::start failed: {}", e));
        peer_task.abort();
        return;
    }
    if let Err(e) = node.connect(peer_node.clone()).await {
        ctx.inconclusive(&format!("Node::connect failed: {}", e));
        peer_task.abort();
        return;
    }
    let node = Arc::new(node);
    let hits = Arc::new(AtomicU64::new(0));
    let install_yields = |hits: &Arc<AtomicU64>| {
        if yields {
            let h2 = hits.clone();
            let s2 = seed;
            edp_client::verif::set_callback(Some(Arc::new(move |nm: &'static str| -> u32 {
                if nm.starts_with("node:rpc:") || nm.starts_with("node:route:") || nm.starts_with("conn:send:") {
                    let n = h2.fetch_add(1, Ordering::Relaxed);
                    let x = (s2 ^ n.wrapping_mul(0x9E37_79B9_7F4A_7C15)).wrapping_mul(0xBF58_476D_1CE4_E5B9);
                    return ((x >> 33) % 4) as u32;
                }
                0
            })));
        }
    };
    install_yields(&hits);
    let mut handles = Vec::new();
    for c in 0..callers {
        let node = node.clone();
        let peer_node = peer_node.clone();
        let uid = (id as i128 % 1_000_000) * 1000 + c as i128;
        handles.push(tokio::spawn(async move {
            let t0 = Instant::now();
            // every third caller goes through the wrapper that unpacks {rex, Result}; it is put back for the comparison
            let r = if c % 3 == 2 {
                node.rpc_call_with_timeout(&peer_node, "m", "f", vec![OwnedTerm::Integer(uid as i64)], call_timeout).await.map(|t| OwnedTerm::Tuple(vec![OwnedTerm::atom("rex"), t]))
            } else {
                node.rpc_call_raw_with_timeout(&peer_node, "m", "f", vec![OwnedTerm::Integer(uid as i64)], call_timeout).await
            };
            CallOutcome { uid, result: r.map(|t| val_of(&t)).map_err(|e| e.to_string()), elapsed: t0.elapsed(), timeout: call_timeout }
        }));
    }
    // calls whose timeout is shorter than the time the request needs to get onto the wire
    // (they contend for the connection with everybody else): they time out, and must leave nothing
    let mut tiny = Vec::new();
    for c in 0..(2 + callers.min(6)) {
        let node = node.clone();
        let peer_node = peer_node.clone();
        let t = [Duration::ZERO, Duration::from_micros(1), Duration::from_micros(200), Duration::from_millis(2)][c % 4];
        tiny.push(tokio::spawn(async move {
            let _ = node.rpc_call_raw_with_timeout(&peer_node, "m", "f", vec![OwnedTerm::Integer(-1 - c as i64)], t).await;
        }));
    }
    // faults on the sending side, concurrently with the others
    let n2 = node.clone();
    let no_conn = tokio::spawn(async move { n2.rpc_call_raw_with_timeout("nobody@127.0.0.1", "m", "f", vec![], Duration::from_millis(100)).await.map(|_| ()).map_err(|e| e.to_string()) });
    let watchdog = Duration::from_secs(20);
    let all = async {
        let mut outs = Vec::new();
        for h in handles {
            outs.push(h.await);
        }
        for h in tiny {
            let _ = h.await;
        }
        (outs, no_conn.await)
    };
    let joined = tokio::time::timeout(watchdog, all).await;
    edp_client::verif::set_callback(None);
    ctx.class(&format!("{:?}/{}callers/{}{}", script, callers, if yields { "current-thread+yields" } else { "multi-thread" }, if early > 0 { format!("/calls-before-start/epmd-creation-{}", if epmd_creation <= 3 { epmd_creation.to_string() } else { "32bit".into() }) } else { String::new() }));
    let wit = |d: serde_json::Value| json!({"script": format!("{:?}", script), "callers": callers, "call_timeout_ms": call_timeout.as_millis() as u64, "yields": yields, "hook_hits": hits.load(Ordering::Relaxed), "detail": d});
    let (outs, no_conn_r) = match joined {
        Err(_) => {
            ctx.viol(&format!("C17:stall:{:?}", script), "callers did not all return within the 20 s watchdog (call timeout <= 300 ms)", wit(json!({})));
            peer_task.abort();
            return;
        }
        Ok(x) => x,
    };
    ctx.eval(callers as u64 + 2);
    let _ = &no_conn_r;
    for o in outs {
        let o = match o {
            Ok(o) => o,
            Err(e) => {
                ctx.viol("C17:caller-panicked", "a calling task panicked", wit(json!({"panic": e.to_string()})));
                continue;
            }
        };
        match &o.result {
            Ok(v) => {
                let want = Val::Tuple(vec![Val::atom("rex"), Val::Tuple(vec![Val::atom("reply_for"), Val::int(o.uid)])]);
                if !v.same(&want) {
                    let from_before_start = (900..1000).any(|k| v.same(&Val::Tuple(vec![Val::atom("rex"), Val::Tuple(vec![Val::atom("reply_for"), Val::int((id as i128 % 1_000_000) * 1000 + k)])])));
                    if from_before_start {
                        ctx.viol("C17:wrong-reply:reply-to-a-call-made-before-the-node-was-started", "a call returned the late reply to a call that was made (and had timed out) before the node was started", wit(json!({"caller_uid": o.uid.to_string(), "got": v.show(), "epmd_creation": epmd_creation})));
                    } else {
                        ctx.viol("C17:wrong-reply", "a call returned a reply that was not addressed to it", wit(json!({"caller_uid": o.uid.to_string(), "got": v.show()})));
                    }
                }
            }
            Err(e) => {
                let acceptable = e.contains("timeout") || e.contains("Timeout") || e.contains("cancel") || e.contains("Cancel") || e.contains("not connected") || e.contains("I/O") || e.contains("Client error") || e.contains("Broken pipe") || e.contains("reset");
                if !acceptable {
                    ctx.viol("C17:unexpected-error", "a call ended in an error that is neither timeout, cancellation nor a connection error", wit(json!({"error": e})));
                }
                if matches!(script, Script::InOrder | Script::Reversed | Script::Shuffled | Script::Duplicated | Script::UnknownAddressees) {
                    // every request was answered in time by the script; a failure here means a lost reply
                    // unless the request itself was never seen by the peer (checked below through the log)
                    ctx.count("calls_failed_in_fully_answered_script", 1);
                }
            }
        }
        if o.elapsed > o.timeout + Duration::from_millis(1500) {
            ctx.inconclusive(&format!("a call returned after {:?} with timeout {:?} (loaded machine?)", o.elapsed, o.timeout));
        }
    }
    match no_conn_r {
        Ok(Err(_)) => {}
        Ok(Ok(())) => ctx.viol("C17:call-to-unconnected-node-succeeded", "a call to a node without connection returned a reply", wit(json!({}))),
        Err(e) => ctx.viol("C17:caller-panicked", "panic", wit(json!({"panic": e.to_string()}))),
    }
    // second wave of calls: outstanding while the peer delivers the stragglers of the first wave
    ctx.beat(&format!("{:?}/scenario {} second wave", script, id));
    {
        let mut hs = Vec::new();
        for c in 0..wave2 {
            let node = node.clone();
            let peer_node = peer_node.clone();
            let uid = (id as i128 % 1_000_000) * 1000 + 500 + c as i128;
            hs.push(tokio::spawn(async move {
                let r = node.rpc_call_raw_with_timeout(&peer_node, "m", "f", vec![OwnedTerm::Integer(uid as i64)], Duration::from_millis(700)).await;
                (uid, r.map(|t| val_of(&t)).map_err(|e| e.to_string()))
            }));
        }
        for h in hs {
            ctx.eval(1);
            match tokio::time::timeout(watchdog, h).await {
                Ok(Ok((uid, Ok(v)))) => {
                    let want = Val::Tuple(vec![Val::atom("rex"), Val::Tuple(vec![Val::atom("reply_for"), Val::int(uid)])]);
                    if !v.same(&want) {
                        ctx.viol("C17:wrong-reply:straggler-of-an-earlier-call", "a call returned a reply that was addressed to an earlier call (late or repeated reply)", wit(json!({"caller_uid": uid.to_string(), "got": v.show()})));
                    } else {
                        ctx.count("second_wave_calls_answered", 1);
                    }
                }
                Ok(Ok((_, Err(_)))) => ctx.count("second_wave_calls_failed", 1),
                Ok(Err(e)) => ctx.viol("C17:caller-panicked", "a calling task panicked", wit(json!({"panic": e.to_string()}))),
                Err(_) => {
                    ctx.viol(&format!("C17:stall:{:?}", script), "a second-wave caller did not return within the watchdog", wit(json!({})));
                }
            }
        }
    }
    // quiescence: give the receiver a moment for stragglers, then nothing may remain
    tokio::time::sleep(Duration::from_millis(60)).await;
    let left = node.pending_rpc_count();
    if left != 0 {
        ctx.viol(
            &format!("C17:bookkeeping-left-behind:after-replies:{:?}", script),
            "after every call has returned the outstanding-call table is not empty",
            wit(json!({"entries_left": left})),
        );
    }
    // a call whose request cannot be sent: the request does not encode (atom longer than the format
    // allows), so the send fails while the connection is still registered
    let long = "f".repeat(70_000);
    let before = node.pending_rpc_count();
    let connected = node.connections().contains_key(&peer_node);
    let r = tokio::time::timeout(Duration::from_secs(10), node.rpc_call_raw_with_timeout(&peer_node, "m", &long, vec![], Duration::from_millis(60))).await;
    match r {
        Ok(Err(_)) => {}
        Ok(Ok(_)) => ctx.viol("C17:unsendable-call-succeeded", "a call whose request cannot be encoded returned a reply", wit(json!({}))),
        Err(_) => ctx.viol("C17:stall:unsendable-call", "a call whose request cannot be sent never returned", wit(json!({}))),
    }
    let after = node.pending_rpc_count();
    if after > before {
        ctx.viol(
            "C17:bookkeeping-left-behind:send-failure",
            "a call whose request could not be sent left its entry in the outstanding-call table",
            wit(json!({"entries_before": before, "entries_after": after, "connection_registered": connected})),
        );
    }
    // calls racing with the loss of the connection: callers keep issuing short calls while the peer's socket goes
    // away at an arbitrary moment and the receiver task deregisters the connection; whatever each call returns,
    // nothing may stay behind
    ctx.beat(&format!("{:?}/scenario {} disconnect race", script, id));
    {
        // widen the window between registering a call and looking its connection up (an existing suspension point)
        let h2 = hits.clone();
        edp_client::verif::set_callback(Some(Arc::new(move |nm: &'static str| -> u32 {
            if nm == "node:rpc:after_insert" {
                let n = h2.fetch_add(1, Ordering::Relaxed);
                return 1 + (n % 6) as u32;
            }
            0
        })));
    }
    {
        let stop_at = Instant::now() + Duration::from_millis(160);
        let mut hs = Vec::new();
        for c in 0..6usize {
            let node = node.clone();
            let peer_node = peer_node.clone();
            hs.push(tokio::spawn(async move {
                let mut n = 0u64;
                while Instant::now() < stop_at && n < 400 {
                    let _ = node.rpc_call_raw_with_timeout(&peer_node, "m", "f", vec![OwnedTerm::Integer(-100 - c as i64)], Duration::from_micros([0u64, 50, 2000][c % 3])).await;
                    n += 1;
                    if n % 3 == 0 {
                        tokio::task::yield_now().await;
                    }
                }
                n
            }));
        }
        tokio::time::sleep(Duration::from_millis(5 + (seed % 60))).await;
        peer_task.abort();
        let _ = peer_task.await;
        let mut stalled = false;
        let mut issued = 0u64;
        for h in hs {
            match tokio::time::timeout(watchdog, h).await {
                Ok(Ok(n)) => issued += n,
                _ => stalled = true,
            }
        }
        edp_client::verif::set_callback(None);
        ctx.eval(issued);
        ctx.count("calls_issued_around_a_disconnect", issued);
        if stalled {
            ctx.viol("C17:stall:disconnect-race", "a call issued while the connection was going away never returned", wit(json!({})));
        }
        tokio::time::sleep(Duration::from_millis(50)).await;
        let left = node.pending_rpc_count();
        if left != 0 {
            ctx.viol(
                "C17:bookkeeping-left-behind:disconnect-race",
                "calls issued while the peer's connection was being lost have all returned, yet the outstanding-call table is not empty",
                wit(json!({"entries_left": left, "calls_issued": issued, "connection_still_registered": node.connections().contains_key(&peer_node)})),
            );
        }
    }
    let log = shared_log.lock().unwrap().clone();
    if id % 13 == 0 {
        ctx.sample(json!({"script": format!("{:?}", script), "callers": callers, "peer_log": log, "pending_after": left}));
    }
}

/// Two calls are outstanding; the reply to the first arrives in two pieces with more than the connection's fixed
/// 10 s between them, and from the second piece on its bytes read like a frame of their own, addressed to the second
/// call. Whatever the node makes of the stall, the second call may only ever return its own reply or an error.
async fn stalled_frame(ctx: &Ctx, epmd: &net::EpmdTable, id: usize) {
    let name = format!("stall{}", id);
    let pl = net::listen_as(epmd, &name).await;
    let (uid_a, uid_b) = (7_000_000 + id as i128 * 10, 7_000_001 + id as i128 * 10);
    let peer_task = tokio::spawn(async move {
        let Ok(mut peer) = pl.accept("cookie", PEER_BASE_FLAGS, 86).await else { return false };
        if peer.handshake().await.is_err() {
            return false;
        }
        let mut reqs: Vec<Request> = Vec::new();
        while reqs.len() < 2 {
            match tokio::time::timeout(Duration::from_secs(5), peer.read_frame4()).await {
                Ok(Ok(f)) => {
                    if let Some(r) = parse_request(&f) {
                        reqs.push(r);
                    }
                }
                _ => return false,
            }
        }
        let (Some(a), Some(b)) = (reqs.iter().find(|r| r.uid == uid_a), reqs.iter().find(|r| r.uid == uid_b)) else { return false };
        // what the tail of A's reply reads like on its own: a SEND to B's reply pid carrying {rex, {reply_for, A}}
        let inner_body = reply_frame(&b.reply_to, uid_a);
        let mut inner = (inner_body.len() as u32).to_be_bytes().to_vec();
        inner.extend_from_slice(&inner_body);
        // A's real reply: {rex, <<inner>>}
        let control = Val::Tuple(vec![Val::int(2), Val::atom(""), a.reply_to.clone()]);
        let payload = Val::Tuple(vec![Val::atom("rex"), Val::binary(&inner)]);
        let mut body = vec![112u8];
        body.extend(ref_encode_canonical(&control).unwrap());
        body.extend(ref_encode_canonical(&payload).unwrap());
        let mut whole = (body.len() as u32).to_be_bytes().to_vec();
        whole.extend_from_slice(&body);
        let split = whole.len() - inner.len();
        if whole[split..] != inner[..] {
            return false;
        }
        let _ = peer.sock_write(&whole[..split]).await;
        tokio::time::sleep(Duration::from_millis(10_700)).await;
        let _ = peer.sock_write(&whole[split..]).await;
        tokio::time::sleep(Duration::from_millis(2500)).await;
        true
    });
    let mut node = edp_node::Node::new(format!("stalled{}@127.0.0.1", id), "cookie");
    if let Err(e) = node.start(0).await {
        ctx.inconclusive(&format!("Node::start failed: {}", e));
        peer_task.abort();
        return;
    }
    let peer_node = format!("{}@127.0.0.1", name);
    if let Err(e) = node.connect(peer_node.clone()).await {
        ctx.inconclusive(&format!("Node::connect failed: {}", e));
        peer_task.abort();
        return;
    }
    let node = Arc::new(node);
    let call = |uid: i128| {
        let (node, peer_node) = (node.clone(), peer_node.clone());
        tokio::spawn(async move { node.rpc_call_raw_with_timeout(&peer_node, "m", "f", vec![OwnedTerm::Integer(uid as i64)], Duration::from_millis(12_500)).await.map(|t| val_of(&t)).map_err(|e| e.to_string()) })
    };
    let (ca, cb) = (call(uid_a), call(uid_b));
    let ra = tokio::time::timeout(Duration::from_secs(25), ca).await;
    let rb = tokio::time::timeout(Duration::from_secs(25), cb).await;
    let scripted = tokio::time::timeout(Duration::from_secs(5), peer_task).await.ok().and_then(|r| r.ok()).unwrap_or(false);
    ctx.eval(2);
    ctx.class("stalled-frame/reply-in-two-pieces-more-than-10s-apart");
    if !scripted {
        ctx.inconclusive("the scripted peer could not play the stalled-frame script");
        return;
    }
    for (which, uid, r) in [("first", uid_a, &ra), ("second", uid_b, &rb)] {
        match r {
            Err(_) => ctx.viol("C17:stall:after-a-stalled-frame", "a call did not return within 25 s (timeout 12.5 s)", json!({"call": which})),
            Ok(Err(e)) => ctx.viol("C17:caller-panicked", "a calling task panicked", json!({"panic": e.to_string()})),
            Ok(Ok(Err(_))) => {}
            Ok(Ok(Ok(v))) => {
                let own = Val::Tuple(vec![Val::atom("rex"), Val::Tuple(vec![Val::atom("reply_for"), Val::int(uid)])]);
                // the first call may also get its real reply ({rex, <<...>>}) if the node waited the stall out
                let real_a = which == "first" && matches!(v, Val::Tuple(t) if t.len() == 2 && t[0] == Val::atom("rex") && matches!(t[1], Val::Bits { .. }));
                if !v.same(&own) && !real_a {
                    ctx.viol(
                        "C17:wrong-reply:after-a-stalled-frame",
                        "a call returned bytes that were part of the reply addressed to another call (the frame had stalled for more than the connection's timeout and its tail was read as a frame of its own)",
                        json!({"call": which, "caller_uid": uid.to_string(), "got": v.show()}),
                    );
                }
            }
        }
    }
    tokio::time::sleep(Duration::from_millis(50)).await;
    if node.pending_rpc_count() != 0 {
        ctx.viol("C17:bookkeeping-left-behind:after-a-stalled-frame", "after both calls returned the outstanding-call table is not empty", json!({"entries_left": node.pending_rpc_count()}));
    }
}

pub fn run(ctx: &Ctx) {
    ctx.rule("scenarios = 1..64 concurrent callers through one Node against a scripted rex peer x reply scripts (in order, reversed, shuffled, duplicated, some missing, some later than the caller's timeout, replies to unknown addressees, peer closes mid-run, mixed) + a second wave of calls that is outstanding while the peer delivers the first wave's late replies and repeats replies to completed calls + six callers issuing short calls in a loop while the peer's socket goes away at a seeded moment and the receiver deregisters the connection + calls made (and timed out) before Node::start, against an EPMD that hands out creation 1, 2, 3 or a 32-bit one, answered while later calls are outstanding + two outstanding calls while the reply to the first stalls in the middle for more than the connection's 10 s and its tail reads like a frame for the second + a call to an unconnected node + a call whose request cannot be sent, on a current-thread runtime with seeded yields at the insert/send/remove and lookup/remove hooks and on a multi-thread runtime; oracle: every Ok result carries the caller's own id, every call ends, the outstanding-call table is empty at quiescence; evaluations = calls judged; distinct = distinct (script, caller count, runtime) combinations");
    ctx.assume("call timeouts 120..300 ms real time; a call returning later than timeout + 1.5 s is inconclusive, only the 20 s watchdog is a violation");
    let mut rng = Rng::derive(ctx.seed, 17, 1);
    let n = ctx.pick(36usize, 3000usize);
    {
        let rt = tokio::runtime::Builder::new_current_thread().enable_all().build().expect("runtime");
        rt.block_on(async {
            let epmd = net::start_epmd().await;
            let epmd = &epmd;
            // concurrently (it mostly waits): a reply that stalls in the middle for longer than the connection's timeout
            let stalls = async {
                for k in 0..ctx.pick(1usize, 6usize) {
                    stalled_frame(ctx, epmd, k).await;
                }
            };
            let main_loop = async {
            for i in 0..n {
                if !ctx.time_left() {
                    break;
                }
                let early = if i % 4 == 1 { 1 + rng.below(3) } else { 0 };
                let creation = *rng.pick(&[1u32, 1, 2, 3, 0x5151_0001]);
                scenario(ctx, &mut rng, epmd, i, SCRIPTS[i % SCRIPTS.len()], true, early, creation).await;
            }
            };
            tokio::join!(main_loop, stalls);
        });
    }
    {
        let rt = tokio::runtime::Builder::new_multi_thread().worker_threads(8).enable_all().build().expect("runtime");
        rt.block_on(async {
            let epmd = net::start_epmd().await;
            for i in 0..n / 2 {
                if !ctx.time_left() {
                    break;
                }
                let early = if i % 4 == 2 { 1 + rng.below(3) } else { 0 };
                let creation = *rng.pick(&[1u32, 1, 2, 3, 0x5151_0001]);
                scenario(ctx, &mut rng, &epmd, 100_000 + i, SCRIPTS[i % SCRIPTS.len()], false, early, creation).await;
            }
        });
    }
}
