//! C04 – handshake: connected only after cookie proof; flags are the intersection; every other peer
//! behaviour ends in an error within the timeout; emitted messages have the protocol's layout.

use super::common::guarded;
use crate::mon::net::{self, PEER_BASE_FLAGS, Peer};
use crate::out::{Ctx, hex_cap};
use crate::refmodel::md5::{challenge_digest, selfcheck};
use crate::rng::Rng;
use edp_client::state_machine::{ConnectionState, HandshakeStateMachine};
use edp_client::{Connection, ConnectionConfig, DistributionFlags};
use serde_json::json;
use std::time::{Duration, Instant};

// ------------------------------------------------------------------ monitor 1: state machine traces

#[derive(Clone, Copy, Debug, PartialEq, Eq)]
enum Act {
    Begin,
    SendName,
    StatusOk,
    StatusOkSimultaneous,
    StatusNok,
    StatusNotAllowed,
    StatusAlive,
    StatusGarbage,
    StatusEmpty,
    Complement,
    ChallengeValid,
    ChallengeTruncated,
    ChallengeOldFormat,
    ChallengeBadNameLen,
    ChallengeEmpty,
    Reply,
    AckValid,
    AckPrevEpoch,
    AckWrongDigest,
    AckForPeerChallenge,
    AckTruncated,
    AckWrongTag,
    Disconnect,
}

const ACTS: &[Act] = &[
    Act::Begin, Act::SendName, Act::StatusOk, Act::StatusOkSimultaneous, Act::StatusNok, Act::StatusNotAllowed, Act::StatusAlive, Act::StatusGarbage, Act::StatusEmpty,
    Act::Complement, Act::ChallengeValid, Act::ChallengeTruncated, Act::ChallengeOldFormat, Act::ChallengeBadNameLen, Act::ChallengeEmpty, Act::Reply, Act::AckValid,
    Act::AckPrevEpoch, Act::AckWrongDigest, Act::AckForPeerChallenge, Act::AckTruncated, Act::AckWrongTag, Act::Disconnect,
];

/// Wrong digests of every structure a careless comparison might let through: single bits, whole-digest
/// transformations, the same mask in two or four words (cancels in an XOR accumulator), permutations of the
/// words, correct prefixes and suffixes.
fn corrupt_digest(d: [u8; 16], variant: usize) -> [u8; 16] {
    let mut o = d;
    match variant % 24 {
        0 => o[3] ^= 0x40,
        1 => o[0] ^= 1,
        2 => o[15] ^= 0x80,
        3 => o.iter_mut().for_each(|b| *b = !*b),
        4 => o.iter_mut().for_each(|b| *b ^= 0xA5),
        5 => {
            o[1] ^= 0x10;
            o[5] ^= 0x10;
        }
        6 => {
            o[2] ^= 0x01;
            o[14] ^= 0x01;
        }
        7 => {
            for w in 0..4 {
                o[w * 4] ^= 0x80;
            }
        }
        8 => o.swap(0, 4),
        9 => {
            // swap the first two words
            for k in 0..4 {
                o.swap(k, 4 + k);
            }
        }
        10 => o.reverse(),
        11 => o.rotate_left(1),
        12 => o = [0u8; 16],
        13 => o = [0xffu8; 16],
        14 => o[8..].iter_mut().for_each(|b| *b = 0),
        15 => o[..8].iter_mut().for_each(|b| *b = 0),
        16 => o[15] = o[15].wrapping_add(1),
        17 => {
            o[0] ^= 0xff;
            o[4] ^= 0xff;
            o[8] ^= 0xff;
            o[12] ^= 0xff;
        }
        18 => {
            o[7] ^= 0x20;
            o[11] ^= 0x20;
        }
        19 => o[8] ^= 0x01,
        20 => o.iter_mut().enumerate().for_each(|(i, b)| *b ^= i as u8 + 1),
        21 => {
            // two bytes exchanged inside one word
            o.swap(1, 2);
            if o == d {
                o[1] ^= 1;
            }
        }
        22 => o.rotate_right(4),
        _ => o[12] ^= 0x04,
    }
    if o == d {
        o[0] ^= 1;
    }
    o
}

/// Status texts a peer is not supposed to send: invalid UTF-8, and valid text that is unknown, long, and has
/// multi-byte characters starting at every byte offset up to 80 (whatever trims or quotes the text cuts there).
fn garbage_status(variant: usize) -> Vec<u8> {
    let mut m = vec![b's'];
    match variant % 90 {
        0 => m.extend_from_slice(&[0xff, 0xfe, 1]),
        1 => m.extend_from_slice(&[0xff, 0x00, 0x80]),
        2 => m.extend_from_slice("ok ".as_bytes()),
        3 => m.extend_from_slice("OK".as_bytes()),
        4 => m.extend(std::iter::repeat(b'x').take(65_000)),
        5 => m.extend_from_slice("okay_simultaneous".as_bytes()),
        k => {
            m.extend(std::iter::repeat(b'n').take(k - 6));
            m.extend_from_slice(["\u{e9}\u{e9}\u{e9}", "\u{20ac}\u{e9}", "\u{1d518}x"][k % 3].as_bytes());
            m.extend_from_slice(b"_the_node_is_not_welcome_here");
        }
    }
    m
}

static GARBAGE: std::sync::atomic::AtomicUsize = std::sync::atomic::AtomicUsize::new(0);

static CORRUPTION: std::sync::atomic::AtomicUsize = std::sync::atomic::AtomicUsize::new(0);

#[derive(Clone)]
struct Cfg {
    cookie: String,
    name: String,
    flags: u64,
    creation: u32,
    peer_flags: u64,
    peer_challenge: u32,
}

fn peer_challenge_msg(cfg: &Cfg, challenge: u32) -> Vec<u8> {
    let mut b = vec![b'N'];
    b.extend_from_slice(&cfg.peer_flags.to_be_bytes());
    b.extend_from_slice(&challenge.to_be_bytes());
    b.extend_from_slice(&7u32.to_be_bytes());
    b.extend_from_slice(&8u16.to_be_bytes());
    b.extend_from_slice(b"peer@hst");
    b
}

/// Shadow state of one handshake epoch (reset by disconnect).
#[derive(Default, Clone)]
struct Shadow {
    peer_challenge: Option<u32>,
    /// our challenge as read out of the bytes of the last reply emitted in this epoch
    replied_challenge: Option<u32>,
    /// a valid acknowledgement for `replied_challenge` arrived after that reply
    proven: bool,
}

fn run_sequence(ctx: &Ctx, cfg: &Cfg, seq: &[Act], origin: &str) {
    let mut sm = HandshakeStateMachine::new(cfg.name.clone(), "peer@hst".to_string(), cfg.cookie.clone(), DistributionFlags::new(cfg.flags), cfg.creation);
    let mut sh = Shadow::default();
    let mut prev_epoch_challenge: Option<u32> = None;
    let mut steps: Vec<String> = Vec::new();
    for (i, act) in seq.iter().enumerate() {
        ctx.eval(1);
        steps.push(format!("{:?}", act));
        let wit = |d: serde_json::Value| json!({"origin": origin, "cookie": cfg.cookie, "name_len": cfg.name.len(), "flags": format!("{:#x}", cfg.flags), "peer_flags": format!("{:#x}", cfg.peer_flags), "steps": steps, "at": i, "detail": d});
        let r = guarded(|| -> Result<Option<Vec<u8>>, String> {
            match act {
                Act::Begin => sm.begin_connect().map(|_| None).map_err(|e| e.to_string()),
                Act::SendName => sm.prepare_send_name().map(Some).map_err(|e| e.to_string()),
                Act::StatusOk => sm.handle_status(b"sok").map(|_| None).map_err(|e| e.to_string()),
                Act::StatusOkSimultaneous => sm.handle_status(b"sok_simultaneous").map(|_| None).map_err(|e| e.to_string()),
                Act::StatusNok => sm.handle_status(b"snok").map(|_| None).map_err(|e| e.to_string()),
                Act::StatusNotAllowed => sm.handle_status(b"snot_allowed").map(|_| None).map_err(|e| e.to_string()),
                Act::StatusAlive => sm.handle_status(b"salive").map(|_| None).map_err(|e| e.to_string()),
                Act::StatusGarbage => sm.handle_status(&garbage_status(GARBAGE.fetch_add(1, std::sync::atomic::Ordering::Relaxed))).map(|_| None).map_err(|e| e.to_string()),
                Act::StatusEmpty => sm.handle_status(&[]).map(|_| None).map_err(|e| e.to_string()),
                Act::Complement => sm.prepare_complement().map(Some).map_err(|e| e.to_string()),
                Act::ChallengeValid => sm.handle_challenge(&peer_challenge_msg(cfg, cfg.peer_challenge)).map(|_| None).map_err(|e| e.to_string()),
                Act::ChallengeTruncated => {
                    let m = peer_challenge_msg(cfg, cfg.peer_challenge);
                    sm.handle_challenge(&m[..10]).map(|_| None).map_err(|e| e.to_string())
                }
                Act::ChallengeOldFormat => {
                    let mut m = vec![b'n', 0, 5];
                    m.extend_from_slice(&(cfg.peer_flags as u32).to_be_bytes());
                    m.extend_from_slice(&cfg.peer_challenge.to_be_bytes());
                    m.extend_from_slice(b"peer@hst");
                    sm.handle_challenge(&m).map(|_| None).map_err(|e| e.to_string())
                }
                Act::ChallengeBadNameLen => {
                    let mut m = peer_challenge_msg(cfg, cfg.peer_challenge);
                    m[17] = 0xff;
                    m[18] = 0xff;
                    sm.handle_challenge(&m).map(|_| None).map_err(|e| e.to_string())
                }
                Act::ChallengeEmpty => sm.handle_challenge(&[]).map(|_| None).map_err(|e| e.to_string()),
                Act::Reply => sm.prepare_challenge_reply().map(Some).map_err(|e| e.to_string()),
                Act::AckValid => {
                    let d = challenge_digest(&cfg.cookie, sh.replied_challenge.unwrap_or(0x1234_5678));
                    let mut m = vec![b'a'];
                    m.extend_from_slice(&d);
                    sm.handle_challenge_ack(&m).map(|_| None).map_err(|e| e.to_string())
                }
                Act::AckPrevEpoch => {
                    let d = challenge_digest(&cfg.cookie, prev_epoch_challenge.unwrap_or(0x0bad_cafe));
                    let mut m = vec![b'a'];
                    m.extend_from_slice(&d);
                    sm.handle_challenge_ack(&m).map(|_| None).map_err(|e| e.to_string())
                }
                Act::AckWrongDigest => {
                    let d = challenge_digest(&cfg.cookie, sh.replied_challenge.unwrap_or(1));
                    let d = corrupt_digest(d, CORRUPTION.fetch_add(1, std::sync::atomic::Ordering::Relaxed));
                    let mut m = vec![b'a'];
                    m.extend_from_slice(&d);
                    sm.handle_challenge_ack(&m).map(|_| None).map_err(|e| e.to_string())
                }
                Act::AckForPeerChallenge => {
                    // the digest the *client* has to send (for the peer's challenge), echoed back
                    let d = challenge_digest(&cfg.cookie, cfg.peer_challenge);
                    let mut m = vec![b'a'];
                    m.extend_from_slice(&d);
                    sm.handle_challenge_ack(&m).map(|_| None).map_err(|e| e.to_string())
                }
                Act::AckTruncated => sm.handle_challenge_ack(&[b'a', 1, 2, 3]).map(|_| None).map_err(|e| e.to_string()),
                Act::AckWrongTag => {
                    let d = challenge_digest(&cfg.cookie, sh.replied_challenge.unwrap_or(1));
                    let mut m = vec![b'r'];
                    m.extend_from_slice(&d);
                    sm.handle_challenge_ack(&m).map(|_| None).map_err(|e| e.to_string())
                }
                Act::Disconnect => {
                    sm.disconnect();
                    Ok(None)
                }
            }
        });
        let res = match r {
            Ok(x) => x,
            Err(p) => {
                ctx.viol(&format!("C04:sm:panic:{:?}", act), "a handshake API call panicked", wit(json!({"panic": p})));
                return;
            }
        };
        // ---- shadow update + per-step oracles
        match (act, &res) {
            (Act::Disconnect, _) => {
                if let Some(c) = sh.replied_challenge {
                    prev_epoch_challenge = Some(c);
                }
                sh = Shadow::default();
            }
            (Act::ChallengeValid, Ok(_)) => {
                sh.peer_challenge = Some(cfg.peer_challenge);
                let want = cfg.peer_flags & cfg.flags;
                match sm.negotiated_flags() {
                    Some(f) if f.as_u64() == want => {}
                    other => ctx.viol(
                        "C04:sm:negotiated-flags",
                        "negotiated flags are not the intersection of both sides' flags",
                        wit(json!({"negotiated": other.map(|f| format!("{:#x}", f.as_u64())), "expected": format!("{:#x}", want)})),
                    ),
                }
            }
            (Act::ChallengeValid, Err(e)) => {
                ctx.viol("C04:sm:valid-challenge-rejected", "a well-formed challenge was rejected", wit(json!({"error": e})));
            }
            (Act::ChallengeTruncated | Act::ChallengeOldFormat | Act::ChallengeBadNameLen | Act::ChallengeEmpty, Ok(_)) => {
                ctx.viol(&format!("C04:sm:malformed-accepted:{:?}", act), "a malformed challenge was accepted", wit(json!({})));
            }
            (Act::StatusNok | Act::StatusNotAllowed | Act::StatusAlive | Act::StatusGarbage | Act::StatusEmpty, Ok(_)) => {
                ctx.viol(&format!("C04:sm:refusal-accepted:{:?}", act), "a refusing or malformed status was accepted", wit(json!({})));
            }
            (Act::AckTruncated | Act::AckWrongTag | Act::AckWrongDigest, Ok(_)) => {
                ctx.viol(&format!("C04:sm:bad-ack-accepted:{:?}", act), "a malformed or wrong acknowledgement was accepted", wit(json!({})));
            }
            (Act::SendName, Ok(Some(bytes))) => {
                // 2-byte length, 'n', version 5, low 32 flag bits, name
                let mut want = vec![];
                let body_len = 1 + 2 + 4 + cfg.name.len();
                want.extend_from_slice(&(body_len as u16).to_be_bytes());
                want.push(b'n');
                want.extend_from_slice(&5u16.to_be_bytes());
                want.extend_from_slice(&(cfg.flags as u32).to_be_bytes());
                want.extend_from_slice(cfg.name.as_bytes());
                if cfg.name.len() > 255 {
                    ctx.viol("C04:sm:long-name-accepted", "a node name longer than 255 bytes was put into a name message", wit(json!({"len": cfg.name.len()})));
                } else if *bytes != want {
                    ctx.viol("C04:sm:layout:send_name", "the name message does not have the protocol's layout", wit(json!({"got": hex_cap(bytes, 48), "want": hex_cap(&want, 48)})));
                }
            }
            (Act::SendName, Err(_)) => {
                if cfg.name.len() <= 255 {
                    ctx.viol("C04:sm:send_name-refused", "a name of at most 255 bytes was refused", wit(json!({"len": cfg.name.len()})));
                }
            }
            (Act::Complement, Ok(Some(bytes))) => {
                let mut want = vec![0u8, 9, b'c'];
                want.extend_from_slice(&((cfg.flags >> 32) as u32).to_be_bytes());
                want.extend_from_slice(&cfg.creation.to_be_bytes());
                if *bytes != want {
                    ctx.viol("C04:sm:layout:complement", "the complement message does not have the protocol's layout", wit(json!({"got": hex_cap(bytes, 32), "want": hex_cap(&want, 32)})));
                }
            }
            (Act::Reply, Ok(Some(bytes))) => {
                if bytes.len() != 23 || bytes[0] != 0 || bytes[1] != 21 || bytes[2] != b'r' {
                    ctx.viol("C04:sm:layout:reply", "the challenge reply does not have the protocol's layout", wit(json!({"got": hex_cap(bytes, 32)})));
                } else {
                    let ours = u32::from_be_bytes([bytes[3], bytes[4], bytes[5], bytes[6]]);
                    sh.replied_challenge = Some(ours);
                    sh.proven = false;
                    match sh.peer_challenge {
                        Some(pc) => {
                            if bytes[7..23] != challenge_digest(&cfg.cookie, pc) {
                                ctx.viol("C04:sm:reply-digest", "the reply does not carry MD5(cookie ++ peer's challenge of this handshake)", wit(json!({"got": hex_cap(&bytes[7..23], 16), "peer_challenge": pc})));
                            }
                        }
                        None => ctx.viol("C04:sm:reply-without-challenge", "a challenge reply was produced in an epoch without a valid peer challenge", wit(json!({"got": hex_cap(bytes, 32)}))),
                    }
                }
            }
            (Act::AckValid, Ok(_)) => {
                if sh.replied_challenge.is_some() {
                    sh.proven = true;
                }
            }
            (Act::AckPrevEpoch, Ok(_)) => {
                if prev_epoch_challenge.is_some() && prev_epoch_challenge == sh.replied_challenge {
                    sh.proven = true; // the clock-derived challenge repeated: then the digest is the right one
                }
            }
            (Act::AckForPeerChallenge, Ok(_)) => {
                if sh.replied_challenge == Some(cfg.peer_challenge) {
                    sh.proven = true;
                }
            }
            _ => {}
        }
        // ---- the central invariant
        let st = match guarded(|| sm.state()) {
            Ok(s) => s,
            Err(p) => {
                ctx.viol("C04:sm:panic:state", "state() panicked", wit(json!({"panic": p})));
                return;
            }
        };
        if st == ConnectionState::Connected && !sh.proven {
            ctx.viol(
                &format!("C04:sm:connected-without-proof:{:?}", act),
                "state is Connected although the peer has not returned the digest of the cookie and the challenge issued in this handshake",
                wit(json!({"replied_challenge": sh.replied_challenge, "prev_epoch_challenge": prev_epoch_challenge})),
            );
            return;
        }
        if st != ConnectionState::Connected && *act == Act::AckValid && sh.replied_challenge.is_some() && sh.peer_challenge.is_some() && res.is_ok() {
            ctx.viol("C04:sm:not-connected-after-proof", "a valid acknowledgement was accepted but the state is not Connected", wit(json!({"state": st.as_str()})));
        }
        if *act == Act::AckValid && sh.replied_challenge.is_some() && sh.peer_challenge.is_some() && res.is_err() {
            // valid ack for the challenge we emitted, and no later challenge replaced ours?
            // (a later ChallengeValid regenerates our challenge; then the digest is legitimately stale)
            let later_challenge = seq[..i].iter().rposition(|a| *a == Act::ChallengeValid) > seq[..i].iter().rposition(|a| *a == Act::Reply);
            if !later_challenge {
                ctx.viol("C04:sm:valid-ack-rejected", "the correct digest for the challenge this side issued was rejected", wit(json!({"error": res.clone().err()})));
            }
        }
    }
}

fn state_machine_part(ctx: &Ctx, rng: &mut Rng) {
    let cfgs: Vec<Cfg> = vec![
        Cfg { cookie: "secret".into(), name: "a@b".into(), flags: DistributionFlags::default().as_u64(), creation: 1, peer_flags: PEER_BASE_FLAGS | 0x2000, peer_challenge: 0x1122_3344 },
        Cfg { cookie: "".into(), name: "x".into(), flags: u64::MAX, creation: u32::MAX, peer_flags: 0, peer_challenge: 0 },
        Cfg { cookie: "пароль-✓".into(), name: "é".repeat(127), flags: 0, creation: 0, peer_flags: u64::MAX, peer_challenge: u32::MAX },
        Cfg { cookie: "c".repeat(300), name: "n".repeat(255), flags: 0xdead_beef_0123_4567, creation: 77, peer_flags: 0x0f0f_0f0f_f0f0_f0f0, peer_challenge: 2_147_483_648 },
        Cfg { cookie: "k".into(), name: "n".repeat(256), flags: 1, creation: 1, peer_flags: 1, peer_challenge: 1 },
    ];
    // exhaustive sequences over the symbolic actions
    let depth = ctx.pick(4usize, 5usize);
    let mut count = 0u64;
    let mut idx = vec![0usize; depth];
    'outer: loop {
        let seq: Vec<Act> = idx.iter().map(|i| ACTS[*i]).collect();
        run_sequence(ctx, &cfgs[(count % 2) as usize], &seq, "all sequences");
        count += 1;
        if !ctx.time_left() {
            break;
        }
        let mut k = depth;
        loop {
            if k == 0 {
                break 'outer;
            }
            k -= 1;
            idx[k] += 1;
            if idx[k] < ACTS.len() {
                break;
            }
            idx[k] = 0;
        }
    }
    ctx.extra("exhaustive_sequence_length", json!(depth));
    ctx.extra("exhaustive_sequences", json!(count));
    ctx.class(&format!("sm/exhaustive/len{}", depth));
    // canonical good runs and near-misses with every configuration
    for (ci, cfg) in cfgs.iter().enumerate() {
        let good = [Act::Begin, Act::SendName, Act::StatusOk, Act::Complement, Act::ChallengeValid, Act::Reply, Act::AckValid];
        run_sequence(ctx, cfg, &good, &format!("conforming run cfg{}", ci));
        let reuse = [Act::Begin, Act::SendName, Act::StatusOk, Act::ChallengeValid, Act::Reply, Act::AckValid, Act::Disconnect, Act::Begin, Act::SendName, Act::StatusOk, Act::ChallengeValid, Act::Reply, Act::AckPrevEpoch, Act::AckValid];
        run_sequence(ctx, cfg, &reuse, &format!("reuse after disconnect cfg{}", ci));
        ctx.class(&format!("sm/config{}", ci));
    }
    // random longer sequences
    let n = ctx.pick(20_000usize, 1_000_000usize);
    for r in 0..n {
        if !ctx.time_left() {
            break;
        }
        let len = 5 + rng.below(8);
        let seq: Vec<Act> = (0..len).map(|_| *rng.pick(ACTS)).collect();
        let mut cfg = rng.pick(&cfgs).clone();
        if rng.chance(1, 3) {
            cfg.flags = rng.next_u64();
            cfg.peer_flags = rng.next_u64();
            cfg.peer_challenge = rng.next_u32();
        }
        ctx.class_hash(crate::rng::fnv(format!("{:?}", seq).as_bytes()));
        run_sequence(ctx, &cfg, &seq, "random sequence");
        if r % 4001 == 0 {
            ctx.sample(json!({"monitor": "state machine", "sequence": seq.iter().map(|a| format!("{:?}", a)).collect::<Vec<_>>()}));
        }
    }
}

// ------------------------------------------------------------- monitor 2: connect vs scripted peer

#[derive(Clone, Copy, Debug, PartialEq, Eq)]
enum Dev {
    Conforming,
    StatusNok,
    StatusNotAllowed,
    StatusAlive,
    StatusGarbage,
    SilentAfterName,
    CloseAfterName,
    ChallengeTruncated,
    ChallengeOldFormat,
    ChallengeOversized,
    SilentAfterStatus,
    CloseAfterStatus,
    AckBeforeChallenge,
    WrongDigest,
    DigestForOtherChallenge,
    DigestOfOwnChallenge,
    SilentAfterReply,
    CloseAfterReply,
    AckTruncated,
    Dribble,
    TwoStatuses,
    /// a frame is announced, fewer body bytes than announced arrive, then nothing (socket stays open)
    StatusShortThenSilent,
    ChallengeShortThenSilent,
    AckShortThenSilent,
    /// half a length prefix, then nothing
    HalfPrefixThenSilent,
    /// a frame of length zero where a handshake message is due, followed by an otherwise faultless handshake
    EmptyFrameBeforeStatus,
    EmptyFrameBeforeChallenge,
    EmptyFrameBeforeAck,
    /// nothing but frames of length zero, 20 ms apart, for longer than the watchdog
    EmptyFrameFlood,
}

const DEVS: &[Dev] = &[
    Dev::Conforming, Dev::StatusNok, Dev::StatusNotAllowed, Dev::StatusAlive, Dev::StatusGarbage, Dev::SilentAfterName, Dev::CloseAfterName,
    Dev::ChallengeTruncated, Dev::ChallengeOldFormat, Dev::ChallengeOversized, Dev::SilentAfterStatus, Dev::CloseAfterStatus, Dev::AckBeforeChallenge,
    Dev::WrongDigest, Dev::DigestForOtherChallenge, Dev::DigestOfOwnChallenge, Dev::SilentAfterReply, Dev::CloseAfterReply, Dev::AckTruncated, Dev::Dribble, Dev::TwoStatuses,
    Dev::StatusShortThenSilent, Dev::ChallengeShortThenSilent, Dev::AckShortThenSilent, Dev::HalfPrefixThenSilent,
    Dev::EmptyFrameBeforeStatus, Dev::EmptyFrameBeforeChallenge, Dev::EmptyFrameBeforeAck, Dev::EmptyFrameFlood,
];

/// Returns the instant the peer went silent (if the script has such a point).
async fn play(peer: &mut Peer, dev: Dev, silent: std::sync::Arc<std::sync::Mutex<Option<Instant>>>) -> Option<Instant> {
    use Dev::*;
    let _ = peer.recv_name().await;
    if dev == EmptyFrameBeforeStatus {
        let _ = peer.write_frame2(&[]).await;
    }
    if dev == EmptyFrameFlood {
        let t = Instant::now();
        *silent.lock().unwrap() = Some(t);
        while t.elapsed() < Duration::from_secs(20) {
            if peer.write_frame2(&[]).await.is_err() {
                break;
            }
            tokio::time::sleep(Duration::from_millis(20)).await;
        }
        return Some(t);
    }
    match dev {
        SilentAfterName => {
            let t = Instant::now();
            *silent.lock().unwrap() = Some(t);
            tokio::time::sleep(Duration::from_secs(20)).await;
            return Some(t);
        }
        CloseAfterName => return None,
        StatusNok => {
            let _ = peer.write_frame2(&Peer::status_body("nok")).await;
            return None;
        }
        StatusNotAllowed => {
            let _ = peer.write_frame2(&Peer::status_body("not_allowed")).await;
            return None;
        }
        StatusAlive => {
            let _ = peer.write_frame2(&Peer::status_body("alive")).await;
            tokio::time::sleep(Duration::from_millis(50)).await;
            return None;
        }
        StatusGarbage => {
            let _ = peer.write_frame2(&garbage_status(GARBAGE.fetch_add(1, std::sync::atomic::Ordering::Relaxed))).await;
            return None;
        }
        StatusShortThenSilent | HalfPrefixThenSilent => {
            // "sok" announced as 3 bytes, 2 arrive / only the first byte of the prefix arrives
            let _ = peer.sock_write(if dev == StatusShortThenSilent { &[0u8, 3, b's', b'o'][..] } else { &[0u8][..] }).await;
            let t = Instant::now();
            *silent.lock().unwrap() = Some(t);
            tokio::time::sleep(Duration::from_secs(20)).await;
            return Some(t);
        }
        AckBeforeChallenge => {
            let _ = peer.write_frame2(&Peer::status_body("ok")).await;
            let d = challenge_digest(&peer.cookie, 42);
            let _ = peer.write_frame2(&Peer::ack_body(&d)).await;
            let t = Instant::now();
            *silent.lock().unwrap() = Some(t);
            tokio::time::sleep(Duration::from_secs(20)).await;
            return Some(t);
        }
        _ => {}
    }
    if dev == Dribble {
        let mut all = vec![0u8, 3];
        all.extend_from_slice(&Peer::status_body("ok"));
        let ch = peer.challenge_body();
        all.extend_from_slice(&(ch.len() as u16).to_be_bytes());
        all.extend_from_slice(&ch);
        let cuts: Vec<usize> = (1..all.len()).collect();
        let _ = peer.write_sliced(&all, &cuts).await;
    } else {
        let _ = peer.write_frame2(&Peer::status_body("ok")).await;
        if dev == TwoStatuses {
            let _ = peer.write_frame2(&Peer::status_body("ok")).await;
        }
        match dev {
            SilentAfterStatus => {
                let t = Instant::now();
                *silent.lock().unwrap() = Some(t);
                tokio::time::sleep(Duration::from_secs(20)).await;
                return Some(t);
            }
            CloseAfterStatus => return None,
            ChallengeShortThenSilent => {
                let ch = peer.challenge_body();
                let mut b = (ch.len() as u16).to_be_bytes().to_vec();
                b.extend_from_slice(&ch[..ch.len() - 3]);
                let _ = peer.sock_write(&b).await;
                let t = Instant::now();
                *silent.lock().unwrap() = Some(t);
                tokio::time::sleep(Duration::from_secs(20)).await;
                return Some(t);
            }
            ChallengeTruncated => {
                let ch = peer.challenge_body();
                let _ = peer.write_frame2(&ch[..9]).await;
                return None;
            }
            ChallengeOldFormat => {
                let mut m = vec![b'n', 0, 5];
                m.extend_from_slice(&(peer.flags as u32).to_be_bytes());
                m.extend_from_slice(&peer.challenge.to_be_bytes());
                m.extend_from_slice(peer.name.as_bytes());
                let _ = peer.write_frame2(&m).await;
                return None;
            }
            ChallengeOversized => {
                let mut ch = peer.challenge_body();
                ch[17] = 0xff;
                ch[18] = 0xf0;
                ch.extend(std::iter::repeat(b'z').take(60_000));
                let _ = peer.write_frame2(&ch).await;
                return None;
            }
            _ => {
                if dev == EmptyFrameBeforeChallenge {
                    let _ = peer.write_frame2(&[]).await;
                }
                let ch = peer.challenge_body();
                let _ = peer.write_frame2(&ch).await;
            }
        }
    }
    let reply = peer.recv_reply().await;
    let (client_challenge, _digest) = match reply {
        Ok(x) => x,
        Err(_) => return None,
    };
    match dev {
        SilentAfterReply => {
            let t = Instant::now();
            *silent.lock().unwrap() = Some(t);
            tokio::time::sleep(Duration::from_secs(20)).await;
            Some(t)
        }
        CloseAfterReply => None,
        AckShortThenSilent => {
            let d = challenge_digest(&peer.cookie, client_challenge);
            let ack = Peer::ack_body(&d);
            let mut b = (ack.len() as u16).to_be_bytes().to_vec();
            b.extend_from_slice(&ack[..10]);
            let _ = peer.sock_write(&b).await;
            let t = Instant::now();
            *silent.lock().unwrap() = Some(t);
            tokio::time::sleep(Duration::from_secs(20)).await;
            Some(t)
        }
        WrongDigest => {
            let d = challenge_digest(&peer.cookie, client_challenge);
            let d = corrupt_digest(d, CORRUPTION.fetch_add(1, std::sync::atomic::Ordering::Relaxed));
            let _ = peer.write_frame2(&Peer::ack_body(&d)).await;
            None
        }
        DigestForOtherChallenge => {
            let d = challenge_digest(&peer.cookie, client_challenge.wrapping_add(1));
            let _ = peer.write_frame2(&Peer::ack_body(&d)).await;
            None
        }
        DigestOfOwnChallenge => {
            let d = challenge_digest(&peer.cookie, peer.challenge);
            let _ = peer.write_frame2(&Peer::ack_body(&d)).await;
            None
        }
        AckTruncated => {
            let d = challenge_digest(&peer.cookie, client_challenge);
            let _ = peer.write_frame2(&Peer::ack_body(&d)[..9]).await;
            None
        }
        _ => {
            if dev == EmptyFrameBeforeAck {
                let _ = peer.write_frame2(&[]).await;
            }
            let d = challenge_digest(&peer.cookie, client_challenge);
            let _ = peer.write_frame2(&Peer::ack_body(&d)).await;
            // stay around so that the client can finish
            tokio::time::sleep(Duration::from_millis(30)).await;
            None
        }
    }
}

async fn connect_part(ctx: &Ctx, rng: &mut Rng) {
    let epmd = net::start_epmd().await;
    let rounds = ctx.pick(6usize, 60usize);
    let timeout = Duration::from_millis(200);
    let mut scen = 0usize;
    for round in 0..rounds {
        for dev in DEVS {
            if !ctx.time_left() {
                return;
            }
            scen += 1;
            ctx.eval(1);
            let short = format!("p{}", scen);
            let pl = net::listen_as(&epmd, &short).await;
            let cookie = rng.pick(&["secret", "", "пароль", "a-much-longer-cookie-value-0123456789", "secret\n", " padded ", "tab\t", "\n", "se cret", "\u{a0}nbsp\u{a0}", "UPPER", "trailing\r\n"]).to_string();
            let own_flags = if round % 3 == 1 { DistributionFlags::default().as_u64() | 0x2000 } else if round % 3 == 2 { rng.next_u64() | 0x0100_0000 } else { DistributionFlags::default().as_u64() };
            let peer_flags = if round % 2 == 0 { PEER_BASE_FLAGS | 0x2000 | 0x800_0000 } else { rng.next_u64() };
            let peer_challenge = *rng.pick(&[0u32, 1, u32::MAX, 0x8000_0000, 123456789]);
            let local_name = rng.pick(&["rust@127.0.0.1", "é@127.0.0.1", "averyveryveryveryveryveryveryverylongnodename@127.0.0.1"]).to_string();
            let cookie2 = cookie.clone();
            let devc = *dev;
            let silent_cell: std::sync::Arc<std::sync::Mutex<Option<Instant>>> = Default::default();
            let transcript_cell: std::sync::Arc<std::sync::Mutex<Option<std::sync::Arc<std::sync::Mutex<net::HsTranscript>>>>> = Default::default();
            let (sc, tc) = (silent_cell.clone(), transcript_cell.clone());
            let peer_task = tokio::spawn(async move {
                let mut peer = match pl.accept(&cookie2, peer_flags, peer_challenge).await {
                    Ok(p) => p,
                    Err(_) => return,
                };
                *tc.lock().unwrap() = Some(peer.transcript.clone());
                let _ = play(&mut peer, devc, sc).await;
            });
            let cfg = ConnectionConfig::new(local_name.clone(), format!("{}@127.0.0.1", short), cookie.clone())
                .with_epmd_host("127.0.0.1")
                .with_flags(DistributionFlags::new(own_flags))
                .with_creation(0x0a0b_0c0du32)
                .with_timeout(timeout);
            // every third connection has a past: it completed a faultless handshake with an earlier incarnation of the
            // peer and was closed; whatever that left behind must not change what happens now
            let reused = scen % 3 == 0;
            let mut conn = Connection::new(cfg);
            let mut first_peer_task = Some(peer_task);
            if reused {
                if let Some(t) = first_peer_task.take() {
                    t.abort();
                    let _ = t.await;
                }
                let pl0 = net::listen_as(&epmd, &short).await;
                let c0 = cookie.clone();
                let first = tokio::spawn(async move {
                    if let Ok(mut peer) = pl0.accept(&c0, peer_flags, peer_challenge ^ 0x5555).await {
                        let _ = play(&mut peer, Dev::Conforming, Default::default()).await;
                    }
                });
                let r0 = tokio::time::timeout(Duration::from_secs(10), conn.connect()).await;
                let _ = conn.close().await;
                first.abort();
                if !matches!(r0, Ok(Ok(()))) {
                    ctx.inconclusive("the faultless first handshake of a connection that was to be reused did not complete");
                    continue;
                }
            }
            // (the scripted peer of this scenario is started only now, so that the first incarnation cannot take its place)
            let pl = if reused { Some(net::listen_as(&epmd, &short).await) } else { None };
            let peer_task = if let Some(pl) = pl {
                let (sc, tc) = (silent_cell.clone(), transcript_cell.clone());
                let cookie2 = cookie.clone();
                tokio::spawn(async move {
                    let mut peer = match pl.accept(&cookie2, peer_flags, peer_challenge).await {
                        Ok(p) => p,
                        Err(_) => return,
                    };
                    *tc.lock().unwrap() = Some(peer.transcript.clone());
                    let _ = play(&mut peer, devc, sc).await;
                })
            } else {
                first_peer_task.take().expect("peer task")
            };
            let client = tokio::spawn(async move {
                let t0 = Instant::now();
                let r = conn.connect().await;
                let done = Instant::now();
                (r.map_err(|e| e.to_string()), conn.state(), conn.negotiated_flags().map(|f| f.as_u64()), t0, done)
            });
            let watchdog = Duration::from_secs(15);
            let joined = tokio::time::timeout(watchdog, client).await;
            let wit = |d: serde_json::Value| json!({"deviation": format!("{:?}", devc), "connection_used_before": reused, "cookie": cookie, "own_flags": format!("{:#x}", own_flags), "peer_flags": format!("{:#x}", peer_flags), "peer_challenge": peer_challenge, "detail": d});
            ctx.class(&format!("connect/{:?}/flags{}{}", dev, round % 3, if reused { "/connection-used-before" } else { "" }));
            let (res, state, nego, _t0, done) = match joined {
                Err(_) => {
                    ctx.viol(&format!("C04:connect:never-returns:{:?}", dev), "connect() did not return within the 15 s watchdog (configured timeout 200 ms)", wit(json!({})));
                    peer_task.abort();
                    continue;
                }
                Ok(Err(e)) => {
                    ctx.viol(&format!("C04:connect:panic:{:?}", dev), "the connecting task panicked", wit(json!({"panic": e.to_string()})));
                    peer_task.abort();
                    continue;
                }
                Ok(Ok(x)) => x,
            };
            // give a conforming peer a moment to finish, then stop the script
            let _ = tokio::time::timeout(Duration::from_millis(100), async { while !peer_task.is_finished() { tokio::time::sleep(Duration::from_millis(5)).await; } }).await;
            peer_task.abort();
            let silent_at = *silent_cell.lock().unwrap();
            let transcript: Option<net::HsTranscript> = transcript_cell.lock().unwrap().as_ref().map(|t| t.lock().unwrap().clone());
            if *dev == Dev::Conforming || *dev == Dev::Dribble {
                match &res {
                    Ok(()) => {
                        if state != ConnectionState::Connected {
                            ctx.viol("C04:connect:ok-but-not-connected", "connect() returned Ok but the state is not connected", wit(json!({"state": state.as_str()})));
                        }
                        if nego != Some(own_flags & peer_flags) {
                            ctx.viol("C04:connect:negotiated-flags", "negotiated flags are not the intersection", wit(json!({"negotiated": nego.map(|f| format!("{:#x}", f)), "expected": format!("{:#x}", own_flags & peer_flags)})));
                        }
                    }
                    Err(e) => ctx.viol(&format!("C04:connect:conforming-peer-refused:{:?}", dev), "connect() failed against a conforming peer", wit(json!({"error": e}))),
                }
            } else {
                if res.is_ok() || state == ConnectionState::Connected {
                    ctx.viol(&format!("C04:connect:connected-despite:{:?}", dev), "the connection reached the connected state although the peer deviated from the handshake", wit(json!({"result": format!("{:?}", res), "state": state.as_str()})));
                }
                if let Some(t) = silent_at {
                    // measured from the instant the peer went silent
                    let waited = done.saturating_duration_since(t);
                    let bound = timeout + Duration::from_secs(1);
                    if waited > bound {
                        ctx.inconclusive(&format!("connect returned {:?} after the peer went silent (bound {:?}; loaded machine?) for {:?}", waited, bound, dev));
                    }
                    ctx.count("silence_scenarios_timed", 1);
                }
            }
            // layout and order of what the client sent
            if let Some(t) = transcript {
                for e in &t.layout_errors {
                    ctx.viol("C04:connect:layout", "a handshake message emitted on the wire does not parse under the protocol's layout", wit(json!({"error": e})));
                }
                if let Some(n) = &t.name {
                    let short_ok = n.name == local_name.as_bytes();
                    let flags_ok = if n.old_style { n.flags == (own_flags & 0xffff_ffff) && n.version == 5 } else { n.flags == own_flags };
                    if !short_ok || !flags_ok {
                        ctx.viol("C04:connect:name-message-content", "the name message does not carry the configured name/flags", wit(json!({"name": String::from_utf8_lossy(&n.name), "flags": format!("{:#x}", n.flags), "old_style": n.old_style})));
                    }
                }
                if let Some((hi, cr)) = t.complement {
                    if hi != (own_flags >> 32) as u32 || cr != 0x0a0b_0c0d {
                        ctx.viol("C04:connect:complement-content", "the complement message does not carry the high flag bits / creation", wit(json!({"flags_high": format!("{:#x}", hi), "creation": cr})));
                    }
                }
                if let Some((_, d)) = t.reply {
                    if d != challenge_digest(&cookie, peer_challenge) {
                        ctx.viol("C04:connect:reply-digest", "the reply on the wire does not carry MD5(cookie ++ peer challenge)", wit(json!({"digest": hex_cap(&d, 16)})));
                    }
                }
                let order: Vec<u8> = t.frames.iter().map(|f| f.0).collect();
                let ok_order = order.is_empty() || (order[0] == b'n' || order[0] == b'N') && order[1..].iter().all(|c| *c == b'c' || *c == b'r') && order.iter().filter(|c| **c == b'r').count() <= 1;
                if !ok_order {
                    ctx.viol("C04:connect:message-order", "handshake messages were sent out of protocol order", wit(json!({"order": order.iter().map(|c| *c as char).collect::<String>()})));
                }
                if scen % 17 == 0 {
                    ctx.sample(json!({"monitor": "connect", "deviation": format!("{:?}", devc), "client_frames": order.iter().map(|c| *c as char).collect::<String>(), "result": format!("{:?}", res).chars().take(100).collect::<String>()}));
                }
            }
        }
    }
}

/// Monitor 3: the handshake messages as such (the public message types both roles of a handshake are written with): what
/// `encode` emits against an independent statement of the protocol's layouts, `decode` of that, and the digests.
fn message_part(ctx: &Ctx, rng: &mut Rng) {
    use edp_client::handshake::{Challenge, ChallengeAck, ChallengeReply, SendName, Status, StatusMessage};
    let cookies = ["secret", "", "пароль", "a-much-longer-cookie-value-0123456789", " padded ", "line\n"];
    let names: Vec<String> = vec!["a@b".into(), "rust@127.0.0.1".into(), "é@host".into(), "n".repeat(255), format!("{}@x", "ü".repeat(100)), "x".into()];
    let framed = |body: &[u8]| {
        let mut f = (body.len() as u16).to_be_bytes().to_vec();
        f.extend_from_slice(body);
        f
    };
    let differ = |ctx: &Ctx, what: &str, got: &[u8], want: &[u8]| {
        if got != want {
            ctx.viol(&format!("C04:message-layout:{}", what), "a handshake message does not have the byte layout the protocol prescribes", json!({"message": what, "emitted": hex_cap(got, 64), "protocol": hex_cap(want, 64)}));
        }
    };
    for round in 0..ctx.pick(60usize, 3000usize) {
        let flags = match round % 4 { 0 => 0, 1 => u64::MAX, 2 => DistributionFlags::default().as_u64(), _ => rng.next_u64() };
        let creation = *rng.pick(&[0u32, 1, 3, 0x0a0b_0c0d, u32::MAX]);
        let challenge = *rng.pick(&[0u32, 1, 0x7fff_ffff, 0x8000_0000, u32::MAX, 123_456_789]);
        let name = rng.pick(&names).clone();
        let cookie = *rng.pick(&cookies);
        ctx.eval(6);
        ctx.class(&format!("messages/flags{}/name{}", round % 4, if name.len() > 200 { "-long" } else if !name.is_ascii() { "-non-ascii" } else { "" }));
        // name (new and old form)
        let sn = SendName::new(DistributionFlags::new(flags), creation, name.clone());
        let mut body = vec![b'N'];
        body.extend_from_slice(&flags.to_be_bytes());
        body.extend_from_slice(&creation.to_be_bytes());
        body.extend_from_slice(&(name.len() as u16).to_be_bytes());
        body.extend_from_slice(name.as_bytes());
        match sn.encode() {
            Ok(e) => {
                differ(ctx, "name", &e, &framed(&body));
                match SendName::decode(&body) {
                    Ok(d) if d.flags.as_u64() == flags && d.creation == creation && d.name == name => {}
                    other => ctx.viol("C04:message-decode:name", "a name message in the protocol's layout is not read back as its fields", json!({"result": format!("{:?}", other.map(|d| (d.flags.as_u64(), d.creation, d.name))).chars().take(200).collect::<String>()})),
                }
            }
            Err(e) => ctx.viol("C04:message-encode-error:name", "a name message with a legal name cannot be encoded", json!({"error": e.to_string(), "name_len": name.len()})),
        }
        let mut old = vec![b'n', 0, 5];
        old.extend_from_slice(&(flags as u32).to_be_bytes());
        old.extend_from_slice(name.as_bytes());
        if let Ok(e) = sn.encode_old() {
            differ(ctx, "name-old-form", &e, &framed(&old));
        }
        // status
        for (st, text) in [(Status::Ok, "ok"), (Status::OkSimultaneous, "ok_simultaneous"), (Status::Nok, "nok"), (Status::NotAllowed, "not_allowed"), (Status::Alive, "alive")] {
            let mut b = vec![b's'];
            b.extend_from_slice(text.as_bytes());
            differ(ctx, &format!("status:{}", text), &StatusMessage::new(st).encode(), &framed(&b));
            match StatusMessage::decode(&b) {
                Ok(d) if d.status == st => {}
                other => ctx.viol("C04:message-decode:status", "a status message in the protocol's layout is not read back as that status", json!({"status": text, "result": format!("{:?}", other.map(|d| d.status as u8))})),
            }
        }
        // challenge
        let mut cb = vec![b'N'];
        cb.extend_from_slice(&flags.to_be_bytes());
        cb.extend_from_slice(&challenge.to_be_bytes());
        cb.extend_from_slice(&creation.to_be_bytes());
        cb.extend_from_slice(&(name.len() as u16).to_be_bytes());
        cb.extend_from_slice(name.as_bytes());
        if let Ok(e) = Challenge::new(DistributionFlags::new(flags), challenge, creation, name.clone()).encode() {
            differ(ctx, "challenge", &e, &framed(&cb));
        }
        match Challenge::decode(&cb) {
            Ok(d) if d.flags.as_u64() == flags && d.challenge == challenge && d.creation == creation && d.name == name => {}
            other => ctx.viol("C04:message-decode:challenge", "a challenge in the protocol's layout is not read back as its fields", json!({"result": format!("{:?}", other.map(|d| (d.flags.as_u64(), d.challenge, d.creation, d.name))).chars().take(200).collect::<String>()})),
        }
        // reply and ack: layout, digest, verification
        let ours = rng.next_u32();
        let want_digest = challenge_digest(cookie, challenge);
        let reply = ChallengeReply::new(ours, challenge, cookie);
        let mut rb = vec![b'r'];
        rb.extend_from_slice(&ours.to_be_bytes());
        rb.extend_from_slice(&want_digest);
        differ(ctx, "reply", &reply.encode(), &framed(&rb));
        let ack = ChallengeAck::new(challenge, cookie);
        let mut ab = vec![b'a'];
        ab.extend_from_slice(&want_digest);
        differ(ctx, "ack", &ack.encode(), &framed(&ab));
        let other_cookie = if cookie == "secret" { "Secret" } else { "secret" };
        let mut verdicts: Vec<(&str, bool, bool)> = vec![
            ("reply:right", reply.verify(challenge, cookie), true),
            ("ack:right", ack.verify(challenge, cookie), true),
            ("reply:other-challenge", reply.verify(challenge.wrapping_add(1), cookie), false),
            ("ack:other-challenge", ack.verify(challenge ^ 0x8000_0000, cookie), false),
            ("reply:other-cookie", reply.verify(challenge, other_cookie), false),
            ("ack:other-cookie", ack.verify(challenge, other_cookie), false),
        ];
        let v = rng.below(24);
        let bad = corrupt_digest(want_digest, v);
        if bad != want_digest {
            verdicts.push(("reply:corrupted-digest", ChallengeReply { challenge: ours, digest: bad }.verify(challenge, cookie), false));
            verdicts.push(("ack:corrupted-digest", ChallengeAck { digest: bad }.verify(challenge, cookie), false));
        }
        match (ChallengeReply::decode(&rb), ChallengeAck::decode(&ab)) {
            (Ok(r), Ok(a)) => {
                verdicts.push(("reply:decoded", r.challenge == ours && r.verify(challenge, cookie), true));
                verdicts.push(("ack:decoded", a.verify(challenge, cookie), true));
            }
            other => ctx.viol("C04:message-decode:reply-or-ack", "a reply / ack in the protocol's layout cannot be read", json!({"result": format!("{:?}", other).chars().take(200).collect::<String>()})),
        }
        for (what, got, want) in verdicts {
            if got != want {
                ctx.viol(&format!("C04:message-verify:{}", what), "verification of a digest gives the wrong answer", json!({"case": what, "verify": got, "expected": want, "cookie": cookie, "challenge": challenge, "corruption": v}));
            }
        }
    }
}

pub fn run(ctx: &Ctx) {
    ctx.rule("monitor 1: every sequence of length <= 3 (quick) / 4 (thorough) over 23 symbolic handshake-API actions (valid / stale-epoch / wrong / truncated / wrong-tag arguments) plus random sequences of length 5..12, five configurations (empty/long/non-ASCII cookies, names of 1..256 bytes, all-ones/zero/random flags, challenge 0 and 2^32-1), checked online against a shadow of the handshake epoch; monitor 2: Connection::connect against a scripted peer over loopback + fake EPMD for 29 peer behaviours (silence at and inside every step, truncated / oversized / old-format messages, 24 digest corruptions, garbage statuses, frames of length zero before each step and as a flood) x flag sets, a third of them on a connection object that completed a handshake and was closed before; monitor 3: the public handshake message types (name in both forms, status, challenge, reply, ack): what encode emits against the protocol's layouts, decode of those bytes, digests against an own MD5 and verify() on right, foreign and corrupted digests; evaluations = API calls / connect attempts judged; distinct = distinct action sequences (hash) and (deviation, flag set) pairs");
    ctx.assume("digest of a non-ASCII cookie is taken over its UTF-8 bytes (the property does not fix the byte encoding); timing: a silent peer must be noticed within timeout + max(1 s, timeout), measured from the peer's silence; later but before the 15 s watchdog = inconclusive");
    if !selfcheck() {
        ctx.inconclusive("MD5 self-check (RFC 1321 vectors) failed: harness broken");
        return;
    }
    let mut rng = Rng::derive(ctx.seed, 4, 1);
    state_machine_part(ctx, &mut rng);
    message_part(ctx, &mut rng);
    let rt = tokio::runtime::Builder::new_current_thread().enable_all().build().expect("runtime");
    rt.block_on(connect_part(ctx, &mut rng));
}
