//! C09 – fragment reassembly returns the original message once, in any arrival order.
//! Sequential model of the assembler + exhaustive arrival permutations for small counts.

use super::common::guarded;
use crate::out::{Ctx, hex_cap};
use crate::rng::Rng;
use edp_client::fragmentation::FragmentAssembler;
use serde_json::json;
use std::collections::{HashMap, HashSet};
use std::time::Duration;

#[derive(Clone, Debug)]
struct Frag {
    seq: u64,
    id: u64,
    header: bool,
    data: Vec<u8>,
}

/// Split `msg` the protocol's way: the first fragment is numbered `n` and carries the start of
/// the data, the others count down to 1. `cuts` are n-1 ascending cut positions.
fn split(seq: u64, msg: &[u8], cuts: &[usize]) -> Vec<Frag> {
    let n = cuts.len() + 1;
    let mut out = Vec::new();
    let mut prev = 0;
    for k in 0..n {
        let end = if k < cuts.len() { cuts[k] } else { msg.len() };
        out.push(Frag {
            seq,
            id: (n - k) as u64,
            header: k == 0,
            data: msg[prev..end].to_vec(),
        });
        prev = end;
    }
    out
}

struct ModelSeq {
    total: Option<u64>,
    got: HashMap<u64, Vec<u8>>,
    early: HashMap<u64, Vec<u8>>,
}

/// Sequential reference model of the assembler.
#[derive(Default)]
struct Model {
    pending: HashMap<u64, ModelSeq>,
}

impl Model {
    fn deliver(&mut self, f: &Frag) -> Option<Vec<u8>> {
        if f.header {
            if f.id == 0 {
                return None;
            }
            let e = self.pending.entry(f.seq).or_insert(ModelSeq { total: None, got: HashMap::new(), early: HashMap::new() });
            if e.total.is_none() {
                e.total = Some(f.id);
                let early: Vec<(u64, Vec<u8>)> = e.early.drain().collect();
                for (id, d) in early {
                    if id >= 1 && id <= f.id {
                        e.got.entry(id).or_insert(d);
                    }
                }
            }
            e.got.entry(f.id).or_insert(f.data.clone());
        } else {
            let e = self.pending.entry(f.seq).or_insert(ModelSeq { total: None, got: HashMap::new(), early: HashMap::new() });
            if f.id == 0 {
                // ignored; an entry created only by ignored fragments still exists in the real assembler
            } else {
                match e.total {
                    Some(t) => {
                        if f.id <= t {
                            e.got.entry(f.id).or_insert(f.data.clone());
                        }
                    }
                    None => {
                        e.early.entry(f.id).or_insert(f.data.clone());
                    }
                }
            }
        }
        let e = self.pending.get(&f.seq)?;
        let t = e.total?;
        if (1..=t).all(|i| e.got.contains_key(&i)) {
            let e = self.pending.remove(&f.seq).unwrap();
            let mut out = Vec::new();
            for i in (1..=t).rev() {
                out.extend_from_slice(&e.got[&i]);
            }
            Some(out)
        } else {
            None
        }
    }
}

fn ascending_concat(frags: &[Frag], seq: u64) -> Vec<u8> {
    let mut v: Vec<&Frag> = frags.iter().filter(|f| f.seq == seq && f.id > 0).collect();
    v.sort_by_key(|f| f.id);
    v.dedup_by_key(|f| f.id);
    let mut out = Vec::new();
    for f in v {
        out.extend_from_slice(&f.data);
    }
    out
}

/// Feed one arrival history to a fresh assembler and to the model; compare every return value.
fn run_history(ctx: &Ctx, history: &[Frag], all_frags: &[Frag], origin: &str) {
    // an assembler however a caller may come by one (all three have the documented 30 s timeout), with or without
    // a sweep before every arrival: the whole history takes microseconds, so nothing is ever due
    static MADE: std::sync::atomic::AtomicUsize = std::sync::atomic::AtomicUsize::new(0);
    let made = MADE.fetch_add(1, std::sync::atomic::Ordering::Relaxed);
    let (mut asm, how) = match made % 3 {
        0 => (FragmentAssembler::new(), "new()"),
        1 => (FragmentAssembler::default(), "default()"),
        _ => (FragmentAssembler::with_timeout(Duration::from_secs(30)), "with_timeout(30 s)"),
    };
    let sweeps = (made / 3) % 2 == 1;
    let mut model = Model::default();
    let mut completed: HashSet<u64> = HashSet::new();
    for (step, f) in history.iter().enumerate() {
        ctx.eval(1);
        if sweeps {
            let removed = asm.cleanup_expired();
            if removed != 0 {
                ctx.viol(
                    "C09:live-sequence-expired:sweep-right-after-an-arrival",
                    "cleanup_expired dropped a sequence microseconds after its latest fragment (documented timeout: 30 s)",
                    json!({"origin": origin, "step": step, "removed": removed, "assembler_made_by": how}),
                );
                return;
            }
        }
        let got = match guarded(|| {
            if f.header {
                asm.start_fragment(f.seq, f.id, None, f.data.clone())
            } else {
                asm.add_fragment(f.seq, f.id, f.data.clone())
            }
        }) {
            Ok(g) => g,
            Err(p) => {
                ctx.viol("C09:panic", "the assembler panicked", json!({"origin": origin, "step": step, "panic": p}));
                return;
            }
        };
        let want = model.deliver(f);
        let hist = || -> Vec<String> {
            history
                .iter()
                .take(step + 1)
                .map(|h| format!("{}{}#{}:{}", if h.header { "H" } else { "c" }, h.seq % 1000, h.id, hex_cap(&h.data, 6)))
                .collect()
        };
        match (&got, &want) {
            (None, None) => {}
            (Some(g), Some(w)) => {
                if g != w {
                    let asc = ascending_concat(all_frags, f.seq);
                    let sig = if *g == asc { "C09:order=ascending-id".to_string() } else if g.len() == w.len() { "C09:wrong-bytes:same-length".to_string() } else { "C09:wrong-bytes:other-length".to_string() };
                    ctx.viol(
                        &sig,
                        "the reassembled bytes are not the original message",
                        json!({"origin": origin, "history": hist(), "returned": hex_cap(g, 48), "original": hex_cap(w, 48)}),
                    );
                }
                if !completed.insert(f.seq) {
                    ctx.count("sequence_completed_again_after_late_fragments", 1);
                }
            }
            (Some(g), None) => {
                ctx.viol(
                    "C09:early-or-duplicate-completion",
                    "a message was returned although the sequence is not (newly) complete",
                    json!({"origin": origin, "history": hist(), "returned": hex_cap(g, 48)}),
                );
            }
            (None, Some(w)) => {
                ctx.viol(
                    "C09:missing-completion",
                    "the last missing fragment arrived but nothing was returned",
                    json!({"origin": origin, "history": hist(), "original": hex_cap(w, 48)}),
                );
            }
        }
        if asm.pending_count() != model.pending.len() {
            ctx.viol(
                "C09:pending-count",
                "pending_count() differs from the number of incomplete sequences",
                json!({"origin": origin, "history": hist(), "library": asm.pending_count(), "model": model.pending.len()}),
            );
            return;
        }
    }
}

fn permutations(n: usize, f: &mut dyn FnMut(&[usize])) {
    fn heap(k: usize, a: &mut Vec<usize>, f: &mut dyn FnMut(&[usize])) {
        if k == 1 {
            f(a);
            return;
        }
        heap(k - 1, a, f);
        for i in 0..k - 1 {
            if k % 2 == 0 {
                a.swap(i, k - 1);
            } else {
                a.swap(0, k - 1);
            }
            heap(k - 1, a, f);
        }
    }
    let mut a: Vec<usize> = (0..n).collect();
    if n == 0 {
        return;
    }
    heap(n, &mut a, f);
}

fn message(rng: &mut Rng, len: usize) -> Vec<u8> {
    // bytes that make a wrong order visible: every byte different from its neighbours
    let start = rng.below(200) as u8;
    (0..len).map(|i| start.wrapping_add((i as u8).wrapping_mul(7))).collect()
}

/// The assembler as the connection uses it: fragmented messages over a real connection, with duplicates that
/// arrive before *and after* their sequence completed, sequence ids that are used again, and interleaved
/// sequences. Every message is returned once, intact, in completion order; a late duplicate costs at most one
/// error and leaves nothing behind that could leak into a later message.
async fn connection_level(ctx: &Ctx, rng: &mut Rng) {
    use crate::mon::net::{self, FLAG_DIST_HDR_ATOM_CACHE, FLAG_FRAGMENTS, PEER_BASE_FLAGS};
    use crate::refmodel::dist::write_message;
    use crate::refmodel::encode::ref_encode_canonical;
    use crate::refmodel::val::Val;
    let epmd = net::start_epmd().await;
    for h in 0..ctx.pick(24usize, 600usize) {
        if !ctx.time_left() {
            break;
        }
        let nmsg = 2 + rng.below(4);
        let id_pool: Vec<u64> = vec![0x7A11_0000_0000 + h as u64, 5];
        let mut stream: Vec<u8> = Vec::new();
        let mut expected: Vec<(Val, Val)> = Vec::new();
        let mut late_duplicates = 0usize;
        let mut layout: Vec<String> = Vec::new();
        let mut uid = h as i128 * 100;
        let mut pending_late: Vec<Vec<u8>> = Vec::new();
        let mut prev_seq = u64::MAX;
        for m in 0..nmsg {
            uid += 1;
            let control = Val::Tuple(vec![Val::int(2), Val::atom(""), Val::Pid { node: "rust@127.0.0.1".into(), id: 3, serial: 0, creation: 1 }]);
            let fill = *rng.pick(&[10usize, 30, 200]);
            let payload = Val::Tuple(vec![Val::atom("frag"), Val::int(uid), Val::binary(&vec![0xA0 + (m as u8); fill])]);
            let msg = write_message(&[], &[&control, &payload]);
            let body = &msg[2..];
            let nfrag = 2 + rng.below(3);
            let mut cuts: Vec<usize> = (1..nfrag).map(|_| 1 + rng.below(body.len())).collect();
            cuts.sort();
            // ids are used again: mostly the same id for consecutive messages
            let seq = if rng.chance(1, 2) { id_pool[0] } else { id_pool[1] };
            let mut frames: Vec<Vec<u8>> = Vec::new();
            let mut prev = 0usize;
            for f in 0..nfrag {
                let end = if f < cuts.len() { cuts[f] } else { body.len() };
                let mut b = vec![131u8, if f == 0 { 69 } else { 70 }];
                b.extend_from_slice(&seq.to_be_bytes());
                b.extend_from_slice(&((nfrag - f) as u64).to_be_bytes());
                b.extend_from_slice(&body[prev..end]);
                frames.push(b);
                prev = end;
            }
            // late duplicates of the previous message's continuations arrive now (its sequence is complete): before this
            // message starts or - if this message travels under another sequence id - after its first fragment, while
            // it is incomplete; a frame refused for one sequence must leave the other alone
            let inside = seq != prev_seq && !pending_late.is_empty() && rng.chance(2, 3);
            if !inside {
                for d in pending_late.drain(..) {
                    stream.extend(super::c06::frame(&d));
                    late_duplicates += 1;
                    layout.push("late-duplicate".into());
                }
            }
            prev_seq = seq;
            for (f, fr) in frames.iter().enumerate() {
                if f == 1 && inside {
                    for d in pending_late.drain(..) {
                        stream.extend(super::c06::frame(&d));
                        late_duplicates += 1;
                        layout.push("late-duplicate-of-the-previous-sequence-inside-this-one".into());
                    }
                    // and a continuation nobody announced, for a third sequence
                    let mut stray = vec![131u8, 70];
                    stray.extend_from_slice(&0x5717_0000u64.to_be_bytes());
                    stray.extend_from_slice(&1u64.to_be_bytes());
                    stray.extend_from_slice(&[1, 2, 3]);
                    stream.extend(super::c06::frame(&stray));
                    late_duplicates += 1;
                    layout.push("stray-continuation-of-a-third-sequence".into());
                    ctx.count("frames_refused_while_another_sequence_was_open", 1);
                }
                stream.extend(super::c06::frame(fr));
                layout.push(format!("{}{:x}#{}", if f == 0 { "H" } else { "c" }, seq & 0xffff, nfrag - f));
                // duplicate while the sequence is still incomplete
                if f + 1 < frames.len() && rng.chance(1, 5) {
                    stream.extend(super::c06::frame(fr));
                    layout.push("dup".into());
                }
                if rng.chance(1, 6) {
                    stream.extend_from_slice(&[0, 0, 0, 0]);
                }
            }
            if rng.chance(1, 2) {
                let k = 1 + rng.below(frames.len() - 1);
                pending_late.push(frames[k].clone());
            }
            expected.push((control, payload));
        }
        for d in pending_late.drain(..) {
            stream.extend(super::c06::frame(&d));
            late_duplicates += 1;
            layout.push("late-duplicate".into());
        }
        let mut end = vec![112u8];
        end.extend(ref_encode_canonical(&Val::Tuple(vec![Val::int(2), Val::atom(""), Val::Pid { node: "rust@127.0.0.1".into(), id: 3, serial: 0, creation: 1 }])).unwrap());
        end.extend(ref_encode_canonical(&Val::atom("$end$")).unwrap());
        stream.extend(super::c06::frame(&end));
        let own = edp_client::DistributionFlags::default().as_u64() | FLAG_DIST_HDR_ATOM_CACHE | FLAG_FRAGMENTS;
        let frames_total = layout.len();
        let out = super::c06::scenario(&epmd, &format!("g{}", h), own, PEER_BASE_FLAGS | FLAG_DIST_HDR_ATOM_CACHE | FLAG_FRAGMENTS, stream, vec![], frames_total + 8).await;
        ctx.eval(expected.len() as u64);
        ctx.class(&format!("connection/{}msgs/{}late-duplicates", nmsg, late_duplicates.min(3)));
        let wit = |d: serde_json::Value| json!({"history": h, "frames": layout, "detail": d});
        if let Some(e) = &out.connect_error {
            ctx.inconclusive(&format!("handshake with the scripted peer failed: {}", e));
            continue;
        }
        if let Some(p) = &out.panicked {
            ctx.viol("C09:connection:panic-or-stall", "the receiving task panicked or never finished", wit(json!({"panic": p})));
            continue;
        }
        let oks: Vec<&(Val, Option<Val>)> = out.results.iter().filter_map(|r| r.as_ref().ok()).collect();
        let errs: Vec<&String> = out.results.iter().filter_map(|r| r.as_ref().err()).collect();
        let mut good = oks.len() == expected.len() + 1;
        if good {
            for (g, (c, p)) in oks.iter().zip(expected.iter()) {
                if !g.0.same(c) || !matches!(&g.1, Some(x) if x.same(p)) {
                    good = false;
                }
            }
        }
        if !good {
            let cause = if late_duplicates > 0 { "with-late-duplicates" } else { "no-late-duplicates" };
            ctx.viol(
                &format!("C09:connection:messages-differ:{}", cause),
                "fragmented messages were not each returned once and intact by the connection",
                wit(json!({"expected_messages": expected.len(), "returned_ok": oks.len(), "returned": oks.iter().map(|g| g.1.as_ref().map(|x| x.show().chars().take(60).collect::<String>())).collect::<Vec<_>>(), "errors": errs.iter().take(4).collect::<Vec<_>>()})),
            );
        } else if errs.len() > late_duplicates {
            ctx.viol("C09:connection:more-errors-than-late-duplicates", "more errors than frames that could not belong to any open sequence", wit(json!({"errors": errs, "late_duplicates": late_duplicates})));
        }
    }
}

pub fn run(ctx: &Ctx) {
    ctx.rule("cases = arrival histories of fragments derived from an original message the protocol's way (first fragment numbered n and carrying the start, counting down to 1): all n! arrival orders for n <= 6 (quick) / 7 (thorough) x cut patterns incl. empty fragments; random orders for n <= 64; every single duplicate (header or continuation) at every later position of every order for n <= 4/5; random duplicates, id 0 and out-of-range ids injected; 2..4 sequences with arbitrary 64-bit ids interleaved; 8..300 sequences in flight at once (round-robin, shuffled, all headers last); slowly arriving sequences (gaps below the timeout, total above it, with a sweep before each arrival) must survive; expiry; the same through a real connection (fragmented messages with duplicates before and after completion, re-used sequence ids, ticks); evaluations = fragment arrivals whose return value was compared with the sequential model; distinct = distinct (n, arrival order hash, cut pattern, injected-noise kind)");
    ctx.assume("a duplicate fragment carries the same bytes as the original (conforming peer); fragments arriving after their sequence completed start a new pending sequence in the model as they do in the assembler");
    let mut rng = Rng::derive(ctx.seed, 9, 1);
    let max_exh = ctx.pick(6usize, 7usize);
    // (1) exhaustive arrival orders
    for n in 1..=max_exh {
        let len = 3 * n + 2;
        let msg = message(&mut rng, len);
        let mut cut_patterns: Vec<Vec<usize>> = Vec::new();
        cut_patterns.push((1..n).map(|k| k * len / n).collect()); // even
        cut_patterns.push((1..n).map(|k| k.min(len)).collect()); // 1-byte fragments, long last
        cut_patterns.push((1..n).map(|_| 0).collect()); // empty leading fragments
        cut_patterns.push((1..n).map(|_| len).collect()); // empty trailing fragments
        cut_patterns.dedup();
        for (ci, cuts) in cut_patterns.iter().enumerate() {
            let frags = split(0xDEAD_0000 + n as u64, &msg, cuts);
            let mut count = 0u64;
            permutations(n, &mut |perm| {
                let history: Vec<Frag> = perm.iter().map(|i| frags[*i].clone()).collect();
                run_history(ctx, &history, &frags, &format!("all-orders n={} cuts#{}", n, ci));
                count += 1;
            });
            ctx.class(&format!("exhaustive/n{}/cuts{}", n, ci));
            ctx.count("exhaustive_orders", count);
        }
    }
    // (1b) every fragment (header included) duplicated at every later position of every arrival order, n <= 4 (5 thorough)
    for n in 2..=ctx.pick(4usize, 5usize) {
        let len = 3 * n + 2;
        let msg = message(&mut rng, len);
        let cuts: Vec<usize> = (1..n).map(|k| k * len / n).collect();
        let frags = split(0xD0_0000 + n as u64, &msg, &cuts);
        let mut count = 0u64;
        permutations(n, &mut |perm| {
            for dup in 0..n {
                for at in dup + 1..=n {
                    let mut history: Vec<Frag> = perm.iter().map(|i| frags[*i].clone()).collect();
                    let f = history[dup].clone();
                    history.insert(at, f);
                    run_history(ctx, &history, &frags, &format!("all-orders n={} arrival {} again at {}", n, dup, at));
                    count += 1;
                }
            }
        });
        ctx.class(&format!("exhaustive-duplicates/n{}", n));
        ctx.count("exhaustive_duplicate_histories", count);
    }
    ctx.extra("exhaustive_up_to_n", json!(max_exh));
    // (1c) many sequences in flight at once (a busy peer with many senders): dozens to hundreds of incomplete,
    // unexpired sequences, their fragments interleaved round-robin, shuffled, or with every header held back to the end
    for nseq in [8usize, 31, 32, 33, 40, 64, 100, 300] {
        for shape in 0..3 {
            if ctx.quick() && nseq == 300 && shape > 0 {
                continue;
            }
            let mut per: Vec<Vec<Frag>> = Vec::new();
            for k in 0..nseq {
                let n = 2 + rng.below(3);
                let len = 3 * n + rng.below(8);
                let msg = message(&mut rng, len);
                let mut cuts: Vec<usize> = (1..n).map(|_| rng.below(len + 1)).collect();
                cuts.sort();
                per.push(split(0xAB00_0000 + (k as u64) * 7, &msg, &cuts));
            }
            let all: Vec<Frag> = per.iter().flatten().cloned().collect();
            let history: Vec<Frag> = match shape {
                0 => {
                    // round-robin: the first fragment of every sequence, then the second of every sequence, ...
                    let mut h = Vec::new();
                    for round in 0..5 {
                        for p in &per {
                            if let Some(f) = p.get(round) {
                                h.push(f.clone());
                            }
                        }
                    }
                    h
                }
                1 => {
                    let mut h = all.clone();
                    rng.shuffle(&mut h);
                    h
                }
                _ => {
                    // continuations first (round-robin), all the headers at the very end
                    let mut h = Vec::new();
                    for round in 1..5 {
                        for p in &per {
                            if let Some(f) = p.get(round) {
                                h.push(f.clone());
                            }
                        }
                    }
                    for p in &per {
                        h.push(p[0].clone());
                    }
                    h
                }
            };
            ctx.class(&format!("many-sequences/{}/{}", nseq, ["round-robin", "shuffled", "headers-last"][shape]));
            run_history(ctx, &history, &all, &format!("{} sequences in flight, {}", nseq, ["round-robin", "shuffled", "headers last"][shape]));
        }
    }
    // (2) random orders, bigger counts, noise
    let rounds = ctx.pick(4_000usize, 400_000usize);
    for r in 0..rounds {
        if !ctx.time_left() {
            break;
        }
        let nseq = 1 + rng.below(4);
        let mut all: Vec<Frag> = Vec::new();
        let mut used_ids: Vec<u64> = Vec::new();
        for _ in 0..nseq {
            let n = match rng.below(6) {
                0 => 1,
                1 => 2,
                2 => 64,
                _ => 1 + rng.below(16),
            };
            let len = rng.below(4 * n + 8);
            let msg = message(&mut rng, len);
            let mut cuts: Vec<usize> = (1..n).map(|_| rng.below(len + 1)).collect();
            cuts.sort();
            let seq = loop {
                let s = match rng.below(5) {
                    0 => 0,
                    1 => u64::MAX,
                    2 => rng.below(4) as u64,
                    _ => rng.next_u64(),
                };
                if !used_ids.contains(&s) {
                    used_ids.push(s);
                    break s;
                }
            };
            all.extend(split(seq, &msg, &cuts));
        }
        let mut history = all.clone();
        // header first / last / anywhere
        rng.shuffle(&mut history);
        let noise = rng.below(5);
        match noise {
            1 => {
                // duplicates: 1..3 fragments (headers included) arrive again, right away or anywhere later
                for _ in 0..1 + rng.below(3) {
                    let i = rng.below(history.len());
                    let f = history[i].clone();
                    let at = if rng.bool() { i + 1 } else { i + 1 + rng.below(history.len() - i) };
                    history.insert(at, f);
                }
            }
            2 => {
                let i = rng.below(history.len());
                let mut f = history[i].clone();
                f.header = false;
                f.id = 0;
                history.insert(i, f);
            }
            3 => {
                // id above the count
                let i = rng.below(history.len());
                let mut f = history[i].clone();
                f.header = false;
                f.id = 1_000 + rng.below(1000) as u64;
                history.insert(rng.below(history.len() + 1), f);
            }
            _ => {}
        }
        let h = crate::rng::fnv(format!("{:?}", history.iter().map(|f| (f.seq, f.id, f.header)).collect::<Vec<_>>()).as_bytes());
        ctx.class_hash(h);
        run_history(ctx, &history, &all, &format!("random round {} noise {}", r, noise));
        if r % 997 == 0 {
            ctx.sample(json!({"sequences": nseq, "arrivals": history.iter().map(|f| format!("{}{:x}#{}", if f.header { "H" } else { "c" }, f.seq, f.id)).collect::<Vec<_>>(), "noise": noise}));
        }
    }
    // (2b) a sequence whose fragments keep arriving is not expired: every arrival (header first, header last,
    // header in the middle) restarts the clock; judged only when the measured gaps were really below the timeout
    {
        use std::time::Instant;
        let timeout = Duration::from_millis(400);
        let gap = Duration::from_millis(150);
        for (shape, order) in [("header-first", vec![0usize, 1, 2, 3]), ("header-last", vec![1, 2, 3, 0]), ("header-in-the-middle", vec![1, 2, 0, 3]), ("header-second", vec![3, 0, 2, 1])] {
            if ctx.quick() && shape == "header-second" {
                continue;
            }
            let msg = message(&mut rng, 16);
            let frags = split(0xE0_0000, &msg, &[4, 8, 12]);
            let mut asm = FragmentAssembler::with_timeout(timeout);
            let mut model = Model::default();
            let mut last = Instant::now();
            let mut longest = Duration::ZERO;
            let mut verdict: Option<String> = None;
            let mut result: Option<Vec<u8>> = None;
            let mut expected: Option<Vec<u8>> = None;
            let t0 = Instant::now();
            for (k, i) in order.iter().enumerate() {
                if k > 0 {
                    std::thread::sleep(gap);
                    // sweep right before the next arrival: nothing is due
                    let since = last.elapsed();
                    longest = longest.max(since);
                    let removed = asm.cleanup_expired();
                    if removed != 0 && since + Duration::from_millis(100) < timeout {
                        verdict = Some(format!("cleanup_expired removed {} sequence(s) {} ms after its latest fragment (timeout {} ms, {} ms after the first)", removed, since.as_millis(), timeout.as_millis(), t0.elapsed().as_millis()));
                        break;
                    }
                }
                let f = &frags[*i];
                let got = if f.header { asm.start_fragment(f.seq, f.id, None, f.data.clone()) } else { asm.add_fragment(f.seq, f.id, f.data.clone()) };
                last = Instant::now();
                let want = model.deliver(f);
                if got.is_some() {
                    result = got;
                }
                if want.is_some() {
                    expected = want;
                }
            }
            ctx.eval(1);
            ctx.class(&format!("slow-arrival/{}", shape));
            if longest + Duration::from_millis(100) >= timeout {
                ctx.count("slow_arrival_runs_not_judged_machine_too_slow", 1);
                continue;
            }
            if verdict.is_none() && result.is_none() && expected.is_some() {
                verdict = Some("the sequence never completed although every fragment arrived within the timeout of the previous one".into());
            }
            if let Some(v) = verdict {
                ctx.viol(
                    "C09:live-sequence-expired",
                    "a sequence that was still receiving fragments (each within the timeout of the previous one) was dropped as expired",
                    json!({"shape": shape, "arrival_order_of_fragments": order, "detail": v, "longest_gap_ms": longest.as_millis() as u64, "timeout_ms": timeout.as_millis() as u64}),
                );
            }
        }
    }
    // (3) expiry: incomplete sequences disappear after the timeout + cleanup
    for k in 0..ctx.pick(3, 12) {
        ctx.eval(1);
        let mut asm = FragmentAssembler::with_timeout(Duration::from_millis(20));
        let nseq = 1 + k % 4;
        for s in 0..nseq {
            let _ = asm.start_fragment(100 + s as u64, 3, None, vec![1, 2, 3]);
            let _ = asm.add_fragment(100 + s as u64, 1, vec![9]);
        }
        let _ = asm.add_fragment(999u64, 2, vec![7]); // continuation without header
        let before = asm.pending_count();
        let removed_early = asm.cleanup_expired();
        std::thread::sleep(Duration::from_millis(60));
        let removed = asm.cleanup_expired();
        let after = asm.pending_count();
        ctx.class(&format!("expiry/{}", nseq));
        if before != nseq + 1 || removed_early != 0 || removed != nseq + 1 || after != 0 {
            ctx.viol(
                "C09:expiry",
                "expired incomplete sequences are not dropped exactly once by cleanup_expired",
                json!({"pending_before": before, "removed_before_timeout": removed_early, "removed_after_timeout": removed, "pending_after": after, "sequences": nseq + 1}),
            );
        }
        // a sequence that expired must not complete from stale data
        let r = asm.add_fragment(100u64, 2, vec![5]);
        if r.is_some() {
            ctx.viol("C09:stale-data-after-expiry", "a sequence completed from fragments that had expired", json!({}));
        }
    }
    // (4) through a real connection
    {
        let rt = tokio::runtime::Builder::new_current_thread().enable_all().build().expect("runtime");
        let mut crng = Rng::derive(ctx.seed, 9, 4);
        rt.block_on(connection_level(ctx, &mut crng));
    }
}
