//! C15 – serde round trip returns the original Rust value, also across the wire.

use super::common::guarded;
use crate::out::Ctx;
use crate::rng::Rng;
use erltf_serde::ElixirStruct;
use serde::de::DeserializeOwned;
use serde::{Deserialize, Serialize};
use serde_json::json;
use std::collections::{BTreeMap, HashMap};
use std::fmt::Debug;

#[derive(Debug, Clone, PartialEq, Serialize, Deserialize)]
struct Plain {
    a: i32,
    b: String,
    c: Option<u64>,
    d: Vec<f64>,
    e: (i8, char),
    f: bool,
}

#[derive(Debug, Clone, PartialEq, Serialize, Deserialize)]
struct Wide {
    small: i64,
    big: i64,
    unsigned: u32,
    huge: u64,
}

#[derive(Debug, Clone, PartialEq, ElixirStruct)]
#[elixir_module = "Verif.User"]
struct ElixirUser {
    name: String,
    age: u32,
    score: i64,
    tags: Vec<String>,
    nick: Option<String>,
}

/// Elixir-style derived struct whose fields are words Rust reserves (the only way to have a field `:type`), holding
/// other derived structs.
#[derive(Debug, Clone, PartialEq, ElixirStruct)]
#[elixir_module = "Verif.Event"]
struct ElixirEvent {
    r#type: String,
    r#ref: u64,
    r#match: Option<bool>,
    user: ElixirUser,
    others: Vec<ElixirUser>,
}

#[derive(Debug, Clone, PartialEq, Serialize, Deserialize)]
enum Shape {
    Empty,
    Id(i64),
    Pair(i32, String),
    Rect { w: u8, h: Vec<i32> },
    Text(String),
}

/// Variants (and a struct's fields) named like the atoms the format gives a meaning of its own.
#[derive(Debug, Clone, PartialEq, Serialize, Deserialize)]
enum Reserved {
    #[serde(rename = "nil")]
    Nil,
    #[serde(rename = "undefined")]
    Undefined,
    #[serde(rename = "true")]
    True(i32),
    #[serde(rename = "false")]
    False { a: u8 },
    #[serde(rename = "ok")]
    Ok,
    #[serde(rename = "error")]
    Error(String),
    #[serde(rename = "infinity")]
    Infinity(i32, i32),
    #[serde(rename = "")]
    Empty,
    #[serde(rename = "Elixir.Foo")]
    Dotted,
    #[serde(rename = "sch\u{f6}n")]
    NonAscii(u8),
}

#[derive(Debug, Clone, PartialEq, Serialize, Deserialize)]
struct ReservedFields {
    nil: i32,
    undefined: Option<i32>,
    #[serde(rename = "true")]
    yes: bool,
    r#type: String,
    r#ref: Vec<u8>,
    #[serde(rename = "sch\u{f6}n")]
    pretty: u8,
}

fn gen_reserved(rng: &mut Rng) -> Reserved {
    match rng.below(10) {
        0 => Reserved::Nil,
        1 => Reserved::Undefined,
        2 => Reserved::True(gen_i64(rng) as i32),
        3 => Reserved::False { a: rng.next_u32() as u8 },
        4 => Reserved::Ok,
        5 => Reserved::Error(gen_string(rng)),
        6 => Reserved::Infinity(1, 2),
        7 => Reserved::Empty,
        8 => Reserved::Dotted,
        _ => Reserved::NonAscii(7),
    }
}

/// Variant payloads that are themselves compound: a newtype variant around a tuple, a tuple struct, an array,
/// a sequence, a map, an option, a unit, and around another enum in each of its shapes.
#[derive(Debug, Clone, PartialEq, Serialize, Deserialize)]
struct Rgb(u8, u8, u8);

#[derive(Debug, Clone, PartialEq, Serialize, Deserialize)]
struct Meters(i64);

#[derive(Debug, Clone, PartialEq, Serialize, Deserialize)]
enum Wrap {
    Point((i32, i32)),
    Colour(Rgb),
    Len(Meters),
    Arr([u8; 3]),
    Seq(Vec<i32>),
    Dict(BTreeMap<String, i32>),
    Opt(Option<i32>),
    Inner(Shape),
    Boxed(Box<Wrap>),
    Both((i32, i32), String),
    Fields { at: (u8, u8), shape: Shape },
}

fn gen_wrap(rng: &mut Rng, depth: usize) -> Wrap {
    match rng.below(if depth > 2 { 10 } else { 11 }) {
        0 => Wrap::Point((gen_i64(rng) as i32, gen_i64(rng) as i32)),
        1 => Wrap::Colour(Rgb(rng.next_u32() as u8, 128, 0)),
        2 => Wrap::Len(Meters(gen_i64(rng))),
        3 => Wrap::Arr([1, rng.next_u32() as u8, 3]),
        4 => Wrap::Seq((0..rng.below(3)).map(|_| gen_i64(rng) as i32).collect()),
        5 => Wrap::Dict((0..rng.below(3)).map(|i| (format!("k{}", i), i as i32)).collect()),
        6 => Wrap::Opt(if rng.bool() { Some(7) } else { None }),
        7 => Wrap::Inner(gen_shape(rng)),
        8 => Wrap::Both((1, 2), gen_string(rng)),
        9 => Wrap::Fields { at: (3, 4), shape: gen_shape(rng) },
        _ => Wrap::Boxed(Box::new(gen_wrap(rng, depth + 1))),
    }
}

fn wrap_class(w: &Wrap) -> &'static str {
    match w {
        Wrap::Point(_) => "enum/newtype-of-tuple",
        Wrap::Colour(_) => "enum/newtype-of-tuple-struct",
        Wrap::Len(_) => "enum/newtype-of-newtype-struct",
        Wrap::Arr(_) => "enum/newtype-of-array",
        Wrap::Seq(_) => "enum/newtype-of-seq",
        Wrap::Dict(_) => "enum/newtype-of-map",
        Wrap::Opt(_) => "enum/newtype-of-option",
        Wrap::Inner(_) => "enum/newtype-of-enum",
        Wrap::Boxed(_) => "enum/newtype-of-boxed-enum",
        Wrap::Both(..) => "enum/tuple-variant-with-tuple-field",
        Wrap::Fields { .. } => "enum/struct-variant-with-compound-fields",
    }
}

#[derive(Debug, Clone, PartialEq, Serialize, Deserialize)]
struct Nested {
    shapes: Vec<Shape>,
    by_name: BTreeMap<String, Plain>,
    maybe: Option<Shape>,
    unit: (),
    triple: (u8, i16, u64),
}

fn show<T: Debug>(v: &T) -> String {
    let s = format!("{:?}", v);
    if s.len() > 240 { format!("{}…", s.chars().take(240).collect::<String>()) } else { s }
}

/// Cause class of a deserialisation error: "expected X, found <Variant>" without the values.
fn error_cause(e: &str) -> String {
    let e = e.replace('"', "");
    let head: String = match e.find("found ") {
        Some(i) => {
            let (a, b) = e.split_at(i + 6);
            let variant: String = b.chars().take_while(|c| c.is_alphanumeric() || *c == '_').collect();
            format!("{}{}", a, variant)
        }
        None => e.chars().take(60).collect(),
    };
    // numbers in an error text are values, not causes: collapse every run of digits / sign / point / exponent
    let mut out = String::new();
    let mut in_number = false;
    for c in head.chars() {
        if c.is_ascii_digit() || (in_number && matches!(c, '.' | 'e' | 'E' | '+' | '-')) {
            if !in_number {
                out.push('N');
                in_number = true;
            }
        } else {
            in_number = false;
            out.push(if c.is_whitespace() { '-' } else { c });
        }
    }
    out.chars().take(80).collect()
}

/// Round trip one value on both paths; classify {equal, altered, error}.
fn rt<T: Serialize + DeserializeOwned + PartialEq + Debug>(ctx: &Ctx, label: &str, v: &T) {
    ctx.class(label);
    // (a) in memory
    ctx.eval(1);
    match guarded(|| erltf_serde::to_term(v).and_then(|t| erltf_serde::from_term::<T>(&t))) {
        Ok(Ok(back)) => {
            if &back != v {
                ctx.viol(&format!("C15:term:altered:{}", label), "to_term/from_term returned another value", json!({"value": show(v), "back": show(&back)}));
            }
        }
        Ok(Err(e)) => ctx.viol(&format!("C15:term:error:{}", error_cause(&e.to_string())), "a carryable value failed to round-trip through a term", json!({"type": label, "value": show(v), "error": e.to_string().chars().take(200).collect::<String>()})),
        Err(p) => ctx.viol(&format!("C15:term:panic:{}", label), "panic", json!({"value": show(v), "panic": p})),
    }
    // (b) across the wire
    ctx.eval(1);
    match guarded(|| erltf_serde::to_bytes(v).and_then(|b| erltf_serde::from_bytes::<T>(&b))) {
        Ok(Ok(back)) => {
            if &back != v {
                ctx.viol(&format!("C15:bytes:altered:{}", label), "to_bytes/from_bytes returned another value", json!({"value": show(v), "back": show(&back)}));
            }
        }
        Ok(Err(e)) => ctx.viol(&format!("C15:bytes:error:{}", error_cause(&e.to_string())), "a carryable value failed to round-trip through bytes", json!({"type": label, "value": show(v), "error": e.to_string().chars().take(200).collect::<String>()})),
        Err(p) => ctx.viol(&format!("C15:bytes:panic:{}", label), "panic", json!({"value": show(v), "panic": p})),
    }
}

fn widest<'a>(it: impl Iterator<Item = i128>) -> &'static str {
    let mut worst = "empty";
    for v in it {
        let c = width_class_i(v);
        worst = match (worst, c) {
            (_, "beyond-i64") | ("beyond-i64", _) => "beyond-i64",
            (_, "beyond-i32") | ("beyond-i32", _) => "beyond-i32",
            _ => "fits-i32",
        };
    }
    worst
}

fn width_class_i(v: i128) -> &'static str {
    if v >= i32::MIN as i128 && v <= i32::MAX as i128 {
        "fits-i32"
    } else if v >= i64::MIN as i128 && v <= i64::MAX as i128 {
        "beyond-i32"
    } else {
        "beyond-i64"
    }
}

fn gen_string(rng: &mut Rng) -> String {
    match rng.below(7) {
        0 => String::new(),
        1 => "undefined".into(),
        2 => "héllo wörld ✓ 𝔘".into(),
        3 => "nil".into(),
        4 => "a".repeat(300),
        _ => (0..rng.below(12)).map(|_| *rng.pick(&['a', 'Z', '0', ' ', 'é', '日', '𝔘', '\n'])).collect(),
    }
}

fn gen_char(rng: &mut Rng) -> char {
    *rng.pick(&['a', '\0', ' ', 'é', 'ÿ', '日', '𝔘', '\u{10FFFF}', '\u{7f}', '\u{80}', 'Z'])
}

fn gen_f64(rng: &mut Rng) -> f64 {
    match rng.below(6) {
        0 => 0.0,
        1 => -0.0,
        2 => f64::MAX,
        3 => f64::MIN_POSITIVE / 4.0,
        4 => (rng.range(-1_000_000, 1_000_000) as f64) / 64.0,
        _ => loop {
            let f = f64::from_bits(rng.next_u64());
            if f.is_finite() {
                break f;
            }
        },
    }
}

fn gen_f32(rng: &mut Rng) -> f32 {
    match rng.below(5) {
        0 => *rng.pick(&[0.0f32, -0.0, 1.0, -1.5, f32::MAX, f32::MIN, f32::MIN_POSITIVE, -f32::MIN_POSITIVE, f32::EPSILON, 1.0e-40, -1.0e-40, 16777216.0, 16777217.0]),
        // subnormals: the smallest, the largest, random ones
        1 => f32::from_bits(*rng.pick(&[1u32, 2, 0x0040_0000, 0x007f_ffff, 0x8000_0001, 0x807f_ffff])),
        2 => f32::from_bits(rng.next_u32() & 0x807f_ffff),
        3 => (rng.range(-1_000_000, 1_000_000) as f32) / 64.0,
        _ => loop {
            let f = f32::from_bits(rng.next_u32());
            if f.is_finite() {
                break f;
            }
        },
    }
}

fn f32_class(f: f32) -> &'static str {
    if f == 0.0 {
        "f32/zero"
    } else if !f.is_finite() {
        "f32/infinite"
    } else if !f.is_normal() {
        "f32/subnormal"
    } else {
        "f32/normal"
    }
}

fn gen_i64(rng: &mut Rng) -> i64 {
    match rng.below(8) {
        0 => *rng.pick(&[0i64, 1, -1, 255, 256, i32::MAX as i64, i32::MAX as i64 + 1, i32::MIN as i64, i32::MIN as i64 - 1, 1 << 40, -(1 << 40), i64::MAX, i64::MIN, (1 << 53) + 1]),
        1 => rng.next_u64() as i64,
        2 => (rng.next_u64() as i64) >> rng.below(60),
        _ => rng.range(-1000, 1000),
    }
}

fn gen_u64(rng: &mut Rng) -> u64 {
    match rng.below(5) {
        0 => *rng.pick(&[0u64, 1, i32::MAX as u64, i32::MAX as u64 + 1, u32::MAX as u64, u32::MAX as u64 + 1, i64::MAX as u64, i64::MAX as u64 + 1, u64::MAX]),
        1 => rng.next_u64(),
        _ => rng.next_u64() >> rng.below(64),
    }
}

fn gen_plain(rng: &mut Rng) -> Plain {
    Plain {
        a: gen_i64(rng) as i32,
        b: gen_string(rng),
        c: if rng.bool() { Some(gen_u64(rng)) } else { None },
        d: (0..rng.below(4)).map(|_| gen_f64(rng)).collect(),
        e: (rng.next_u32() as i8, gen_char(rng)),
        f: rng.bool(),
    }
}

fn gen_shape(rng: &mut Rng) -> Shape {
    match rng.below(5) {
        0 => Shape::Empty,
        1 => Shape::Id(gen_i64(rng)),
        2 => Shape::Pair(gen_i64(rng) as i32, gen_string(rng)),
        3 => Shape::Rect { w: rng.next_u32() as u8, h: (0..rng.below(4)).map(|_| gen_i64(rng) as i32).collect() },
        _ => Shape::Text(gen_string(rng)),
    }
}

/// Sequences long enough to cross the 16-bit boundaries of the format's compact list forms.
fn long_sequences(ctx: &Ctx, rng: &mut Rng) {
    for len in [65_534usize, 65_535, 65_536, 65_537, 100_000, 131_072] {
        let small: Vec<u8> = (0..len).map(|i| (i % 251) as u8).collect();
        rt(ctx, "Vec<u8>/around-2^16-elements", &small);
        let small16: Vec<u16> = (0..len).map(|i| (i % 200) as u16).collect();
        rt(ctx, "Vec<u16>/around-2^16-small-elements", &small16);
        let mut mixed: Vec<i64> = (0..len).map(|i| (i % 256) as i64).collect();
        let at = rng.below(len);
        mixed[at] = *rng.pick(&[-1i64, 256, 1 << 40]);
        rt(ctx, "Vec<i64>/around-2^16-elements-one-of-them-wide", &mixed);
        if len <= 65_537 {
            rt(ctx, "struct/field-of-around-2^16-bytes", &(len as u32, small.clone(), "tail".to_string()));
            rt(ctx, "Vec<bool>/around-2^16-elements", &vec![true; len]);
            rt(ctx, "String/around-2^16-bytes", &"x".repeat(len));
            rt(ctx, "Vec<()>/around-2^16-elements", &vec![(); len]);
        }
    }
}

pub fn run(ctx: &Ctx) {
    ctx.rule("cases = values of a family of Rust types (all integer widths over their full ranges with boundary values, f32/f64, bool, char incl. non-BMP, String, Option<T>, (), tuples, Vec<T>, HashMap/BTreeMap with string and integer keys, plain structs, an ElixirStruct-derived struct, an enum with unit/newtype/tuple/struct variants, nestings, sequences and strings of around 2^16 elements), each through to_term/from_term and to_bytes/from_bytes; distinct = distinct (type, value class) labels exercised");
    ctx.assume("excluded as the property says: directly nested options, Option<()>, NaN, an Option directly around a variant spelled nil/undefined");
    let mut rng = Rng::derive(ctx.seed, 15, 1);
    long_sequences(ctx, &mut rng);
    // integers: boundaries of every width
    macro_rules! ints {
        ($t:ty, $name:expr) => {{
            let mut vals: Vec<$t> = vec![<$t>::MIN, <$t>::MAX, 0 as $t, 1 as $t];
            for k in [7u32, 8, 15, 16, 31, 32, 53, 63] {
                for d in [-1i128, 0, 1] {
                    let x = (1i128 << k) + d;
                    if x >= <$t>::MIN as i128 && x <= <$t>::MAX as i128 {
                        vals.push(x as $t);
                    }
                    let y = -(1i128 << k) + d;
                    if y >= <$t>::MIN as i128 && y <= <$t>::MAX as i128 {
                        vals.push(y as $t);
                    }
                }
            }
            for _ in 0..ctx.pick(50, 5000) {
                vals.push(rng.next_u64() as $t);
                vals.push((rng.next_u64() >> rng.below(63)) as $t);
            }
            for v in vals {
                rt(ctx, &format!("{}/{}", $name, width_class_i(v as i128)), &v);
            }
        }};
    }
    ints!(i8, "i8");
    ints!(i16, "i16");
    ints!(i32, "i32");
    ints!(i64, "i64");
    ints!(u8, "u8");
    ints!(u16, "u16");
    ints!(u32, "u32");
    ints!(u64, "u64");
    let n = ctx.pick(300usize, 30_000usize);
    for i in 0..n {
        if !ctx.time_left() {
            break;
        }
        rt(ctx, "f64", &gen_f64(&mut rng));
        rt(ctx, "f32", &(gen_f64(&mut rng) as f32));
        let f = gen_f32(&mut rng);
        rt(ctx, f32_class(f), &f);
        let vf: Vec<f32> = (0..rng.below(4)).map(|_| gen_f32(&mut rng)).collect();
        rt(ctx, "Vec<f32>", &vf);
        rt(ctx, "bool", &rng.bool());
        let c = gen_char(&mut rng);
        rt(ctx, if (c as u32) > 0xffff { "char/non-bmp" } else if c.is_ascii() { "char/ascii" } else { "char/bmp" }, &c);
        let s = gen_string(&mut rng);
        rt(ctx, if s.is_empty() { "String/empty" } else if s.is_ascii() { "String/ascii" } else { "String/unicode" }, &s);
        rt(ctx, "unit", &());
        let o: Option<i32> = if rng.bool() { Some(gen_i64(&mut rng) as i32) } else { None };
        rt(ctx, if o.is_some() { "Option<i32>/some" } else { "Option<i32>/none" }, &o);
        let os: Option<String> = if rng.bool() { Some(gen_string(&mut rng)) } else { None };
        rt(ctx, "Option<String>", &os);
        let oi: Option<i64> = Some(gen_i64(&mut rng));
        rt(ctx, &format!("Option<i64>/{}", width_class_i(oi.unwrap() as i128)), &oi);
        let w = gen_wrap(&mut rng, 0);
        rt(ctx, wrap_class(&w), &w);
        // types of the standard library that bring their own serde implementations (some of them choose between a
        // text and a compact form by asking the format whether it is human readable: both sides must answer alike)
        {
            use std::net::{IpAddr, Ipv4Addr, Ipv6Addr, SocketAddr, SocketAddrV4, SocketAddrV6};
            let v4 = Ipv4Addr::from(rng.next_u32());
            let v6 = Ipv6Addr::from(((rng.next_u64() as u128) << 64) | rng.next_u64() as u128);
            rt(ctx, "std/Ipv4Addr", &v4);
            rt(ctx, "std/Ipv6Addr", &v6);
            rt(ctx, "std/IpAddr", &if rng.bool() { IpAddr::V4(v4) } else { IpAddr::V6(v6) });
            rt(ctx, "std/SocketAddr", &if rng.bool() { SocketAddr::V4(SocketAddrV4::new(v4, rng.next_u32() as u16)) } else { SocketAddr::V6(SocketAddrV6::new(v6, rng.next_u32() as u16, 0, 0)) });
            rt(ctx, "std/Vec<IpAddr>", &vec![IpAddr::V4(v4), IpAddr::V6(v6)]);
            rt(ctx, "std/Option<SocketAddrV4>", &Some(SocketAddrV4::new(v4, 4369)));
            rt(ctx, "std/Duration", &std::time::Duration::new(gen_u64(&mut rng), rng.next_u32() % 1_000_000_000));
            rt(ctx, "std/NonZeroU32", &std::num::NonZeroU32::new(rng.next_u32() | 1).unwrap());
            rt(ctx, "std/NonZeroI64", &std::num::NonZeroI64::new(gen_i64(&mut rng) | 1).unwrap());
            rt(ctx, "std/Wrapping<i32>", &std::num::Wrapping(rng.next_u32() as i32));
            rt(ctx, "std/Range<i64>", &(gen_i64(&mut rng)..gen_i64(&mut rng)));
            rt(ctx, "std/RangeInclusive<u8>", &(rng.next_u32() as u8..=rng.next_u32() as u8));
            rt(ctx, "std/Bound<i32>", &*rng.pick(&[std::ops::Bound::Unbounded, std::ops::Bound::Included(7i32), std::ops::Bound::Excluded(-7)]));
            rt(ctx, "std/Reverse<u16>", &std::cmp::Reverse(rng.next_u32() as u16));
            rt(ctx, "std/[u8;4]", &[rng.next_u32() as u8, 0, 255, 1]);
            rt(ctx, "std/[i64;3]", &[gen_i64(&mut rng), gen_i64(&mut rng), 0]);
            rt(ctx, "std/[String;0]", &([] as [String; 0]));
            rt(ctx, "std/BTreeSet<i64>", &(0..rng.below(4)).map(|_| gen_i64(&mut rng)).collect::<std::collections::BTreeSet<i64>>());
            rt(ctx, "std/HashSet<String>", &(0..rng.below(4)).map(|_| gen_string(&mut rng)).collect::<std::collections::HashSet<String>>());
            rt(ctx, "std/VecDeque<u32>", &(0..rng.below(4)).map(|_| rng.next_u32()).collect::<std::collections::VecDeque<u32>>());
            rt(ctx, "std/LinkedList<i8>", &(0..rng.below(4)).map(|_| rng.next_u32() as i8).collect::<std::collections::LinkedList<i8>>());
            rt(ctx, "std/Box<i64>", &Box::new(gen_i64(&mut rng)));
            rt(ctx, "std/Cow<str>", &std::borrow::Cow::<str>::Owned(gen_string(&mut rng)));
            rt(ctx, "std/Result<i32,String>", &if rng.bool() { Ok::<i32, String>(rng.next_u32() as i32) } else { Err::<i32, String>(gen_string(&mut rng)) });
            rt(ctx, "std/PhantomData", &std::marker::PhantomData::<u8>);
            rt(ctx, "std/PathBuf", &std::path::PathBuf::from(format!("/tmp/{}", rng.below(1000))));
            rt(ctx, "std/tuple-12", &(1u8, 2i8, 3u16, 4i16, 5u32, 6i32, 7u64, 8i64, true, 'x', gen_string(&mut rng), 1.5f64));
        }
        let rv = gen_reserved(&mut rng);
        rt(ctx, &format!("enum/reserved-name/{}", match &rv { Reserved::Nil => "nil", Reserved::Undefined => "undefined", Reserved::True(_) => "true", Reserved::False { .. } => "false", Reserved::Empty => "empty", Reserved::Dotted => "dotted", Reserved::NonAscii(_) => "non-ascii", _ => "other" }), &rv);
        rt(ctx, "Vec<enum/reserved-name>", &vec![gen_reserved(&mut rng), gen_reserved(&mut rng)]);
        // an option around the variants spelled like "no value" is the directly-nested-option shape the
        // property excludes; every other reserved name is unambiguous inside an option
        let inner = gen_reserved(&mut rng);
        if !matches!(inner, Reserved::Nil | Reserved::Undefined) {
            rt(ctx, "Option<enum/reserved-name>", &Some(inner));
        }
        let rf = ReservedFields { nil: 1, undefined: if rng.bool() { Some(2) } else { None }, yes: rng.bool(), r#type: gen_string(&mut rng), r#ref: vec![1, 2], pretty: 3 };
        rt(ctx, "struct/reserved-field-names", &rf);
        let res: Result<(i32, i32), String> = if rng.bool() { Ok((1, gen_i64(&mut rng) as i32)) } else { Err(gen_string(&mut rng)) };
        rt(ctx, "Result<(i32,i32),String>", &res);
        let res2: Result<Shape, Wrap> = if rng.bool() { Ok(gen_shape(&mut rng)) } else { Err(gen_wrap(&mut rng, 1)) };
        rt(ctx, "Result<enum,enum>", &res2);
        // options of containers, empty ones included ("present but empty" is not "absent")
        let ov: Option<Vec<i32>> = match rng.below(4) { 0 => None, 1 => Some(vec![]), _ => Some((0..rng.below(4)).map(|_| gen_i64(&mut rng) as i32).collect()) };
        rt(ctx, match &ov { None => "Option<Vec<i32>>/none", Some(v) if v.is_empty() => "Option<Vec<i32>>/some-empty", _ => "Option<Vec<i32>>/some" }, &ov);
        let ovs: Option<Vec<String>> = match rng.below(3) { 0 => None, 1 => Some(vec![]), _ => Some(vec![gen_string(&mut rng)]) };
        rt(ctx, if matches!(&ovs, Some(v) if v.is_empty()) { "Option<Vec<String>>/some-empty" } else { "Option<Vec<String>>" }, &ovs);
        let oes: Option<String> = if rng.bool() { Some(String::new()) } else { None };
        rt(ctx, "Option<String>/empty-or-none", &oes);
        let om: Option<std::collections::BTreeMap<String, i32>> = match rng.below(3) { 0 => None, 1 => Some(Default::default()), _ => Some([(gen_string(&mut rng), 1)].into_iter().collect()) };
        rt(ctx, if matches!(&om, Some(m) if m.is_empty()) { "Option<BTreeMap>/some-empty" } else { "Option<BTreeMap>" }, &om);
        let vov: Vec<Option<Vec<u8>>> = (0..rng.below(4)).map(|_| match rng.below(3) { 0 => None, 1 => Some(vec![]), _ => Some(vec![1, 2]) }).collect();
        rt(ctx, "Vec<Option<Vec<u8>>>", &vov);
        let ot: Option<(Vec<i32>, Vec<String>)> = Some((vec![], vec![]));
        rt(ctx, "Option<(Vec,Vec)>/empty", &ot);
        rt(ctx, "tuple2", &(gen_i64(&mut rng) as i32, gen_string(&mut rng)));
        rt(ctx, "tuple3", &(rng.next_u32() as u8, rng.next_u32() as u8, rng.bool()));
        rt(ctx, "tuple1", &(gen_i64(&mut rng) as i16,));
        let vi: Vec<i64> = (0..rng.below(6)).map(|_| gen_i64(&mut rng)).collect();
        let cls = widest(vi.iter().map(|x| *x as i128));
        rt(ctx, &format!("Vec<i64>/{}", cls), &vi);
        let nb = rng.below(40);
        let vb: Vec<u8> = rng.bytes(nb);
        rt(ctx, if vb.is_empty() { "Vec<u8>/empty" } else { "Vec<u8>" }, &vb);
        let vs: Vec<String> = (0..rng.below(4)).map(|_| gen_string(&mut rng)).collect();
        rt(ctx, "Vec<String>", &vs);
        let vo: Vec<Option<bool>> = (0..rng.below(5)).map(|_| if rng.bool() { Some(rng.bool()) } else { None }).collect();
        rt(ctx, "Vec<Option<bool>>", &vo);
        let hm: HashMap<String, i32> = (0..rng.below(5)).map(|k| (format!("k{}{}", k, gen_string(&mut rng)), gen_i64(&mut rng) as i32)).collect();
        rt(ctx, "HashMap<String,i32>", &hm);
        let bm: BTreeMap<i64, String> = (0..rng.below(5)).map(|_| (gen_i64(&mut rng), gen_string(&mut rng))).collect();
        let cls = widest(bm.keys().map(|x| *x as i128));
        rt(ctx, &format!("BTreeMap<i64,String>/keys-{}", cls), &bm);
        let bu: BTreeMap<u32, Vec<u16>> = (0..rng.below(4)).map(|_| (gen_u64(&mut rng) as u32, vec![rng.next_u32() as u16])).collect();
        let cls = widest(bu.keys().map(|x| *x as i128));
        rt(ctx, &format!("BTreeMap<u32,Vec<u16>>/keys-{}", cls), &bu);
        let p = gen_plain(&mut rng);
        rt(ctx, &format!("struct Plain/c-{}", p.c.map(|x| width_class_i(x as i128)).unwrap_or("none")), &p);
        let w = Wide { small: rng.range(-1000, 1000), big: gen_i64(&mut rng), unsigned: gen_u64(&mut rng) as u32, huge: gen_u64(&mut rng) };
        rt(ctx, &format!("struct Wide/big-{}/unsigned-{}", width_class_i(w.big as i128), width_class_i(w.unsigned as i128)), &w);
        let u = ElixirUser {
            name: gen_string(&mut rng),
            age: gen_u64(&mut rng) as u32,
            score: gen_i64(&mut rng),
            tags: (0..rng.below(3)).map(|_| gen_string(&mut rng)).collect(),
            nick: if rng.bool() { Some(gen_string(&mut rng)) } else { None },
        };
        rt(ctx, &format!("ElixirStruct/age-{}/score-{}", width_class_i(u.age as i128), width_class_i(u.score as i128)), &u);
        let ev = ElixirEvent { r#type: gen_string(&mut rng), r#ref: gen_u64(&mut rng), r#match: *rng.pick(&[None, Some(true), Some(false)]), user: u.clone(), others: if rng.bool() { vec![u.clone()] } else { vec![] } };
        rt(ctx, "ElixirStruct/raw-identifier-fields/nested", &ev);
        let sh = gen_shape(&mut rng);
        let lbl = match &sh {
            Shape::Empty => "enum/unit".to_string(),
            Shape::Id(x) => format!("enum/newtype-i64/{}", width_class_i(*x as i128)),
            Shape::Pair(..) => "enum/tuple".to_string(),
            Shape::Rect { .. } => "enum/struct".to_string(),
            Shape::Text(_) => "enum/newtype-string".to_string(),
        };
        rt(ctx, &lbl, &sh);
        if i % 4 == 0 {
            let nested = Nested {
                shapes: (0..rng.below(4)).map(|_| match gen_shape(&mut rng) { Shape::Id(x) => Shape::Id(x as i32 as i64), s => s }).collect(),
                by_name: (0..rng.below(3)).map(|k| (format!("n{}", k), { let mut p = gen_plain(&mut rng); p.c = p.c.map(|x| x as u16 as u64); p.e.1 = 'q'; p })).collect(),
                maybe: if rng.bool() { Some(Shape::Pair(1, gen_string(&mut rng))) } else { None },
                unit: (),
                triple: (rng.next_u32() as u8, rng.next_u32() as i16, gen_u64(&mut rng) >> 33),
            };
            // chars and wide integers are kept out of `Nested` so that it exercises shape, not the leaf defects
            let n2 = Nested { by_name: nested.by_name.into_iter().map(|(k, mut p)| { p.e.1 = 'q'; (k, p) }).collect(), ..nested };
            rt(ctx, "struct Nested", &n2);
        }
        if i % 101 == 0 {
            ctx.sample(json!({"type": "Plain", "value": show(&p), "term": erltf_serde::to_term(&p).map(|t| format!("{}", t).chars().take(160).collect::<String>()).unwrap_or_default()}));
        }
    }

    // history independence of the serde layer: round trips of ordinary values before and after calls that
    // fail (a value the format cannot carry) or are unusual
    {
        let serde_probe = || -> Vec<(String, String)> {
            let mut out: Vec<(String, String)> = Vec::new();
            let mut add = |name: &str, f: &dyn Fn() -> String| out.push((name.to_string(), guarded(f).unwrap_or_else(|p| format!("PANIC {}", p))));
            add("u64 via bytes", &|| format!("{:?}", erltf_serde::to_bytes(&u64::MAX).map(|b| erltf_serde::from_bytes::<u64>(&b).map_err(|e| e.to_string()))));
            add("string via bytes", &|| format!("{:?}", erltf_serde::to_bytes(&"gr\u{fc}\u{df}e".to_string()).map(|b| erltf_serde::from_bytes::<String>(&b).map_err(|e| e.to_string()))));
            add("vec of options via bytes", &|| {
                let v: Vec<Option<i64>> = vec![Some(i64::MIN), None, Some(7)];
                format!("{:?}", erltf_serde::to_bytes(&v).map(|b| (b.len(), erltf_serde::from_bytes::<Vec<Option<i64>>>(&b).map_err(|e| e.to_string()))))
            });
            add("tuple via term", &|| format!("{:?}", erltf_serde::to_term(&(1u8, "x".to_string(), 2.5f64)).map(|t| erltf_serde::from_term::<(u8, String, f64)>(&t).map_err(|e| e.to_string()))));
            add("map via bytes", &|| {
                let m: std::collections::BTreeMap<i64, String> = [(1, "a".to_string()), (-9, "b".to_string())].into_iter().collect();
                format!("{:?}", erltf_serde::to_bytes(&m).map(|b| erltf_serde::from_bytes::<std::collections::BTreeMap<i64, String>>(&b).map_err(|e| e.to_string())))
            });
            out.extend(super::disturb::standard_probe().into_iter().filter(|(n, _)| n.starts_with("encode")));
            out
        };
        // a serde-level value the format cannot carry, in the middle of a compound value
        let before = serde_probe();
        let long = "z".repeat(70_000);
        for _ in 0..3 {
            let _ = guarded(|| erltf_serde::to_bytes(&(42u8, erltf_serde::elixir::AtomValue(&long))).is_err());
            let _ = guarded(|| erltf_serde::to_term(&(42u8, erltf_serde::elixir::AtomValue(&long))).is_err());
        }
        let after = serde_probe();
        ctx.eval(after.len() as u64);
        ctx.class("history-independence/serde-refused-value");
        if let Some((b, a)) = before.iter().zip(after.iter()).find(|(b, a)| b.1 != a.1) {
            ctx.viol(
                "C15:history-dependent:serde-refused-value",
                "an ordinary round trip answers differently after a value was refused",
                json!({"call": b.0, "before": b.1.chars().take(160).collect::<String>(), "after": a.1.chars().take(160).collect::<String>()}),
            );
        }
        let mut hrng = Rng::derive(ctx.seed, 15, 99);
        super::disturb::probe_history_independence(ctx, "C15", &mut hrng, ctx.pick(16, 60), &serde_probe);
    }
}
