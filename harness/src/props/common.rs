//! Helpers shared by the property modules.

use crate::refmodel::val::Val;
use std::panic::{AssertUnwindSafe, catch_unwind};

/// Run a library call, turning a panic into `Err(message)`.
pub fn guarded<T>(f: impl FnOnce() -> T) -> Result<T, String> {
    match catch_unwind(AssertUnwindSafe(f)) {
        Ok(v) => Ok(v),
        Err(e) => {
            let msg = if let Some(s) = e.downcast_ref::<&str>() {
                s.to_string()
            } else if let Some(s) = e.downcast_ref::<String>() {
                s.clone()
            } else {
                "panic".to_string()
            };
            Err(msg)
        }
    }
}

pub fn quiet_panics() {
    std::panic::set_hook(Box::new(|_| {}));
}

fn kind_bit(v: &Val) -> u32 {
    match v {
        Val::Int(i) => {
            if i.mag.len() <= 1 && !i.neg {
                1 << 0
            } else if i.mag.len() <= 4 {
                1 << 1
            } else if i.mag.len() <= 8 {
                1 << 2
            } else if i.mag.len() <= 255 {
                1 << 3
            } else {
                1 << 4
            }
        }
        Val::Float(_) => 1 << 5,
        Val::Atom(a) => {
            if a.len() <= 255 {
                1 << 6
            } else {
                1 << 7
            }
        }
        Val::Bits { bits, .. } => {
            if bits % 8 == 0 {
                1 << 8
            } else {
                1 << 9
            }
        }
        Val::Nil => 1 << 10,
        Val::List { tail, .. } => {
            if **tail == Val::Nil {
                1 << 11
            } else {
                1 << 12
            }
        }
        Val::Tuple(e) => {
            if e.len() <= 255 {
                1 << 13
            } else {
                1 << 14
            }
        }
        Val::Map(_) => 1 << 15,
        Val::Pid { .. } => 1 << 16,
        Val::Port { .. } => 1 << 17,
        Val::Ref { .. } => 1 << 18,
        Val::ExtFun { .. } => 1 << 19,
        Val::IntFun { .. } => 1 << 20,
    }
}

/// Bit set of the value kinds (with width classes) occurring anywhere in the value.
pub fn kinds_mask(v: &Val) -> u32 {
    let mut m = kind_bit(v);
    match v {
        Val::List { elems, tail } => {
            for e in elems {
                m |= kinds_mask(e);
            }
            m |= kinds_mask(tail);
        }
        Val::Tuple(e) => {
            for x in e {
                m |= kinds_mask(x);
            }
        }
        Val::Map(e) => {
            for (k, x) in e {
                m |= kinds_mask(k) | kinds_mask(x);
            }
        }
        Val::IntFun { free, pid, .. } => {
            m |= kinds_mask(pid);
            for x in free {
                m |= kinds_mask(x);
            }
        }
        _ => {}
    }
    m
}

/// Kind at the first position where two values differ ("" when they are the same).
pub fn first_diff(a: &Val, b: &Val) -> String {
    if a.same(b) {
        return String::new();
    }
    match (a, b) {
        (Val::Tuple(x), Val::Tuple(y)) if x.len() == y.len() => {
            for (p, q) in x.iter().zip(y) {
                let d = first_diff(p, q);
                if !d.is_empty() {
                    return d;
                }
            }
            "tuple".into()
        }
        (
            Val::List { elems: x, tail: tx },
            Val::List { elems: y, tail: ty },
        ) if x.len() == y.len() => {
            for (p, q) in x.iter().zip(y) {
                let d = first_diff(p, q);
                if !d.is_empty() {
                    return d;
                }
            }
            let d = first_diff(tx, ty);
            if d.is_empty() { "list".into() } else { d }
        }
        (Val::Map(x), Val::Map(y)) => {
            if x.len() != y.len() {
                return format!("map-size:{}->{}", x.len().min(9), y.len().min(9));
            }
            for (k, v) in x {
                match y.iter().find(|(k2, _)| k2.same(k)) {
                    None => return format!("map-key:{}", k.kind()),
                    Some((_, v2)) => {
                        let d = first_diff(v, v2);
                        if !d.is_empty() {
                            return d;
                        }
                    }
                }
            }
            "map".into()
        }
        (
            Val::IntFun {
                old_index: a1,
                old_uniq: a2,
                free: f1,
                pid: p1,
                ..
            },
            Val::IntFun {
                old_index: b1,
                old_uniq: b2,
                free: f2,
                pid: p2,
                ..
            },
        ) => {
            if a1 != b1 {
                return "intfun.old_index".into();
            }
            if a2 != b2 {
                return "intfun.old_uniq".into();
            }
            if !p1.same(p2) {
                return "intfun.pid".into();
            }
            if f1.len() == f2.len() {
                for (p, q) in f1.iter().zip(f2) {
                    let d = first_diff(p, q);
                    if !d.is_empty() {
                        return d;
                    }
                }
            }
            "intfun".into()
        }
        _ => {
            if a.kind() == b.kind() {
                a.kind().to_string()
            } else {
                format!("{}->{}", a.kind(), b.kind())
            }
        }
    }
}

pub fn size_bucket(n: usize) -> &'static str {
    match n {
        0..=1 => "1",
        2..=8 => "s",
        9..=64 => "m",
        _ => "l",
    }
}

/// Drive a set of futures concurrently on the current task (the futures borrow the check's context, so they
/// cannot be spawned).
pub async fn join_all<'a>(mut futs: Vec<std::pin::Pin<Box<dyn std::future::Future<Output = ()> + 'a>>>) {
    std::future::poll_fn(move |cx| {
        futs.retain_mut(|f| f.as_mut().poll(cx).is_pending());
        if futs.is_empty() { std::task::Poll::Ready(()) } else { std::task::Poll::Pending }
    })
    .await
}
