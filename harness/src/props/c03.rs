//! C03 – every valid external encoding of a value decodes to exactly that value;
//! trailing bytes after one complete term are an error.

use super::common::{first_diff, guarded, kinds_mask};
use crate::genr::val::{Gen, GenCfg, boundary_leaves, skeletons};
use crate::out::{Ctx, hex_cap};
use crate::refmodel::decode::ref_decode;
use crate::refmodel::denote::val_of;
use crate::refmodel::encode::{Canonical, Chooser, EnumChooser, OnlyNamed, Opts, RandomChooser, ref_encode};
use crate::refmodel::val::{Val, erl_eq};
use crate::rng::Rng;
use erltf::errors::DecodeError;
use serde_json::json;

fn grng_small(seed: u64, i: u64) -> Rng {
    Rng::derive(seed, 3, 1000 + i)
}

fn has_numeric_twin_keys(v: &Val) -> bool {
    match v {
        Val::Map(e) => {
            for (i, (k, _)) in e.iter().enumerate() {
                for (k2, _) in &e[i + 1..] {
                    if !k.same(k2) && erl_eq(k, k2) {
                        return true;
                    }
                }
            }
            e.iter().any(|(k, x)| has_numeric_twin_keys(k) || has_numeric_twin_keys(x))
        }
        Val::Tuple(e) => e.iter().any(has_numeric_twin_keys),
        Val::List { elems, tail } => elems.iter().any(has_numeric_twin_keys) || has_numeric_twin_keys(tail),
        Val::IntFun { free, .. } => free.iter().any(has_numeric_twin_keys),
        _ => false,
    }
}

/// Outcome of the library on one encoding: "" = fine, otherwise a stage:detail string.
fn judge(v: &Val, bytes: &[u8]) -> (String, String) {
    match guarded(|| erltf::decode(bytes)) {
        Err(p) => ("panic".into(), p),
        Ok(Err(e)) => ("reject".into(), e.to_string()),
        Ok(Ok(t)) => {
            let dv = val_of(&t);
            if dv.same(v) {
                (String::new(), String::new())
            } else {
                ("value".into(), format!("{} | decoded: {}", first_diff(v, &dv), dv.show()))
            }
        }
    }
}

/// Locate the first map of `v` whose decoded counterpart in `dv` lost or changed keys.
fn find_map_loss<'a>(v: &'a Val, dv: &'a Val) -> Option<(&'a Vec<(Val, Val)>, &'a Vec<(Val, Val)>)> {
    match (v, dv) {
        (Val::Map(a), Val::Map(b)) => {
            let keys_ok = a.len() == b.len() && a.iter().all(|(k, _)| b.iter().any(|(k2, _)| k2.same(k)));
            if !keys_ok {
                return Some((a, b));
            }
            for (k, x) in a {
                if let Some((_, y)) = b.iter().find(|(k2, _)| k2.same(k)) {
                    if let Some(r) = find_map_loss(x, y) {
                        return Some(r);
                    }
                }
                // keys themselves may contain maps
            }
            None
        }
        (Val::Tuple(a), Val::Tuple(b)) if a.len() == b.len() => {
            a.iter().zip(b).find_map(|(x, y)| find_map_loss(x, y))
        }
        (Val::List { elems: a, tail: ta }, Val::List { elems: b, tail: tb }) if a.len() == b.len() => a
            .iter()
            .zip(b)
            .find_map(|(x, y)| find_map_loss(x, y))
            .or_else(|| find_map_loss(ta, tb)),
        (Val::IntFun { free: a, .. }, Val::IntFun { free: b, .. }) if a.len() == b.len() => {
            a.iter().zip(b).find_map(|(x, y)| find_map_loss(x, y))
        }
        _ => None,
    }
}

/// Library terms for a key under the encodings that change its variant.
fn key_terms(k: &Val, opts: &Opts) -> Vec<erltf::OwnedTerm> {
    let mut out = Vec::new();
    if let Ok(b) = ref_encode(k, &mut Canonical, opts) {
        if let Ok(t) = erltf::decode(&b) {
            out.push(t);
        }
    }
    if let Ok(b) = ref_encode(k, &mut OnlyNamed("BIT_BINARY_EXT/bits8"), opts) {
        if let Ok(t) = erltf::decode(&b) {
            out.push(t);
        }
    }
    out
}

/// Cause class for lost map entries: which two kinds of key did the library merge?
fn merged_keys_cause(v: &Val, dv: &Val, opts: &Opts) -> Option<String> {
    let (orig, dec) = find_map_loss(v, dv)?;
    // a key of the original that is missing after decoding
    let missing: Vec<&Val> = orig
        .iter()
        .map(|(k, _)| k)
        .filter(|k| !dec.iter().any(|(k2, _)| k2.same(k)))
        .collect();
    let candidates: Vec<&Val> = orig.iter().map(|(k, _)| k).collect();
    for km in &missing {
        for ks in &candidates {
            if ks.same(km) {
                continue;
            }
            if erl_eq(km, ks) {
                // numerically equal but distinct keys
                return Some("map-keys-collapse:int~float".into());
            }
        }
    }
    for km in &missing {
        let kts = key_terms(km, opts);
        for ks in &candidates {
            if ks.same(km) {
                continue;
            }
            for a in &kts {
                for b in key_terms(ks, opts) {
                    if a.cmp(&b) == std::cmp::Ordering::Equal {
                        let mut kinds = [km.kind(), ks.kind()];
                        kinds.sort();
                        return Some(format!("map-keys-merge:{}~{}", kinds[0], kinds[1]));
                    }
                }
            }
        }
    }
    // a key that is itself a container may have changed inside (a nested map lost an entry)
    let extra: Vec<&Val> = dec
        .iter()
        .map(|(k, _)| k)
        .filter(|k| !orig.iter().any(|(k2, _)| k2.same(k)))
        .collect();
    for km in &missing {
        for kd in &extra {
            if find_map_loss(km, kd).is_some() {
                if let Some(c) = merged_keys_cause(km, kd, opts) {
                    if c != "map-keys-merge:unidentified" {
                        return Some(c);
                    }
                }
            }
        }
    }
    // a surviving original pair may be numerically equal with the *later* one kept
    for (i, (k, _)) in orig.iter().enumerate() {
        for (k2, _) in &orig[i + 1..] {
            if !k.same(k2) && erl_eq(k, k2) {
                return Some("map-keys-collapse:int~float".into());
            }
        }
    }
    Some("map-keys-merge:unidentified".into())
}

/// Find the encoding alternative that is responsible for a failure (cause class of the signature).
fn cause_of(v: &Val, bytes: &[u8], taken: &[&'static str], opts: &Opts, stage: &str) -> String {
    if stage == "value" {
        if let Ok(Ok(t)) = guarded(|| erltf::decode(bytes)) {
            if let Some(c) = merged_keys_cause(v, &val_of(&t), opts) {
                return c;
            }
        }
    }
    // canonical encoding already fails the same way?
    if let Ok(b) = ref_encode(v, &mut Canonical, opts) {
        let (st, detail) = judge(v, &b);
        if st == stage {
            let d = detail.split(' ').next().unwrap_or("").to_string();
            return format!("canonical:{}", if st == "value" { d } else { v.kind().to_string() });
        }
    }
    let mut seen: Vec<&'static str> = Vec::new();
    for name in taken {
        if seen.contains(name) {
            continue;
        }
        seen.push(name);
        if let Ok(b) = ref_encode(v, &mut OnlyNamed(name), opts) {
            let (st, _) = judge(v, &b);
            if st == stage {
                return name.to_string();
            }
        }
    }
    format!("combination:{}", {
        let mut s = seen.clone();
        s.sort();
        s.join("+")
    })
}

fn check_encoding(ctx: &Ctx, v: &Val, bytes: &[u8], taken: &[&'static str], opts: &Opts, rng: &mut Rng) {
    ctx.eval(1);
    // self-check of the reference pair: a failure here is a harness bug, not a verdict
    match ref_decode(bytes) {
        Ok(r) if r.same(v) => {}
        other => {
            ctx.inconclusive(&format!("self-check: ref_decode(ref_encode(v)) != v: {:?} for {}", other.map(|x| x.show()), v.show()));
            return;
        }
    }
    let (stage, detail) = judge(v, bytes);
    if !stage.is_empty() {
        let cause = cause_of(v, bytes, taken, opts, &stage);
        ctx.viol(
            &format!("C03:{}:{}", stage, cause),
            match stage.as_str() {
                "reject" => "a valid encoding is rejected",
                "value" => "a valid encoding decodes to another value",
                _ => "decode panicked on a valid encoding",
            },
            json!({"value": v.show(), "bytes": hex_cap(bytes, 128), "alternatives": taken, "detail": detail}),
        );
        return;
    }
    // trailing data
    if rng.chance(1, 3) {
        let k = 1 + rng.below(4);
        let junk = rng.bytes(k);
        let mut b2 = bytes.to_vec();
        b2.extend_from_slice(&junk);
        match guarded(|| erltf::decode(&b2)) {
            Ok(Err(DecodeError::TrailingData(n))) if n == k => {}
            Ok(Err(e)) => ctx.viol(
                "C03:trailing:other-error",
                "trailing bytes reported with another error",
                json!({"value": v.show(), "bytes": hex_cap(&b2, 96), "error": e.to_string(), "junk": k}),
            ),
            Ok(Ok(_)) => ctx.viol(
                "C03:trailing:ignored",
                "bytes after a complete term were ignored by decode",
                json!({"value": v.show(), "bytes": hex_cap(&b2, 96), "junk": k}),
            ),
            Err(p) => ctx.viol("C03:panic:trailing", "panic", json!({"panic": p})),
        }
        match guarded(|| erltf::decoder::decode_with_trailing(&b2).map(|(t, r)| (val_of(&t), r.to_vec()))) {
            Ok(Ok((tv, rest))) => {
                if rest != junk || !tv.same(v) {
                    ctx.viol(
                        "C03:trailing:with_trailing-wrong-rest",
                        "decode_with_trailing did not return exactly the trailing bytes",
                        json!({"value": v.show(), "bytes": hex_cap(&b2, 96), "rest": hex_cap(&rest, 32), "junk": hex_cap(&junk, 32)}),
                    );
                }
            }
            Ok(Err(e)) => ctx.viol(
                "C03:trailing:with_trailing-error",
                "decode_with_trailing failed on term + trailing bytes",
                json!({"value": v.show(), "error": e.to_string()}),
            ),
            Err(p) => ctx.viol("C03:panic:with_trailing", "panic", json!({"panic": p})),
        }
        ctx.count("trailing_checked", 1);
    }
}

pub fn run(ctx: &Ctx) {
    ctx.rule("cases = (value, admissible encoding) pairs from the independent writer (boundary leaves in skeletons; maps keyed by pairs of sibling values - numeric neighbours across int/bigint/float, identifiers differing in one field or trailing word, lists differing in tail kind, bit-strings differing in padding; random trees): exhaustive over all encoding alternatives for values with <= 200 combinations, random alternatives beyond; distinct = distinct (set of value kinds present, sorted set of non-canonical alternatives taken)");
    ctx.assume("alternatives table: small/large/padded integers, text floats, 4 atom tags (Latin-1 incl. >=0x80), STRING_EXT, small/large tuple, legacy pid/port/ref tags, NEW_PORT_EXT, LOCAL_EXT (hash8+term), COMPRESSED at top level, BIT_BINARY_EXT with 8 bits");
    let opts = Opts { allow_local: true, ..Opts::default() };
    let mut rng = Rng::derive(ctx.seed, 3, 1);

    let record = |ctx: &Ctx, v: &Val, taken: &[&'static str]| {
        let mut t: Vec<&str> = taken.to_vec();
        t.sort();
        t.dedup();
        ctx.class(&format!("{:x}/{}", kinds_mask(v), t.join("+")));
    };

    // (a) boundary leaves in small skeletons, exhaustive alternatives when affordable
    let leaves = boundary_leaves(false);
    let mut twin_maps: Vec<Val> = vec![
        Val::Map(vec![(Val::int(1), Val::atom("a")), (Val::float(1.0), Val::atom("b"))]),
        Val::Map(vec![(Val::float(1.0), Val::atom("b")), (Val::int(1), Val::atom("a"))]),
        Val::Map(vec![(Val::int(1 << 53), Val::int(1)), (Val::float(9007199254740992.0), Val::int(2))]),
        Val::Map(vec![(Val::int(0), Val::Nil), (Val::float(0.0), Val::Nil), (Val::atom("x"), Val::Nil)]),
        Val::Tuple(vec![Val::Map(vec![(Val::int(-7), Val::int(1)), (Val::float(-7.0), Val::int(2))])]),
    ];
    let mut corpus: Vec<Val> = Vec::new();
    for leaf in &leaves {
        for v in skeletons(leaf).into_iter().take(ctx.pick(4, 10)) {
            corpus.push(v);
        }
    }
    corpus.append(&mut twin_maps);
    let enum_cap = 200usize;
    let mut exhaustive_values = 0u64;
    for v in &corpus {
        if !ctx.time_left() {
            break;
        }
        let mut ch = EnumChooser::new();
        let mut n = 0usize;
        loop {
            ch.begin();
            match ref_encode(v, &mut ch, &opts) {
                Ok(bytes) => {
                    let taken = ch.taken.clone();
                    record(ctx, v, &taken);
                    check_encoding(ctx, v, &bytes, &taken, &opts, &mut rng);
                }
                Err(_) => {}
            }
            n += 1;
            if n >= enum_cap || !ch.advance() {
                if n < enum_cap {
                    exhaustive_values += 1;
                }
                break;
            }
        }
    }
    ctx.extra("values_with_all_alternatives_enumerated", json!(exhaustive_values));

    // (a') sibling keys: two values differing in one digit / field / trailing word / tail kind as the keys of one
    // map (bare, and at the same position of otherwise equal compound keys), canonical + random alternatives
    {
        let mut frng = Rng::derive(ctx.seed, 3, 3);
        let fams = crate::genr::near::families(&mut frng);
        let maps = crate::genr::near::sibling_maps(&fams, crate::genr::near::Twins::Skip, true);
        let mut n = 0u64;
        for (fam, v) in &maps {
            if !ctx.time_left() {
                break;
            }
            let mut can = Canonical;
            if let Ok(bytes) = ref_encode(v, &mut can, &opts) {
                ctx.class(&format!("siblings/{}", fam));
                check_encoding(ctx, v, &bytes, &[], &opts, &mut rng);
                n += 1;
            }
            for _ in 0..ctx.pick(1, 6) {
                let mut ch = RandomChooser { rng: &mut frng, legacy_bias: 50, taken: vec![] };
                if let Ok(bytes) = ref_encode(v, &mut ch, &opts) {
                    let taken = ch.taken.clone();
                    drop(ch);
                    check_encoding(ctx, v, &bytes, &taken, &opts, &mut rng);
                    n += 1;
                }
            }
        }
        ctx.extra("sibling_key_maps", json!(maps.len()));
        ctx.extra("sibling_key_encodings", json!(n));
    }

    // (a'') every small structure, bare and placed, canonical + one random set of alternatives
    {
        let small = crate::genr::small::all_small_values();
        let stride = ctx.pick(4usize, 1usize);
        let mut n = 0u64;
        for (i, v) in small.iter().enumerate() {
            if !ctx.time_left() {
                break;
            }
            for (j, w) in crate::genr::small::placed(v).iter().enumerate() {
                if j > 0 && (i + j) % stride != 0 {
                    continue;
                }
                if let Ok(bytes) = ref_encode(w, &mut Canonical, &opts) {
                    check_encoding(ctx, w, &bytes, &[], &opts, &mut rng);
                    n += 1;
                }
                let mut ch = RandomChooser { rng: &mut grng_small(ctx.seed, i as u64), legacy_bias: 50, taken: vec![] };
                if let Ok(bytes) = ref_encode(w, &mut ch, &opts) {
                    let taken = ch.taken.clone();
                    drop(ch);
                    check_encoding(ctx, w, &bytes, &taken, &opts, &mut rng);
                    n += 1;
                }
            }
        }
        ctx.class("small-structures/exhaustive");
        ctx.extra("small_structure_encodings", json!(n));
    }

    // (b) random values x random alternatives
    let n_random = ctx.pick(40_000usize, 2_000_000usize);
    let mut grng = Rng::derive(ctx.seed, 3, 2);
    let mut done = 0usize;
    while done < n_random && ctx.time_left() {
        let cfg = GenCfg {
            max_depth: 2 + grng.below(5),
            max_nodes: 6 + grng.below(60),
            numeric_twin_keys: grng.chance(1, 3),
            float_keys: grng.chance(1, 3),
            huge_leaves: grng.chance(1, 500),
            ..GenCfg::default()
        };
        let v = {
            let mut g = Gen::new(&mut grng, cfg);
            g.value()
        };
        let bias = *rng.pick(&[10u32, 40, 90]);
        let mut ch = RandomChooser { rng: &mut rng, legacy_bias: bias, taken: vec![] };
        if let Ok(bytes) = ref_encode(&v, &mut ch, &opts) {
            let taken = ch.taken.clone();
            drop(ch);
            record(ctx, &v, &taken);
            check_encoding(ctx, &v, &bytes, &taken, &opts, &mut rng);
            if ctx.samples_len() < 8 && done % 5003 == 0 {
                ctx.sample(json!({"value": v.show(), "alternatives": taken, "bytes": hex_cap(&bytes, 64)}));
            }
        }
        done += 1;
    }
    ctx.extra("random_values", json!(done));
    // history independence: the same ordinary calls before and after calls that fail or are unusual
    {
        let mut hrng = Rng::derive(ctx.seed, 3, 99);
        super::disturb::probe_history_independence(ctx, "C03", &mut hrng, ctx.pick(16, 60), &super::disturb::standard_probe);
    }
}

#[allow(dead_code)]
pub fn chooser_selfcheck() {
    let v = Val::Tuple(vec![Val::int(1), Val::atom("a")]);
    let mut ch = EnumChooser::new();
    let mut n = 0;
    loop {
        ch.begin();
        let _ = ref_encode(&v, &mut ch as &mut dyn Chooser, &Opts::default());
        n += 1;
        if !ch.advance() {
            break;
        }
    }
    assert!(n > 4);
}
