//! C06 – receiving delivers each peer message exactly once, in order, and survives junk.
//! C07's receive-side counterpart: a scripted peer sends, the real `Connection::receive_message` reads.

use crate::genr::val::{Gen, GenCfg};
use crate::mon::net::{self, FLAG_DIST_HDR_ATOM_CACHE, FLAG_FRAGMENTS, PEER_BASE_FLAGS};
use crate::out::{Ctx, hex_cap};
use crate::refmodel::denote::val_of;
use crate::refmodel::dist::{SenderCache, collect_atoms, plan_message, write_message};
use crate::refmodel::encode::ref_encode_canonical;
use crate::refmodel::val::Val;
use crate::rng::Rng;
use edp_client::{Connection, ConnectionConfig, DistributionFlags};
use serde_json::json;
use std::time::{Duration, Instant};

#[derive(Clone, Copy, Debug, PartialEq, Eq)]
pub enum Mode {
    PassThrough,
    DistHeader,
    Fragments,
}

fn pid(node: &str, id: u32) -> Val {
    Val::Pid { node: node.into(), id, serial: 0, creation: 3 }
}

fn reference(node: &str, k: u32) -> Val {
    Val::Ref { node: node.into(), creation: 3, ids: vec![k, k + 1, 7] }
}

/// A control tuple of every kind the protocol knows, with or without payload.
pub fn control_of_kind(kind: usize, uid: u32) -> (Val, bool, &'static str) {
    let from = pid("peer@127.0.0.1", uid);
    let to = pid("rust@127.0.0.1", uid + 1);
    let r = reference("peer@127.0.0.1", uid);
    let tt = Val::Tuple(vec![Val::int(1), Val::int(2), Val::int(3), from.clone(), Val::int(4)]);
    let t = |tag: i128, f: Vec<Val>| {
        let mut v = vec![Val::int(tag)];
        v.extend(f);
        Val::Tuple(v)
    };
    match kind % 28 {
        0 => (t(1, vec![from, to]), false, "LINK"),
        1 => (t(2, vec![Val::atom(""), to]), true, "SEND"),
        2 => (t(3, vec![from, to, Val::atom("killed")]), false, "EXIT"),
        3 => (t(4, vec![from, to]), false, "UNLINK"),
        4 => (t(5, vec![]), false, "NODE_LINK"),
        5 => (t(6, vec![from, Val::atom(""), Val::atom("some_name")]), true, "REG_SEND"),
        6 => (t(7, vec![from, to]), false, "GROUP_LEADER"),
        7 => (t(8, vec![from, to, Val::Tuple(vec![Val::atom("shutdown"), Val::int(uid as i128)])]), false, "EXIT2"),
        8 => (t(12, vec![Val::atom(""), to, tt]), true, "SEND_TT"),
        9 => (t(13, vec![from, to, tt, Val::atom("normal")]), false, "EXIT_TT"),
        10 => (t(16, vec![from, Val::atom(""), Val::atom("nm"), tt]), true, "REG_SEND_TT"),
        11 => (t(18, vec![from, to, tt, Val::atom("kill")]), false, "EXIT2_TT"),
        12 => (t(19, vec![from, to, r]), false, "MONITOR_P"),
        13 => (t(20, vec![from, to, r]), false, "DEMONITOR_P"),
        14 => (t(21, vec![from, to, r, Val::atom("noproc")]), false, "MONITOR_P_EXIT"),
        15 => (t(22, vec![from, to]), true, "SEND_SENDER"),
        16 => (t(23, vec![from, to, tt]), true, "SEND_SENDER_TT"),
        17 => (t(24, vec![from, to]), true, "PAYLOAD_EXIT"),
        18 => (t(26, vec![from, to]), true, "PAYLOAD_EXIT2"),
        19 => (t(28, vec![from, to, r]), true, "PAYLOAD_MONITOR_P_EXIT"),
        20 => (t(29, vec![r, from, to, Val::Tuple(vec![Val::atom("m"), Val::atom("f"), Val::int(1)]), Val::Nil]), true, "SPAWN_REQUEST"),
        21 => (t(31, vec![r, to, Val::int(0), from]), false, "SPAWN_REPLY"),
        22 => (t(33, vec![from, r]), true, "ALIAS_SEND"),
        23 => (t(34, vec![from, r, tt]), true, "ALIAS_SEND_TT"),
        24 => (t(35, vec![Val::int(uid as i128 + (1 << 40)), from, to]), false, "UNLINK_ID"),
        25 => (t(36, vec![Val::int(uid as i128), from, to]), false, "UNLINK_ID_ACK"),
        26 => (t(25, vec![from, to, tt]), true, "PAYLOAD_EXIT_TT"),
        _ => (t(200, vec![from, Val::int(uid as i128)]), false, "UNKNOWN_200"),
    }
}

#[derive(Clone, Debug)]
pub struct Sent {
    pub uid: u32,
    pub control: Val,
    pub payload: Option<Val>,
    pub kind: &'static str,
    pub form: String,
}

pub enum Item {
    Valid(Sent, Vec<Vec<u8>>), // the message and the frame bodies that carry it
    Tick,
    Junk(&'static str, Vec<u8>),
}

fn payload_val(rng: &mut Rng, uid: u32, size: usize) -> Val {
    let cfg = GenCfg { max_depth: 3, max_nodes: 12, funs: false, ..GenCfg::default() };
    let extra = {
        let mut g = Gen::new(rng, cfg);
        g.value()
    };
    let filler = Val::binary(&vec![(uid % 251) as u8; size]);
    // now and then a payload nested close to the decoder's limit (valid, and must be delivered like any other)
    let extra = if rng.chance(1, 6) {
        let mut v = Val::int(7);
        for _ in 0..*rng.pick(&[100usize, 200, 240]) {
            v = Val::Tuple(vec![v]);
        }
        v
    } else {
        extra
    };
    Val::Tuple(vec![Val::atom("uid"), Val::int(uid as i128), extra, filler])
}

pub fn build_items(rng: &mut Rng, mode: Mode, n_valid: usize, with_junk: bool, sender: &mut SenderCache, uid0: u32, fresh_atoms: usize) -> Vec<Item> {
    let mut items = Vec::new();
    let mut seq_id: u64 = 1000 + uid0 as u64 * 100;
    for k in 0..n_valid {
        let uid = uid0 + k as u32 * 2;
        if rng.chance(1, 4) {
            items.push(Item::Tick);
        }
        if with_junk && rng.chance(1, 3) {
            let j: (&'static str, Vec<u8>) = match rng.below(14) {
                // a frame whose distribution header is fine and carries cache entries (which the sender now
                // considers installed) but whose terms cannot be decoded
                12 | 13 if mode != Mode::PassThrough => ("good-header-then-undecodable-terms", {
                    let atoms: Vec<String> = vec!["uid".into(), "peer@127.0.0.1".into(), "rust@127.0.0.1".into(), "killed".into(), format!("fresh{}", uid), "some_name".into()];
                    let space = *rng.pick(&[20usize, 300]);
                    let refs = plan_message(rng, sender, &atoms, 100, space);
                    let control = control_of_kind(2, uid).0;
                    let mut msg = write_message(&refs, &[&control]);
                    match rng.below(3) {
                        0 => {
                            // the control term loses its end
                            let n = msg.len();
                            msg.truncate(n - 3);
                        }
                        1 => {
                            // a payload nested beyond the limit
                            msg.push(131);
                            for _ in 0..300 {
                                msg.extend_from_slice(&[104, 1]);
                            }
                            msg.extend_from_slice(&[97, 7]);
                        }
                        _ => msg.extend_from_slice(&[131, 255, 1]),
                    }
                    msg
                }),
                9 => ("payload-nested-beyond-the-limit", {
                    let mut b = vec![112];
                    b.extend(ref_encode_canonical(&control_of_kind(1, 1).0).unwrap());
                    b.push(131);
                    for _ in 0..*rng.pick(&[257usize, 300, 2000]) {
                        b.extend_from_slice(&[104, 1]);
                    }
                    b.extend_from_slice(&[97, 7]);
                    b
                }),
                10 => ("payload-truncated-inside-deep-nesting", {
                    let mut b = vec![112];
                    b.extend(ref_encode_canonical(&control_of_kind(1, 1).0).unwrap());
                    b.push(131);
                    for _ in 0..20 + rng.below(220) {
                        b.extend_from_slice(if rng.bool() { &[104, 1][..] } else { &[108, 0, 0, 0, 1][..] });
                    }
                    b
                }),
                11 => ("bad-tag-inside-nesting", {
                    let mut b = vec![112];
                    b.extend(ref_encode_canonical(&control_of_kind(1, 1).0).unwrap());
                    b.push(131);
                    for _ in 0..10 + rng.below(100) {
                        b.extend_from_slice(&[104, 2, 97, 1]);
                    }
                    b.extend_from_slice(&[255, 0, 1]);
                    b
                }),
                0 => ("random-bytes", {
                    let nb = 1 + rng.below(20);
                    let mut b = rng.bytes(nb);
                    b[0] = 3; // no known marker
                    b
                }),
                1 => ("truncated-term", vec![112, 131, 104, 3, 97, 2]),
                2 => ("bad-tag-in-control", vec![112, 131, 255, 1, 2]),
                3 => ("wrong-marker", vec![99, 131, 104, 0]),
                4 => ("control-not-a-tuple", vec![112, 131, 97, 5]),
                5 => ("bad-payload", {
                    let mut b = vec![112];
                    b.extend(ref_encode_canonical(&control_of_kind(1, 1).0).unwrap());
                    b.extend_from_slice(&[131, 108, 0, 0, 0, 9, 97]);
                    b
                }),
                6 if mode != Mode::PassThrough => ("dist-header-refs-without-data", vec![131, 68, 5, 0, 0, 0]),
                7 if mode == Mode::Fragments => ("fragment-header-short-remainder", {
                    seq_id += 1;
                    let mut b = vec![131, 69];
                    b.extend_from_slice(&seq_id.to_be_bytes());
                    b.extend_from_slice(&1u64.to_be_bytes());
                    b.push(200); // claims 200 atom cache refs
                    b.extend_from_slice(&[1, 2, 3]);
                    b
                }),
                8 if mode == Mode::Fragments => ("fragment-cont-for-unknown-sequence-then-bad-header", {
                    seq_id += 1;
                    let mut b = vec![131, 69];
                    b.extend_from_slice(&seq_id.to_be_bytes());
                    b.extend_from_slice(&0u64.to_be_bytes()); // fragment id 0
                    b.push(0);
                    b
                }),
                _ => ("empty-control-tuple", vec![112, 131, 104, 0]),
            };
            items.push(Item::Junk(j.0, j.1));
        }
        let (control, has_payload, kind) = control_of_kind(rng.below(28), uid);
        let size = *rng.pick(&[0usize, 3, 300, 70_000]);
        let payload = if has_payload { Some(payload_val(rng, uid, size)) } else { None };
        // a connection that lives long keeps learning atoms: every message brings names nobody has sent before
        let payload = match payload {
            Some(p) if fresh_atoms > 0 => Some(Val::Tuple(vec![p, Val::Tuple((0..fresh_atoms).map(|i| Val::atom(&format!("fresh_{}_{}", uid, i))).collect())])),
            other => other,
        };
        let form_choice = match mode {
            Mode::PassThrough => 0,
            Mode::DistHeader => {
                if rng.chance(1, 4) { 0 } else { 1 }
            }
            Mode::Fragments => rng.below(4), // 0 pass-through, 1 header, 2 one fragment, 3 several fragments
        };
        let mut frames: Vec<Vec<u8>> = Vec::new();
        let form: String;
        if form_choice == 0 {
            let mut b = vec![112u8];
            b.extend(ref_encode_canonical(&control).unwrap());
            if let Some(p) = &payload {
                b.extend(ref_encode_canonical(p).unwrap());
            }
            frames.push(b);
            form = "pass-through".into();
        } else {
            let mut atoms = Vec::new();
            collect_atoms(&control, &mut atoms);
            if let Some(p) = &payload {
                collect_atoms(p, &mut atoms);
            }
            let space = if fresh_atoms > 0 { 2048 } else { *rng.pick(&[20usize, 300, 2048]) };
            let refs = plan_message(rng, sender, &atoms, 80, space);
            let mut terms: Vec<&Val> = vec![&control];
            if let Some(p) = &payload {
                terms.push(p);
            }
            let msg = write_message(&refs, &terms);
            if form_choice == 1 {
                frames.push(msg);
                form = "dist-header".into();
            } else {
                // fragment: body = msg[2..] (NumberOfAtomCacheRefs onwards); the first fragment holds the whole header part
                let body = &msg[2..];
                let header_len = {
                    let mut rc = crate::refmodel::dist::ReceiverCache::default();
                    // offset of the first term minus the two leading bytes; new entries carry their text, old
                    // ones are resolved from a scratch cache that knows nothing, so compute structurally instead
                    let n = refs.len();
                    let mut off = 1;
                    if n > 0 {
                        off += n / 2 + 1;
                        let long = refs.iter().any(|r| r.new_entry && r.atom.len() > 255);
                        for r in &refs {
                            off += 1;
                            if r.new_entry {
                                off += if long { 2 } else { 1 } + r.atom.len();
                            }
                        }
                    }
                    let _ = &mut rc;
                    off
                };
                let nfrag = if form_choice == 2 { 1 } else { 2 + rng.below(4) };
                let mut cuts: Vec<usize> = (1..nfrag).map(|_| header_len + rng.below(body.len() - header_len + 1)).collect();
                cuts.sort();
                seq_id += 1;
                let mut prev = 0usize;
                for f in 0..nfrag {
                    let end = if f < cuts.len() { cuts[f] } else { body.len() };
                    let id = (nfrag - f) as u64;
                    let mut b = vec![131u8, if f == 0 { 69 } else { 70 }];
                    b.extend_from_slice(&seq_id.to_be_bytes());
                    b.extend_from_slice(&id.to_be_bytes());
                    b.extend_from_slice(&body[prev..end]);
                    frames.push(b);
                    prev = end;
                }
                form = if nfrag == 1 { "fragmented:n=1".into() } else { "fragmented:n>=2".into() };
            }
        }
        items.push(Item::Valid(Sent { uid, control, payload, kind, form }, frames));
    }
    items
}

pub struct Outcome {
    pub results: Vec<Result<(Val, Option<Val>), String>>,
    pub panicked: Option<String>,
    pub connect_error: Option<String>,
}

/// One scenario: handshake, the peer writes the frames (randomly sliced), the client reads until
/// it saw the sentinel, the stream ended, or it ran out of patience.
pub(crate) async fn scenario(epmd: &net::EpmdTable, name: &str, own_flags: u64, peer_flags: u64, stream_bytes: Vec<u8>, cuts: Vec<usize>, max_reads: usize) -> Outcome {
    let pl = net::listen_as(epmd, name).await;
    let peer_task = tokio::spawn(async move {
        let mut peer = match pl.accept("cookie", peer_flags, 0x4242_4242).await {
            Ok(p) => p,
            Err(_) => return,
        };
        if peer.handshake().await.is_err() {
            return;
        }
        let _ = peer.write_sliced(&stream_bytes, &cuts).await;
        // leave the socket open long enough for the client to drain it
        tokio::time::sleep(Duration::from_millis(300)).await;
    });
    let cfg = ConnectionConfig::new("rust@127.0.0.1", format!("{}@127.0.0.1", name), "cookie")
        .with_epmd_host("127.0.0.1")
        .with_flags(DistributionFlags::new(own_flags))
        .with_timeout(Duration::from_millis(1500));
    let client = tokio::spawn(async move {
        let mut conn = Connection::new(cfg);
        if let Err(e) = conn.connect().await {
            return (vec![], Some(e.to_string()));
        }
        let mut out: Vec<Result<(Val, Option<Val>), String>> = Vec::new();
        for _ in 0..max_reads {
            match conn.receive_message().await {
                Ok((c, p)) => {
                    let cv = val_of(&c.to_term());
                    let end = matches!(&p, Some(t) if t.is_atom_with_name("$end$"));
                    out.push(Ok((cv, p.as_ref().map(val_of))));
                    if end {
                        break;
                    }
                }
                Err(e) => {
                    let s = e.to_string();
                    let fatal = s.contains("timeout") || s.contains("eof") || s.contains("Connection reset") || s.contains("Broken pipe") || s.contains("closed");
                    out.push(Err(s));
                    if fatal {
                        break;
                    }
                }
            }
        }
        (out, None)
    });
    let joined = tokio::time::timeout(Duration::from_secs(30), client).await;
    peer_task.abort();
    match joined {
        Err(_) => Outcome { results: vec![], panicked: Some("watchdog: the receiving task did not finish within 30 s".into()), connect_error: None },
        Ok(Err(e)) => Outcome { results: vec![], panicked: Some(e.to_string()), connect_error: None },
        Ok(Ok((results, connect_error))) => Outcome { results, panicked: None, connect_error },
    }
}

/// One connection object, two connections: what the first peer left unfinished (a fragmented message cut off by the
/// close, cache entries) must not leak into what the second peer - a fresh node that starts its own numbering and its
/// own cache - sends over the second connection.
async fn second_connection(ctx: &Ctx, rng: &mut Rng, epmd: &net::EpmdTable, h: usize) {
    ctx.beat(&format!("second-connection/{}", h));
    let name = format!("sc{}", h);
    let own = DistributionFlags::default().as_u64() | FLAG_DIST_HDR_ATOM_CACHE | FLAG_FRAGMENTS;
    let cfg = ConnectionConfig::new("rust@127.0.0.1", format!("{}@127.0.0.1", name), "cookie").with_epmd_host("127.0.0.1").with_flags(DistributionFlags::new(own)).with_timeout(Duration::from_millis(1500));
    let mut conn = Connection::new(cfg);
    let seq: u64 = *rng.pick(&[1u64, 2, 0x77]);
    let fragments_of = |payload: &Val, refs: &[crate::refmodel::dist::AtomRef], nfrag: usize| -> Vec<Vec<u8>> {
        let control = control_of_kind(2, 5_000_000 + h as u32).0;
        let msg = write_message(refs, &[&control, payload]);
        let body = msg[2..].to_vec();
        // the first fragment carries the whole header part; cut behind it
        let header_len = body.len().min(1 + if refs.is_empty() { 0 } else { refs.len() / 2 + 1 + refs.iter().map(|r| 1 + if r.new_entry { 1 + r.atom.len() } else { 0 }).sum::<usize>() });
        let mut frames = Vec::new();
        let mut prev = 0usize;
        for f in 0..nfrag {
            let end = if f + 1 == nfrag { body.len() } else { header_len + (body.len() - header_len) * (f + 1) / nfrag };
            let mut b = vec![131u8, if f == 0 { 69 } else { 70 }];
            b.extend_from_slice(&seq.to_be_bytes());
            b.extend_from_slice(&((nfrag - f) as u64).to_be_bytes());
            b.extend_from_slice(&body[prev..end]);
            frames.push(b);
            prev = end;
        }
        frames
    };
    let r = |a: &str, i: u8, new_entry: bool| crate::refmodel::dist::AtomRef { atom: a.to_string(), segment: 0, internal: i, new_entry };
    // first life: a complete message that fills cache slots 0 and 1, then a fragmented one of which only the beginning arrives
    let first_payload = Val::Tuple(vec![Val::atom("old_a"), Val::atom("old_b"), Val::int(1)]);
    let unfinished_payload = Val::Tuple(vec![Val::atom("old_a"), Val::binary(&vec![0x11; 300])]);
    let nfrag_old = 2 + rng.below(3);
    let mut first_stream: Vec<u8> = Vec::new();
    first_stream.extend(frame(&write_message(&[r("old_a", 0, true), r("old_b", 1, true)], &[&control_of_kind(2, 1).0, &first_payload])));
    let old_frames = fragments_of(&unfinished_payload, &[r("old_a", 0, false)], nfrag_old);
    // (every fourth time nothing is left unfinished: the control for this scenario's own fragmenting)
    let sent_old = if h % 4 == 3 { 0 } else { 1 + rng.below(nfrag_old - 1) };
    for f in old_frames.iter().take(sent_old) {
        first_stream.extend(frame(f));
    }
    let pl = net::listen_as(epmd, &name).await;
    let peer1 = tokio::spawn(async move {
        let Ok(mut peer) = pl.accept("cookie", PEER_BASE_FLAGS | FLAG_DIST_HDR_ATOM_CACHE | FLAG_FRAGMENTS, 0x4242_4244).await else { return };
        if peer.handshake().await.is_err() {
            return;
        }
        let _ = peer.sock_write(&first_stream).await;
        tokio::time::sleep(Duration::from_millis(150)).await;
    });
    if let Err(e) = conn.connect().await {
        ctx.inconclusive(&format!("first handshake failed: {}", e));
        peer1.abort();
        return;
    }
    let first_ok = matches!(conn.receive_message().await, Ok((_, Some(p))) if val_of(&p).same(&first_payload));
    // the rest of the first life: the peer goes away in the middle of the fragmented message
    let _ = tokio::time::timeout(Duration::from_secs(3), conn.receive_message()).await;
    let _ = conn.close().await;
    peer1.abort();
    if !first_ok {
        ctx.inconclusive("the first connection did not deliver its complete message");
        return;
    }
    // second life: a fresh peer; same sequence id, same cache slots, other atoms, another fragment count
    let nfrag_new = 2 + rng.below(3);
    let new_payload = Val::Tuple(vec![Val::atom("new_a"), Val::atom("new_b"), Val::binary(&vec![0x22; 200 + rng.below(200)])]);
    let new_frames = fragments_of(&new_payload, &[r("new_a", 0, true), r("new_b", 1, true)], nfrag_new);
    let plain_payload = Val::Tuple(vec![Val::atom("new_b"), Val::atom("new_a")]);
    let mut second_stream: Vec<u8> = Vec::new();
    for f in &new_frames {
        second_stream.extend(frame(f));
    }
    second_stream.extend(frame(&write_message(&[r("new_b", 1, false), r("new_a", 0, false)], &[&control_of_kind(2, 2).0, &plain_payload])));
    let pl = net::listen_as(epmd, &name).await;
    let peer2 = tokio::spawn(async move {
        let Ok(mut peer) = pl.accept("cookie", PEER_BASE_FLAGS | FLAG_DIST_HDR_ATOM_CACHE | FLAG_FRAGMENTS, 0x4242_4245).await else { return };
        if peer.handshake().await.is_err() {
            return;
        }
        let _ = peer.sock_write(&second_stream).await;
        tokio::time::sleep(Duration::from_millis(400)).await;
    });
    if let Err(e) = conn.connect().await {
        ctx.viol("C06:second-connection:handshake-failed", "a connection object that had been connected and closed could not connect again", json!({"history": h, "error": e.to_string()}));
        peer2.abort();
        return;
    }
    let mut got: Vec<String> = Vec::new();
    let mut ok = true;
    for want in [&new_payload, &plain_payload] {
        match tokio::time::timeout(Duration::from_secs(3), conn.receive_message()).await {
            Ok(Ok((_, Some(p)))) if val_of(&p).same(want) => got.push("as sent".into()),
            Ok(Ok((_, p))) => {
                ok = false;
                got.push(format!("another message: {}", p.as_ref().map(|x| val_of(x).show().chars().take(80).collect::<String>()).unwrap_or_default()));
            }
            Ok(Err(e)) => {
                ok = false;
                got.push(format!("error: {}", e));
            }
            Err(_) => {
                ok = false;
                got.push("nothing within 3 s".into());
                break;
            }
        }
    }
    peer2.abort();
    ctx.eval(2);
    ctx.class(&format!("second-connection/{}of{}-fragments-left-behind/{}-fragments-now", sent_old, nfrag_old, nfrag_new));
    if !ok {
        ctx.viol(
            "C06:second-connection:what-the-first-left-behind-leaks",
            "messages a fresh peer sent over the second connection of a connection object were not returned as sent (the first connection ended in the middle of a fragmented message under the same sequence id / had filled the same cache slots)",
            json!({"history": h, "sequence_id": seq, "first_connection": format!("{} of {} fragments arrived before it ended", sent_old, nfrag_old), "second_connection_fragments": nfrag_new, "returned": got}),
        );
    }
}

/// Receives that the caller gives up while the connection is idle (a `select!` arm that loses, a poll with its own
/// short deadline): nothing had arrived, so nothing may be lost - what the peer sends afterwards is delivered.
async fn abandoned_receives(ctx: &Ctx, rng: &mut Rng, epmd: &net::EpmdTable, h: usize) {
    ctx.beat(&format!("abandoned-receives/{}", h));
    let name = format!("ar{}", h);
    let pl = net::listen_as(epmd, &name).await;
    let go = std::sync::Arc::new(tokio::sync::Notify::new());
    let go2 = go.clone();
    let nmsg = 2 + rng.below(3);
    let payloads: Vec<Val> = (0..nmsg).map(|i| Val::Tuple(vec![Val::atom("after_a_pause"), Val::int(h as i128 * 10 + i as i128)])).collect();
    let to_send = payloads.clone();
    let peer_task = tokio::spawn(async move {
        let Ok(mut peer) = pl.accept("cookie", PEER_BASE_FLAGS, 0x4242_4246).await else { return };
        if peer.handshake().await.is_err() {
            return;
        }
        for p in &to_send {
            // each message goes out only after the client has said that its abandoned receives are over
            go2.notified().await;
            let mut b = vec![112u8];
            b.extend(ref_encode_canonical(&control_of_kind(2, 1).0).unwrap());
            b.extend(ref_encode_canonical(p).unwrap());
            let _ = peer.write_frame4(&b).await;
        }
        tokio::time::sleep(Duration::from_millis(300)).await;
    });
    let cfg = ConnectionConfig::new("rust@127.0.0.1", format!("{}@127.0.0.1", name), "cookie").with_epmd_host("127.0.0.1").with_timeout(Duration::from_millis(1500));
    let mut conn = Connection::new(cfg);
    if let Err(e) = conn.connect().await {
        ctx.inconclusive(&format!("handshake with the scripted peer failed: {}", e));
        peer_task.abort();
        return;
    }
    let mut abandoned = 0usize;
    let mut results: Vec<String> = Vec::new();
    let mut ok = true;
    for want in &payloads {
        for _ in 0..1 + rng.below(3) {
            // the peer is waiting for the go-ahead: the connection is idle, this receive cannot have read anything
            let raw = rng.bool();
            let gave_up = if raw { tokio::time::timeout(Duration::from_millis(30), conn.receive_raw()).await.is_err() } else { tokio::time::timeout(Duration::from_millis(30), conn.receive_message()).await.is_err() };
            if gave_up {
                abandoned += 1;
            }
        }
        go.notify_one();
        match tokio::time::timeout(Duration::from_secs(3), conn.receive_message()).await {
            Ok(Ok((_, Some(p)))) if val_of(&p).same(want) => results.push("delivered".into()),
            Ok(Ok((_, p))) => {
                ok = false;
                results.push(format!("another message: {:?}", p.map(|x| val_of(&x).show())));
                break;
            }
            Ok(Err(e)) => {
                ok = false;
                results.push(format!("error: {}", e));
                break;
            }
            Err(_) => {
                ok = false;
                results.push("nothing within 3 s".into());
                break;
            }
        }
    }
    peer_task.abort();
    ctx.eval(nmsg as u64);
    ctx.class(&format!("abandoned-receives/{}messages/{}abandoned", nmsg, abandoned.min(6)));
    if !ok {
        ctx.viol(
            "C06:lost-after-an-abandoned-idle-receive",
            "a message sent after the caller had given up a receive on the idle connection was not returned",
            json!({"history": h, "receives_given_up_while_idle": abandoned, "results": results}),
        );
    }
}

/// A fragmented message whose fragments arrive slowly: the gaps between them add up to several times the connection's
/// timeout, bridged by ticks that each arrive well inside it (a live peer that is busy). The message must be delivered.
/// Judged only when the peer's writes really stayed within the intended spacing.
async fn slow_fragments(ctx: &Ctx, rng: &mut Rng, epmd: &net::EpmdTable, h: usize) {
    ctx.beat(&format!("slow-fragments/{}", h));
    let name = format!("sf{}", h);
    let pl = net::listen_as(epmd, &name).await;
    let conn_timeout = Duration::from_millis(300);
    let control = control_of_kind(2, 4_000_000 + h as u32).0;
    let payload = Val::Tuple(vec![Val::atom("slow"), Val::int(h as i128), Val::binary(&vec![0x6b; 40 + rng.below(200)])]);
    let msg = crate::refmodel::dist::write_message(&[], &[&control, &payload]);
    let body = msg[2..].to_vec();
    let nfrag = 2 + rng.below(3);
    let mut cuts: Vec<usize> = (1..nfrag).map(|_| 1 + rng.below(body.len() - 1)).collect();
    cuts.sort();
    let seq: u64 = 0x510_0000 + h as u64;
    let mut frames: Vec<Vec<u8>> = Vec::new();
    let mut prev = 0usize;
    for f in 0..nfrag {
        let end = if f < cuts.len() { cuts[f] } else { body.len() };
        let mut b = vec![131u8, if f == 0 { 69 } else { 70 }];
        b.extend_from_slice(&seq.to_be_bytes());
        b.extend_from_slice(&((nfrag - f) as u64).to_be_bytes());
        b.extend_from_slice(&body[prev..end]);
        frames.push(b);
        prev = end;
    }
    let mut end = vec![112u8];
    end.extend(ref_encode_canonical(&control_of_kind(1, 9_999_999).0).unwrap());
    end.extend(ref_encode_canonical(&Val::atom("$end$")).unwrap());
    let ticks_between = 4 + rng.below(6); // 0.4 .. 0.9 s between two fragments, timeout 0.3 s
    let peer_task = tokio::spawn(async move {
        let mut worst = Duration::ZERO;
        let Ok(mut peer) = pl.accept("cookie", PEER_BASE_FLAGS | FLAG_DIST_HDR_ATOM_CACHE | FLAG_FRAGMENTS, 0x4242_4243).await else { return None };
        if peer.handshake().await.is_err() {
            return None;
        }
        let mut last = Instant::now();
        for (i, f) in frames.iter().enumerate() {
            if i > 0 {
                for _ in 0..ticks_between {
                    tokio::time::sleep(Duration::from_millis(100)).await;
                    worst = worst.max(last.elapsed());
                    let _ = peer.sock_write(&[0, 0, 0, 0]).await;
                    last = Instant::now();
                }
            }
            worst = worst.max(last.elapsed());
            let _ = peer.write_frame4(f).await;
            last = Instant::now();
        }
        let _ = peer.write_frame4(&end).await;
        tokio::time::sleep(Duration::from_millis(400)).await;
        Some(worst)
    });
    let own = DistributionFlags::default().as_u64() | FLAG_DIST_HDR_ATOM_CACHE | FLAG_FRAGMENTS;
    let cfg = ConnectionConfig::new("rust@127.0.0.1", format!("{}@127.0.0.1", name), "cookie").with_epmd_host("127.0.0.1").with_flags(DistributionFlags::new(own)).with_timeout(conn_timeout);
    let mut conn = Connection::new(cfg);
    if let Err(e) = conn.connect().await {
        ctx.inconclusive(&format!("handshake with the scripted peer failed: {}", e));
        peer_task.abort();
        return;
    }
    let mut results: Vec<Result<Option<Val>, String>> = Vec::new();
    let watchdog = Instant::now();
    while watchdog.elapsed() < Duration::from_secs(20) {
        match conn.receive_message().await {
            Ok((_, p)) => {
                let end = matches!(&p, Some(t) if t.is_atom_with_name("$end$"));
                results.push(Ok(p.as_ref().map(val_of)));
                if end {
                    break;
                }
            }
            Err(e) => {
                results.push(Err(e.to_string()));
                break;
            }
        }
    }
    let worst = tokio::time::timeout(Duration::from_secs(5), peer_task).await.ok().and_then(|r| r.ok()).flatten();
    ctx.eval(1);
    ctx.class(&format!("slow-fragments/{}fragments/{}ticks-between", nfrag, ticks_between));
    match worst {
        Some(w) if w < Duration::from_millis(250) => {
            let delivered = matches!(results.first(), Some(Ok(Some(p))) if p.same(&payload));
            let ended = matches!(results.get(1), Some(Ok(Some(Val::Atom(a)))) if a == "$end$");
            if !delivered || !ended {
                ctx.viol(
                    "C06:lost-or-altered:fragments-arriving-slowly-between-ticks",
                    "a fragmented message whose fragments arrived further apart than the connection's timeout, with ticks in between, was not returned",
                    json!({"history": h, "fragments": nfrag, "ticks_between_fragments": ticks_between, "connection_timeout_ms": conn_timeout.as_millis() as u64, "longest_gap_between_the_peers_writes_ms": w.as_millis() as u64, "returned": results.iter().map(|r| match r { Ok(p) => p.as_ref().map(|x| x.show().chars().take(60).collect::<String>()).unwrap_or_else(|| "no payload".into()), Err(e) => format!("error: {}", e) }).collect::<Vec<_>>()}),
                );
            }
            ctx.count("slow_fragment_histories_judged", 1);
        }
        _ => ctx.count("slow_fragment_histories_not_judged(peer_writes_too_far_apart)", 1),
    }
}

pub(crate) fn frame(body: &[u8]) -> Vec<u8> {
    let mut v = (body.len() as u32).to_be_bytes().to_vec();
    v.extend_from_slice(body);
    v
}

#[derive(Clone, Copy, Debug, PartialEq)]
enum Step {
    Msg,
    MsgInPieces,
    Tick,
    LongSilence,
    ShortSilence,
}

/// The node's receive loop (`receive_message_from_read_half`, timeout given by the caller) against a peer that
/// conforms but is slow: ticks, silences longer than the timeout between frames (an idle link is not an error),
/// and frames that arrive in pieces with pauses well below the timeout. Every call must return the next message.
async fn read_half_timeline(ctx: &Ctx, seed: u64, id: usize) {
    use tokio::io::AsyncWriteExt;
    let mut rng = Rng::new(seed);
    let timeout = Duration::from_millis(400);
    let pause = Duration::from_millis(50);
    let long = Duration::from_millis(900);
    let mut steps: Vec<Step> = vec![Step::Msg];
    let mut longs = 0;
    for _ in 0..6 + rng.below(6) {
        let st = *rng.pick(&[Step::Msg, Step::MsgInPieces, Step::MsgInPieces, Step::Tick, Step::Tick, Step::LongSilence, Step::ShortSilence]);
        if st == Step::LongSilence {
            if longs >= 3 {
                continue;
            }
            longs += 1;
        }
        steps.push(st);
    }
    steps.push(Step::MsgInPieces);
    let listener = match tokio::net::TcpListener::bind("127.0.0.1:0").await {
        Ok(l) => l,
        Err(e) => {
            ctx.inconclusive(&format!("cannot bind loopback: {}", e));
            return;
        }
    };
    let addr = listener.local_addr().unwrap();
    let script = steps.clone();
    let slowest = std::sync::Arc::new(std::sync::Mutex::new(Duration::ZERO));
    let slowest2 = slowest.clone();
    let peer = tokio::spawn(async move {
        let (mut sock, _) = listener.accept().await.unwrap();
        let _ = sock.set_nodelay(true);
        let mut n = 0u32;
        for st in script {
            match st {
                Step::Tick => {
                    let _ = sock.write_all(&[0, 0, 0, 0]).await;
                }
                Step::LongSilence => tokio::time::sleep(long).await,
                Step::ShortSilence => tokio::time::sleep(pause).await,
                Step::Msg | Step::MsgInPieces => {
                    n += 1;
                    let mut body = vec![112u8];
                    body.extend(ref_encode_canonical(&control_of_kind(1, id as u32 * 100 + n).0).unwrap());
                    body.extend(ref_encode_canonical(&Val::Tuple(vec![Val::atom("n"), Val::int(n as i128), Val::binary(&vec![7u8; 300])])).unwrap());
                    let f = frame(&body);
                    if st == Step::Msg {
                        let _ = sock.write_all(&f).await;
                    } else {
                        // length prefix split, then the body in two parts
                        for (a, b) in [(0usize, 2usize), (2, 4), (4, 4 + body.len() / 2), (4 + body.len() / 2, f.len())] {
                            let t0 = Instant::now();
                            let _ = sock.write_all(&f[a..b]).await;
                            let _ = sock.flush().await;
                            if b < f.len() {
                                tokio::time::sleep(pause).await;
                            }
                            let d = t0.elapsed();
                            let mut s = slowest2.lock().unwrap();
                            if d > *s {
                                *s = d;
                            }
                        }
                    }
                }
            }
            let _ = sock.flush().await;
        }
        tokio::time::sleep(Duration::from_millis(300)).await;
        n
    });
    let Ok(client) = tokio::net::TcpStream::connect(addr).await else {
        ctx.inconclusive("cannot connect to loopback peer");
        return;
    };
    let (mut rh, _wh) = client.into_split();
    let expected = steps.iter().filter(|s| matches!(s, Step::Msg | Step::MsgInPieces)).count();
    let mut verdict: Option<(String, String)> = None;
    let mut got = 0usize;
    while got < expected {
        let r = tokio::time::timeout(Duration::from_secs(20), edp_client::Connection::receive_message_from_read_half(&mut rh, timeout)).await;
        ctx.eval(1);
        match r {
            Ok(Ok((_c, Some(p)))) => {
                got += 1;
                let ok = matches!(val_of(&p), Val::Tuple(t) if t.get(1) == Some(&Val::int(got as i128)));
                if !ok {
                    verdict = Some(("wrong-message".into(), format!("message {} expected, got {}", got, val_of(&p).show())));
                    break;
                }
            }
            Ok(Ok((c, None))) => {
                verdict = Some(("wrong-message".into(), format!("a message without payload was returned: {:?}", c)));
                break;
            }
            Ok(Err(e)) => {
                // which steps preceded message number got+1 ?
                let mut seen = 0usize;
                let mut before: Vec<String> = Vec::new();
                for st in &steps {
                    if matches!(st, Step::Msg | Step::MsgInPieces) {
                        if seen == got {
                            before.push(format!("{:?}", st));
                            break;
                        }
                        seen += 1;
                        before.clear();
                    } else if seen == got {
                        before.push(format!("{:?}", st));
                    }
                }
                // cause class: what kinds of steps lay between the previous message and this one
                let mut kinds: Vec<String> = before.clone();
                kinds.sort();
                kinds.dedup();
                verdict = Some((format!("error:{}", kinds.join("+")), e.to_string()));
                break;
            }
            Err(_) => {
                verdict = Some(("stall".into(), "no result within 20 s".into()));
                break;
            }
        }
    }
    let _ = peer.await;
    let slow = *slowest.lock().unwrap();
    ctx.class(&format!("read-half-timeline/{}", steps.iter().map(|s| match s { Step::Msg => 'M', Step::MsgInPieces => 'P', Step::Tick => 't', Step::LongSilence => 'S', Step::ShortSilence => 's' }).collect::<String>()));
    if let Some((cause, detail)) = verdict {
        if slow > timeout / 2 {
            ctx.count("read_half_timelines_not_judged_machine_too_slow", 1);
            return;
        }
        ctx.viol(
            &format!("C06:read-half:{}", cause),
            "the node's receive loop did not return the next message of a conforming (slow, ticking) peer",
            json!({"timeline": steps.iter().map(|s| format!("{:?}", s)).collect::<Vec<_>>(), "messages_returned_before": got, "detail": detail, "timeout_ms": timeout.as_millis() as u64, "slowest_piece_ms": slow.as_millis() as u64}),
        );
    } else {
        ctx.count("read_half_timelines_completed", 1);
    }
}

pub fn run(ctx: &Ctx) {
    ctx.rule("cases = peer histories after a real handshake under three negotiated flag sets (pass-through only; + DIST_HDR_ATOM_CACHE; + FRAGMENTS): every control-message kind, payloads from a few bytes to 70 kB, distribution headers from the atom-cache sender model, legal fragmentations into 1..5 fragments, long-lived connections that learn atoms in more than 256 cache slots over all segments, ticks, and junk frames (random bytes, truncated terms, wrong markers, non-tuples, bad payloads, fragment headers with inconsistent counts) at random positions, also between the fragments of an open sequence and claiming to belong to it (fragment id 0, = count, > count), TCP writes sliced randomly; the sequence of values returned by Connection::receive_message is compared with the sequence of valid messages sent; plus one connection object over two connections (the first ending in the middle of a fragmented message, the second peer re-using sequence ids and cache slots); plus receives the caller gives up while the connection is idle, followed by messages; plus fragmented messages whose fragments arrive further apart than the connection's timeout with ticks in between (judged when the peer's writes kept their spacing); plus slow-peer timelines for Connection::receive_message_from_read_half (ticks, silences longer than the caller's timeout between frames, frames arriving in pieces with short pauses): every call must return the next message; evaluations = messages and junk frames judged; distinct = distinct (flag set, wire form, control kind, junk kind) combinations");
    ctx.assume("a history ends with a pass-through sentinel message; a receive that fails with timeout/EOF ends the history");
    let rt = tokio::runtime::Builder::new_current_thread().enable_all().build().expect("runtime");
    let mut rng = Rng::derive(ctx.seed, 6, 1);
    let epmd_owned = rt.block_on(net::start_epmd());
    let slow_done = std::sync::atomic::AtomicBool::new(false);
    std::thread::scope(|scope| {
    // the scenarios whose verdict depends on pauses keeping their length run on a thread (and runtime) of their own,
    // so that the processor-heavy histories below cannot stretch their timers; they share the one EPMD table
    {
        let epmd = epmd_owned.clone();
        let slow_done = &slow_done;
        scope.spawn(move || {
            let rt2 = tokio::runtime::Builder::new_current_thread().enable_all().build().expect("runtime");
            rt2.block_on(async {
                let mut srng = Rng::derive(ctx.seed, 6, 77);
                for h in 0..ctx.pick(4usize, 60usize) {
                    if !ctx.time_left() {
                        break;
                    }
                    slow_fragments(ctx, &mut srng, &epmd, h).await;
                    for k in 0..3 {
                        second_connection(ctx, &mut srng, &epmd, h * 3 + k).await;
                        abandoned_receives(ctx, &mut srng, &epmd, h * 3 + k).await;
                    }
                }
            });
            slow_done.store(true, std::sync::atomic::Ordering::Release);
        });
    }
    rt.block_on(async {
        // slow-peer timelines for the node's receive loop run concurrently with the histories below
        let timelines: Vec<std::pin::Pin<Box<dyn std::future::Future<Output = ()> + '_>>> =
            (0..ctx.pick(10usize, 80usize)).map(|i| Box::pin(read_half_timeline(ctx, ctx.seed.wrapping_mul(1000).wrapping_add(i as u64 + 6), i)) as std::pin::Pin<Box<dyn std::future::Future<Output = ()> + '_>>).collect();
        let timelines = super::common::join_all(timelines);
        let epmd = &epmd_owned;
        // the fake EPMD lives on this runtime: keep driving it until the other thread is through
        let slow = async {
            while !slow_done.load(std::sync::atomic::Ordering::Acquire) {
                tokio::time::sleep(Duration::from_millis(10)).await;
            }
        };
        let main_part = async {
        let histories = ctx.pick(240usize, 9000usize);
        for h in 0..histories {
            if !ctx.time_left() {
                break;
            }
            let mode = [Mode::PassThrough, Mode::DistHeader, Mode::Fragments][h % 3];
            ctx.beat(&format!("history/{}", h));
            let own_flags = DistributionFlags::default().as_u64() | match mode {
                Mode::PassThrough => 0,
                Mode::DistHeader => FLAG_DIST_HDR_ATOM_CACHE,
                Mode::Fragments => FLAG_DIST_HDR_ATOM_CACHE | FLAG_FRAGMENTS,
            };
            let own_flags = if mode == Mode::PassThrough { own_flags & !FLAG_FRAGMENTS } else { own_flags };
            let peer_flags = PEER_BASE_FLAGS | FLAG_DIST_HDR_ATOM_CACHE | FLAG_FRAGMENTS;
            let mut sender = SenderCache::default();
            // every eighth history is a connection that lives long enough to learn atoms in more slots than one
            // cache segment has (90 messages x 12 new names over all eight segments)
            let long_lived = (h % 8 == 6 || h % 8 == 4) && mode != Mode::PassThrough;
            let n_valid = if long_lived { 90 } else { 2 + rng.below(10) };
            let with_junk = h % 2 == 1;
            let items = build_items(&mut rng, mode, n_valid, with_junk, &mut sender, (h as u32) * 1000, if long_lived { 12 } else { 0 });
            if long_lived {
                ctx.class(&format!("{:?}/long-lived/{}-cache-slots-in-use", mode, if sender.slots.len() > 256 { ">256" } else { "<=256" }));
                ctx.extra("cache_slots_in_use_in_a_long_lived_history", json!(sender.slots.len()));
            }
            let mut stream: Vec<u8> = Vec::new();
            let mut expected: Vec<&Sent> = Vec::new();
            let mut junk_frames = 0usize;
            let mut frame_count = 0usize;
            let mut layout: Vec<String> = Vec::new();
            // fragments of two adjacent fragmented messages may be interleaved on the wire (each
            // sequence keeps its own order; the first one still completes first)
            let mut skip_next = false;
            for (ii, it) in items.iter().enumerate() {
                if skip_next {
                    skip_next = false;
                    continue;
                }
                if let (Item::Valid(a, fa), Some(Item::Valid(b, fb))) = (it, items.get(ii + 1)) {
                    if fa.len() >= 2 && fb.len() >= 2 && rng.chance(1, 2) {
                        let (mut ia, mut ib) = (0usize, 0usize);
                        while ia < fa.len() || ib < fb.len() {
                            if ia < fa.len() {
                                stream.extend(frame(&fa[ia]));
                                ia += 1;
                                frame_count += 1;
                            }
                            // hold back b's last fragment until a is complete
                            if ib < fb.len() && (ib + 1 < fb.len() || ia >= fa.len()) {
                                stream.extend(frame(&fb[ib]));
                                ib += 1;
                                frame_count += 1;
                            }
                        }
                        layout.push(format!("interleaved[{}:{}#{} | {}:{}#{}]", a.form, a.kind, a.uid, b.form, b.kind, b.uid));
                        expected.push(a);
                        expected.push(b);
                        ctx.class(&format!("{:?}/interleaved-sequences/{}+{}", mode, fa.len(), fb.len()));
                        skip_next = true;
                        continue;
                    }
                }
                match it {
                    Item::Tick => {
                        stream.extend_from_slice(&[0, 0, 0, 0]);
                        layout.push("tick".into());
                    }
                    Item::Junk(kind, b) => {
                        stream.extend(frame(b));
                        junk_frames += 1;
                        frame_count += 1;
                        layout.push(format!("junk:{}", kind));
                        ctx.class(&format!("{:?}/junk/{}", mode, kind));
                    }
                    Item::Valid(s, frames) => {
                        // malformed frames in the middle of an open fragmented sequence, some of them claiming to belong
                        // to that very sequence: each costs its own error, the sequence still completes
                        let embed = with_junk && frames.len() >= 2 && rng.chance(1, 2);
                        let mut embedded: Vec<&'static str> = Vec::new();
                        for (fi, f) in frames.iter().enumerate() {
                            if embed && fi >= 1 && rng.chance(2, 3) {
                                let seq = &frames[0][2..10];
                                let count = frames.len() as u64;
                                let cont = |id: u64, data: &[u8]| {
                                    let mut b = vec![131u8, 70];
                                    b.extend_from_slice(seq);
                                    b.extend_from_slice(&id.to_be_bytes());
                                    b.extend_from_slice(data);
                                    b
                                };
                                let (kind, body): (&'static str, Vec<u8>) = match rng.below(7) {
                                    0 => ("continuation-of-the-open-sequence-with-id-0", cont(0, &[1, 2, 3])),
                                    1 => ("continuation-of-the-open-sequence-with-id=count", cont(count, &[1, 2, 3])),
                                    2 => ("continuation-of-the-open-sequence-with-id>count", cont(*rng.pick(&[count + 1, 255, 1 << 32, u64::MAX]), &[])),
                                    3 => ("continuation-of-an-unknown-sequence-inside-an-open-one", {
                                        let mut b = cont(1, &[9]);
                                        b[9] ^= 0x55;
                                        b[2] ^= 0x55;
                                        b
                                    }),
                                    4 => ("continuation-header-cut-short-inside-an-open-sequence", cont(1, &[])[..2 + rng.below(16)].to_vec()),
                                    5 => ("random-bytes-inside-an-open-sequence", {
                                        let nb = 1 + rng.below(20);
                                        let mut b = rng.bytes(nb);
                                        b[0] = 3;
                                        b
                                    }),
                                    _ => ("truncated-term-inside-an-open-sequence", vec![112, 131, 104, 3, 97, 2]),
                                };
                                stream.extend(frame(&body));
                                junk_frames += 1;
                                frame_count += 1;
                                embedded.push(kind);
                                ctx.class(&format!("{:?}/junk/{}", mode, kind));
                            }
                            stream.extend(frame(f));
                            frame_count += 1;
                        }
                        if !embedded.is_empty() {
                            layout.push(format!("inside the next message's fragments: junk {:?}", embedded));
                        }
                        layout.push(format!("{}:{}#{}", s.form, s.kind, s.uid));
                        expected.push(s);
                        ctx.class(&format!("{:?}/{}/{}", mode, s.form, s.kind));
                    }
                }
            }
            // the history ends with a sentinel message - or with the peer dying in the middle of a frame: the frame's
            // length prefix announces more than ever arrives (cut right behind the prefix, right behind the control
            // term, or anywhere), then the socket closes. Nothing of that frame may be delivered.
            let dying = h % 5 == 4;
            let mut end = vec![112u8];
            let end_control = ref_encode_canonical(&control_of_kind(1, 9_999_999).0).unwrap();
            end.extend_from_slice(&end_control);
            end.extend(ref_encode_canonical(&Val::atom("$end$")).unwrap());
            if dying {
                let full = frame(&end);
                let cut = match rng.below(4) {
                    0 => 4,
                    1 | 2 => 4 + 1 + end_control.len(),
                    _ => 5 + rng.below(full.len() - 5),
                };
                stream.extend_from_slice(&full[..cut]);
                layout.push(format!("unfinished-frame(cut at {} of {})", cut, full.len()));
                ctx.class(&format!("{:?}/peer-dies-mid-frame/{}", mode, if cut == 4 { "after-prefix" } else if cut == 5 + end_control.len() { "after-control-term" } else { "elsewhere" }));
            } else {
                stream.extend(frame(&end));
            }
            let mut cuts: Vec<usize> = (0..rng.below(40)).map(|_| 1 + rng.below(stream.len() - 1)).collect();
            cuts.sort();
            cuts.dedup();
            let out = scenario(epmd, &format!("r{}", h), own_flags, peer_flags, stream.clone(), cuts, frame_count + 8).await;
            let wit = |d: serde_json::Value| json!({"history": h, "mode": format!("{:?}", mode), "frames": layout, "detail": d});
            if let Some(e) = &out.connect_error {
                ctx.inconclusive(&format!("handshake with the scripted peer failed: {}", e));
                continue;
            }
            if let Some(p) = &out.panicked {
                // attribute to the first junk kind / wire form not yet delivered
                let cause = layout.iter().find(|l| l.starts_with("junk:fragment") || l.starts_with("junk:dist")).cloned().unwrap_or_else(|| "unknown".into());
                ctx.viol(&format!("C06:panic:{}", cause), "the receiving task panicked (or never finished)", wit(json!({"panic": p})));
                continue;
            }
            ctx.eval((expected.len() + junk_frames) as u64);
            // compare the Ok results with the valid messages, in order
            let oks: Vec<&(Val, Option<Val>)> = out.results.iter().filter_map(|r| r.as_ref().ok()).collect();
            let errs = out.results.iter().filter(|r| r.is_err()).count();
            let fatal_tail = matches!(out.results.last(), Some(Err(_)));
            let mut i = 0usize;
            let mut broken = false;
            for s in &expected {
                let matches_msg = |got: &(Val, Option<Val>)| got.0.same(&s.control) && match (&got.1, &s.payload) {
                    (None, None) => true,
                    (Some(a), Some(b)) => a.same(b),
                    _ => false,
                };
                if i < oks.len() && matches_msg(oks[i]) {
                    i += 1;
                    continue;
                }
                // not delivered at its position: lost, altered, duplicated before, or out of order
                let later = oks.iter().skip(i).position(|g| matches_msg(g));
                let cause = if later.is_some() { "out-of-order-or-extra-before" } else { "lost-or-altered" };
                ctx.viol(
                    &format!("C06:{}:{}", cause, s.form),
                    "a valid message from the peer was not returned (intact, once, in order)",
                    wit(json!({"message": format!("{}#{}", s.kind, s.uid), "control": s.control.show(), "returned_instead": oks.get(i).map(|g| g.0.show()), "errors_seen": out.results.iter().filter_map(|r| r.as_ref().err()).take(4).collect::<Vec<_>>()})),
                );
                broken = true;
                break;
            }
            if !broken {
                // everything expected arrived; then only the sentinel may follow
                let rest = &oks[i..];
                if dying {
                    if !rest.is_empty() {
                        ctx.viol(
                            "C06:message-from-an-unfinished-frame",
                            "the peer closed the stream in the middle of a frame, yet a message was returned for it",
                            wit(json!({"returned": rest.iter().map(|g| format!("{} / {:?}", g.0.show(), g.1.as_ref().map(|x| x.show()))).collect::<Vec<_>>()})),
                        );
                    } else if !fatal_tail {
                        ctx.viol("C06:unfinished-frame-not-reported", "the peer closed the stream in the middle of a frame and no error was reported", wit(json!({"results": out.results.len()})));
                    }
                    continue;
                }
                let sentinel_ok = rest.len() == 1 && matches!(&rest[0].1, Some(Val::Atom(a)) if a == "$end$");
                if rest.len() > 1 || (rest.len() == 1 && !sentinel_ok) {
                    ctx.viol("C06:extra-message", "a message was returned that the peer did not send (duplicate or surfaced tick)", wit(json!({"extra": rest.iter().map(|g| g.0.show()).collect::<Vec<_>>()})));
                } else if rest.is_empty() {
                    ctx.viol("C06:lost-after-junk:sentinel", "the final message of the history never arrived", wit(json!({"errors_seen": out.results.iter().filter_map(|r| r.as_ref().err()).take(4).collect::<Vec<_>>()})));
                }
                let allowed = junk_frames + if fatal_tail { 1 } else { 0 };
                if errs > allowed {
                    ctx.viol("C06:junk-costs-more-than-one-error", "more errors than malformed frames", wit(json!({"errors": errs, "junk_frames": junk_frames})));
                }
            }
            if h % 31 == 0 {
                ctx.sample(json!({"mode": format!("{:?}", mode), "frames": layout, "returned_ok": oks.len(), "errors": errs, "stream_head": hex_cap(&stream, 32)}));
            }
        }
        };
        tokio::join!(timelines, main_part, slow);
    });
    });
}
