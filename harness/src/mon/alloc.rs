//! Counting global allocator: per-thread current / peak / largest single request while tracking
//! is on, and a process-wide hard cap that reports and `_exit`s instead of really allocating.

use std::alloc::{GlobalAlloc, Layout, System};
use std::cell::Cell;
use std::sync::atomic::{AtomicUsize, Ordering};

pub struct CountingAlloc;

thread_local! {
    static TRACK: Cell<bool> = const { Cell::new(false) };
    static CUR: Cell<usize> = const { Cell::new(0) };
    static PEAK: Cell<usize> = const { Cell::new(0) };
    static LARGEST: Cell<usize> = const { Cell::new(0) };
}

static HARD_CAP: AtomicUsize = AtomicUsize::new(0);
pub const BLOWUP_EXIT: i32 = 99;

pub fn set_hard_cap(bytes: usize) {
    HARD_CAP.store(bytes, Ordering::SeqCst);
}

/// Start measuring on the calling thread.
pub fn begin() {
    let _ = TRACK.try_with(|t| t.set(true));
    let _ = CUR.try_with(|c| c.set(0));
    let _ = PEAK.try_with(|c| c.set(0));
    let _ = LARGEST.try_with(|c| c.set(0));
}

/// Stop measuring; returns (peak bytes above the starting point, largest single request).
pub fn end() -> (usize, usize) {
    let _ = TRACK.try_with(|t| t.set(false));
    let p = PEAK.try_with(|c| c.get()).unwrap_or(0);
    let l = LARGEST.try_with(|c| c.get()).unwrap_or(0);
    (p, l)
}

#[inline]
fn note_alloc(size: usize) {
    let cap = HARD_CAP.load(Ordering::Relaxed);
    if cap != 0 && size > cap {
        // report and leave without touching the heap
        let mut buf = [0u8; 40];
        let mut n = 0;
        for b in b"X " {
            buf[n] = *b;
            n += 1;
        }
        let mut digits = [0u8; 24];
        let mut k = 0;
        let mut v = size;
        if v == 0 {
            digits[0] = b'0';
            k = 1;
        }
        while v > 0 {
            digits[k] = b'0' + (v % 10) as u8;
            v /= 10;
            k += 1;
        }
        while k > 0 {
            k -= 1;
            buf[n] = digits[k];
            n += 1;
        }
        buf[n] = b'\n';
        n += 1;
        unsafe {
            libc::write(1, buf.as_ptr() as *const libc::c_void, n);
            libc::_exit(BLOWUP_EXIT);
        }
    }
    let on = TRACK.try_with(|t| t.get()).unwrap_or(false);
    if on {
        let _ = LARGEST.try_with(|c| {
            if size > c.get() {
                c.set(size)
            }
        });
        let cur = CUR.try_with(|c| {
            let v = c.get().saturating_add(size);
            c.set(v);
            v
        })
        .unwrap_or(0);
        let _ = PEAK.try_with(|c| {
            if cur > c.get() {
                c.set(cur)
            }
        });
    }
}

#[inline]
fn note_free(size: usize) {
    let on = TRACK.try_with(|t| t.get()).unwrap_or(false);
    if on {
        let _ = CUR.try_with(|c| c.set(c.get().saturating_sub(size)));
    }
}

unsafe impl GlobalAlloc for CountingAlloc {
    unsafe fn alloc(&self, layout: Layout) -> *mut u8 {
        note_alloc(layout.size());
        unsafe { System.alloc(layout) }
    }
    unsafe fn alloc_zeroed(&self, layout: Layout) -> *mut u8 {
        note_alloc(layout.size());
        unsafe { System.alloc_zeroed(layout) }
    }
    unsafe fn dealloc(&self, ptr: *mut u8, layout: Layout) {
        note_free(layout.size());
        unsafe { System.dealloc(ptr, layout) }
    }
    unsafe fn realloc(&self, ptr: *mut u8, layout: Layout, new_size: usize) -> *mut u8 {
        note_alloc(new_size);
        note_free(layout.size());
        unsafe { System.realloc(ptr, layout, new_size) }
    }
}
