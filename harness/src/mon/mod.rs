pub mod alloc;
