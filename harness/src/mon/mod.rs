pub mod alloc;
pub mod net;
