//! Fake EPMD and scripted distribution peer on loopback sockets. Independent of `edp_client`:
//! own message layouts (DESIGN.md appendix A) and own MD5.

use crate::refmodel::md5::challenge_digest;
use std::collections::HashMap;
use std::sync::{Arc, Mutex};
use std::time::Duration;
use tokio::io::{AsyncReadExt, AsyncWriteExt};
use tokio::net::{TcpListener, TcpStream};

// ---------------------------------------------------------------------------------------- EPMD

#[derive(Clone, Default)]
pub struct EpmdTable {
    inner: Arc<Mutex<HashMap<String, u16>>>,
    pub registrations: Arc<Mutex<Vec<String>>>,
    pub creation: Arc<Mutex<u32>>,
}

impl EpmdTable {
    pub fn publish(&self, name: &str, port: u16) {
        self.inner.lock().unwrap().insert(name.to_string(), port);
    }
    pub fn lookup(&self, name: &str) -> Option<u16> {
        self.inner.lock().unwrap().get(name).copied()
    }
}

/// Start the fake EPMD on an ephemeral loopback port and point the library at it.
pub async fn start_epmd() -> EpmdTable {
    let table = EpmdTable::default();
    *table.creation.lock().unwrap() = 0x5151_0001;
    let listener = TcpListener::bind("127.0.0.1:0").await.expect("bind epmd");
    let port = listener.local_addr().unwrap().port();
    edp_client::verif::set_epmd_port(port);
    let t2 = table.clone();
    tokio::spawn(async move {
        loop {
            let (mut sock, _) = match listener.accept().await {
                Ok(x) => x,
                Err(_) => break,
            };
            let table = t2.clone();
            tokio::spawn(async move {
                let mut lenb = [0u8; 2];
                if sock.read_exact(&mut lenb).await.is_err() {
                    return;
                }
                let len = u16::from_be_bytes(lenb) as usize;
                let mut body = vec![0u8; len];
                if sock.read_exact(&mut body).await.is_err() || body.is_empty() {
                    return;
                }
                match body[0] {
                    122 => {
                        // PORT_PLEASE2_REQ
                        let name = String::from_utf8_lossy(&body[1..]).to_string();
                        match table.lookup(&name) {
                            Some(port) => {
                                let mut r = vec![119u8, 0];
                                r.extend_from_slice(&port.to_be_bytes());
                                r.extend_from_slice(&[77, 0]);
                                r.extend_from_slice(&6u16.to_be_bytes());
                                r.extend_from_slice(&6u16.to_be_bytes());
                                r.extend_from_slice(&(name.len() as u16).to_be_bytes());
                                r.extend_from_slice(name.as_bytes());
                                r.extend_from_slice(&0u16.to_be_bytes());
                                let _ = sock.write_all(&r).await;
                            }
                            None => {
                                let _ = sock.write_all(&[119, 1]).await;
                            }
                        }
                    }
                    120 => {
                        // ALIVE2_REQ: port2 type1 proto1 hi2 lo2 nlen2 name elen2 extra
                        if body.len() >= 11 {
                            let nlen = u16::from_be_bytes([body[9], body[10]]) as usize;
                            if body.len() >= 11 + nlen {
                                let name = String::from_utf8_lossy(&body[11..11 + nlen]).to_string();
                                table.registrations.lock().unwrap().push(name);
                            }
                        }
                        let creation = *table.creation.lock().unwrap();
                        let mut r = vec![118u8, 0];
                        r.extend_from_slice(&creation.to_be_bytes());
                        let _ = sock.write_all(&r).await;
                        // keep the registration socket open until the client goes away
                        let mut sink = [0u8; 16];
                        let _ = sock.read(&mut sink).await;
                    }
                    _ => {}
                }
            });
        }
    });
    table
}

// ---------------------------------------------------------------------------------------- peer

pub const FLAG_DIST_HDR_ATOM_CACHE: u64 = 0x2000;
pub const FLAG_FRAGMENTS: u64 = 0x800_0000;
/// what an OTP 26 node would at least announce
pub const PEER_BASE_FLAGS: u64 = 0x01 | 0x04 | 0x08 | 0x10 | 0x20 | 0x80 | 0x100 | 0x200 | 0x400 | 0x800 | 0x4000 | 0x10000 | 0x20000 | 0x40000 | 0x0100_0000 | 0x0200_0000 | 0x10_0000_0000 | 0x20_0000_0000 | 0x04_0000_0000 | 0x800_0000_0000;

#[derive(Debug, Clone)]
pub struct NameMsg {
    pub old_style: bool,
    pub version: u16,
    pub flags: u64,
    pub creation: Option<u32>,
    pub name: Vec<u8>,
    pub raw: Vec<u8>,
}

#[derive(Debug, Clone, Default)]
pub struct HsTranscript {
    pub name: Option<NameMsg>,
    pub complement: Option<(u32, u32)>,
    pub reply: Option<(u32, [u8; 16])>,
    /// frames the client sent, in order, as (tag byte, raw frame body)
    pub frames: Vec<(u8, Vec<u8>)>,
    pub layout_errors: Vec<String>,
}

pub struct Peer {
    pub sock: TcpStream,
    pub cookie: String,
    pub flags: u64,
    pub name: String,
    pub creation: u32,
    pub challenge: u32,
    pub transcript: Arc<Mutex<HsTranscript>>,
}

pub fn parse_name(body: &[u8]) -> Result<NameMsg, String> {
    if body.is_empty() {
        return Err("empty name message".into());
    }
    match body[0] {
        b'n' => {
            if body.len() < 7 {
                return Err("old name message shorter than 7 bytes".into());
            }
            Ok(NameMsg {
                old_style: true,
                version: u16::from_be_bytes([body[1], body[2]]),
                flags: u32::from_be_bytes([body[3], body[4], body[5], body[6]]) as u64,
                creation: None,
                name: body[7..].to_vec(),
                raw: body.to_vec(),
            })
        }
        b'N' => {
            if body.len() < 15 {
                return Err("new name message shorter than 15 bytes".into());
            }
            let mut f = [0u8; 8];
            f.copy_from_slice(&body[1..9]);
            let nlen = u16::from_be_bytes([body[13], body[14]]) as usize;
            if body.len() != 15 + nlen {
                return Err(format!("new name message: Nlen {} but {} name bytes", nlen, body.len() - 15));
            }
            Ok(NameMsg {
                old_style: false,
                version: 6,
                flags: u64::from_be_bytes(f),
                creation: Some(u32::from_be_bytes([body[9], body[10], body[11], body[12]])),
                name: body[15..].to_vec(),
                raw: body.to_vec(),
            })
        }
        t => Err(format!("name message with tag {}", t)),
    }
}

impl Peer {
    pub fn new(sock: TcpStream, cookie: &str, flags: u64, name: &str, challenge: u32) -> Self {
        Peer { sock, cookie: cookie.to_string(), flags, name: name.to_string(), creation: 0x7001, challenge, transcript: Arc::new(Mutex::new(HsTranscript::default())) }
    }

    pub async fn read_frame2(&mut self) -> std::io::Result<Vec<u8>> {
        let mut l = [0u8; 2];
        self.sock.read_exact(&mut l).await?;
        let n = u16::from_be_bytes(l) as usize;
        let mut b = vec![0u8; n];
        self.sock.read_exact(&mut b).await?;
        Ok(b)
    }

    pub async fn write_frame2(&mut self, body: &[u8]) -> std::io::Result<()> {
        let mut v = (body.len() as u16).to_be_bytes().to_vec();
        v.extend_from_slice(body);
        self.sock.write_all(&v).await?;
        self.sock.flush().await
    }

    pub async fn read_frame4(&mut self) -> std::io::Result<Vec<u8>> {
        let mut l = [0u8; 4];
        self.sock.read_exact(&mut l).await?;
        let n = u32::from_be_bytes(l) as usize;
        let mut b = vec![0u8; n];
        self.sock.read_exact(&mut b).await?;
        Ok(b)
    }

    pub async fn write_frame4(&mut self, body: &[u8]) -> std::io::Result<()> {
        let mut v = (body.len() as u32).to_be_bytes().to_vec();
        v.extend_from_slice(body);
        self.sock.write_all(&v).await?;
        self.sock.flush().await
    }

    pub async fn sock_write(&mut self, data: &[u8]) -> std::io::Result<()> {
        self.sock.write_all(data).await?;
        self.sock.flush().await
    }

    /// Write raw bytes in the given slices, yielding between them.
    pub async fn write_sliced(&mut self, data: &[u8], cuts: &[usize]) -> std::io::Result<()> {
        let mut prev = 0;
        for &c in cuts.iter().chain(std::iter::once(&data.len())) {
            let c = c.min(data.len());
            if c > prev {
                self.sock.write_all(&data[prev..c]).await?;
                self.sock.flush().await?;
                tokio::task::yield_now().await;
                prev = c;
            }
        }
        Ok(())
    }

    pub fn status_body(text: &str) -> Vec<u8> {
        let mut b = vec![b's'];
        b.extend_from_slice(text.as_bytes());
        b
    }

    pub fn challenge_body(&self) -> Vec<u8> {
        let mut b = vec![b'N'];
        b.extend_from_slice(&self.flags.to_be_bytes());
        b.extend_from_slice(&self.challenge.to_be_bytes());
        b.extend_from_slice(&self.creation.to_be_bytes());
        b.extend_from_slice(&(self.name.len() as u16).to_be_bytes());
        b.extend_from_slice(self.name.as_bytes());
        b
    }

    pub fn ack_body(digest: &[u8; 16]) -> Vec<u8> {
        let mut b = vec![b'a'];
        b.extend_from_slice(digest);
        b
    }

    /// Read the client's name message and record it.
    pub async fn recv_name(&mut self) -> Result<NameMsg, String> {
        let body = self.read_frame2().await.map_err(|e| format!("reading name: {}", e))?;
        self.transcript.lock().unwrap().frames.push((body.first().copied().unwrap_or(0), body.clone()));
        let n = parse_name(&body)?;
        self.transcript.lock().unwrap().name = Some(n.clone());
        Ok(n)
    }

    /// After the challenge was sent: read (optional complement and) the challenge reply.
    pub async fn recv_reply(&mut self) -> Result<(u32, [u8; 16]), String> {
        loop {
            let body = self.read_frame2().await.map_err(|e| format!("reading reply: {}", e))?;
            self.transcript.lock().unwrap().frames.push((body.first().copied().unwrap_or(0), body.clone()));
            match body.first() {
                Some(b'c') => {
                    if body.len() != 9 {
                        self.transcript.lock().unwrap().layout_errors.push(format!("complement message of {} bytes (must be 9)", body.len()));
                        return Err("bad complement".into());
                    }
                    self.transcript.lock().unwrap().complement = Some((u32::from_be_bytes([body[1], body[2], body[3], body[4]]), u32::from_be_bytes([body[5], body[6], body[7], body[8]])));
                }
                Some(b'r') => {
                    if body.len() != 21 {
                        self.transcript.lock().unwrap().layout_errors.push(format!("challenge reply of {} bytes (must be 21)", body.len()));
                        return Err("bad reply".into());
                    }
                    let ch = u32::from_be_bytes([body[1], body[2], body[3], body[4]]);
                    let mut d = [0u8; 16];
                    d.copy_from_slice(&body[5..21]);
                    self.transcript.lock().unwrap().reply = Some((ch, d));
                    return Ok((ch, d));
                }
                other => {
                    self.transcript.lock().unwrap().layout_errors.push(format!("unexpected handshake message tag {:?}", other));
                    return Err("unexpected message".into());
                }
            }
        }
    }

    /// Conforming responder. Returns the client's challenge.
    pub async fn handshake(&mut self) -> Result<u32, String> {
        self.recv_name().await?;
        self.write_frame2(&Self::status_body("ok")).await.map_err(|e| e.to_string())?;
        let ch = self.challenge_body();
        self.write_frame2(&ch).await.map_err(|e| e.to_string())?;
        let (client_challenge, digest) = self.recv_reply().await?;
        if digest != challenge_digest(&self.cookie, self.challenge) {
            return Err("client's digest does not match MD5(cookie ++ our challenge)".into());
        }
        let ack = challenge_digest(&self.cookie, client_challenge);
        self.write_frame2(&Self::ack_body(&ack)).await.map_err(|e| e.to_string())?;
        Ok(client_challenge)
    }
}

/// A listening peer registered in the fake EPMD under `short_name` (node `short_name@127.0.0.1`).
pub struct PeerListener {
    pub listener: TcpListener,
    pub node_name: String,
}

pub async fn listen_as(epmd: &EpmdTable, short_name: &str) -> PeerListener {
    let listener = TcpListener::bind("127.0.0.1:0").await.expect("bind peer");
    let port = listener.local_addr().unwrap().port();
    epmd.publish(short_name, port);
    PeerListener { listener, node_name: format!("{}@127.0.0.1", short_name) }
}

impl PeerListener {
    pub async fn accept(&self, cookie: &str, flags: u64, challenge: u32) -> std::io::Result<Peer> {
        let (sock, _) = self.listener.accept().await?;
        let _ = sock.set_nodelay(true);
        Ok(Peer::new(sock, cookie, flags, &self.node_name, challenge))
    }
}

pub async fn with_timeout<T>(d: Duration, f: impl std::future::Future<Output = T>) -> Option<T> {
    tokio::time::timeout(d, f).await.ok()
}
