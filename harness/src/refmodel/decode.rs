//! Independent, strict reader of the External Term Format (all tags, legacy ones included).
//! Shares no code with the library. Recursion is depth-capped (`TooDeep`), inflate is bounded.

use super::val::{Int, Val};
use std::io::Read;

#[derive(Debug, Clone, PartialEq, Eq)]
pub enum RefErr {
    Eof,
    BadVersion,
    BadTag(u8),
    Invalid(&'static str),
    Trailing(usize),
    TooDeep,
}

pub const MAX_DEPTH: usize = 600;

pub struct Reader<'a> {
    pub data: &'a [u8],
    pub pos: usize,
    /// atoms addressable by ATOM_CACHE_REF (position in the current distribution header)
    pub cache_refs: Option<&'a [String]>,
    /// total number of bytes produced by inflating COMPRESSED sections
    pub inflated: usize,
    /// accept the (officially opaque) LOCAL_EXT as hash8 + tag-led term
    pub allow_local: bool,
    /// never inflate more than this many bytes from one COMPRESSED section (beyond min(declared + 1, this))
    pub max_inflate: usize,
    /// every tag byte read at a term position so far (bit set per tag)
    pub tags_seen: [u64; 4],
}

impl<'a> Reader<'a> {
    pub fn new(data: &'a [u8]) -> Self {
        Reader {
            data,
            pos: 0,
            cache_refs: None,
            inflated: 0,
            allow_local: true,
            max_inflate: usize::MAX,
            tags_seen: [0; 4],
        }
    }

    fn need(&self, n: usize) -> Result<(), RefErr> {
        if self.data.len() - self.pos < n {
            Err(RefErr::Eof)
        } else {
            Ok(())
        }
    }
    pub fn u8(&mut self) -> Result<u8, RefErr> {
        self.need(1)?;
        let v = self.data[self.pos];
        self.pos += 1;
        Ok(v)
    }
    pub fn u16(&mut self) -> Result<u16, RefErr> {
        self.need(2)?;
        let v = u16::from_be_bytes([self.data[self.pos], self.data[self.pos + 1]]);
        self.pos += 2;
        Ok(v)
    }
    pub fn u32(&mut self) -> Result<u32, RefErr> {
        self.need(4)?;
        let mut b = [0u8; 4];
        b.copy_from_slice(&self.data[self.pos..self.pos + 4]);
        self.pos += 4;
        Ok(u32::from_be_bytes(b))
    }
    pub fn u64(&mut self) -> Result<u64, RefErr> {
        self.need(8)?;
        let mut b = [0u8; 8];
        b.copy_from_slice(&self.data[self.pos..self.pos + 8]);
        self.pos += 8;
        Ok(u64::from_be_bytes(b))
    }
    pub fn take(&mut self, n: usize) -> Result<&'a [u8], RefErr> {
        self.need(n)?;
        let s = &self.data[self.pos..self.pos + n];
        self.pos += n;
        Ok(s)
    }
    pub fn rest(&self) -> &'a [u8] {
        &self.data[self.pos..]
    }

    fn atom_of(&mut self, depth: usize) -> Result<String, RefErr> {
        match self.term(depth)? {
            Val::Atom(a) => Ok(a),
            _ => Err(RefErr::Invalid("atom expected")),
        }
    }

    fn utf8_atom(bytes: &[u8]) -> Result<String, RefErr> {
        // the format allows up to 65535 bytes; the VM's 255-character limit is not a format rule
        let s = std::str::from_utf8(bytes).map_err(|_| RefErr::Invalid("atom not UTF-8"))?;
        Ok(s.to_string())
    }

    fn latin1_atom(bytes: &[u8]) -> Result<String, RefErr> {
        Ok(bytes.iter().map(|&b| b as char).collect())
    }

    pub fn term(&mut self, depth: usize) -> Result<Val, RefErr> {
        if depth > MAX_DEPTH {
            return Err(RefErr::TooDeep);
        }
        let tag = self.u8()?;
        self.tags_seen[(tag >> 6) as usize] |= 1u64 << (tag & 63);
        match tag {
            97 => Ok(Val::int(self.u8()? as i128)),
            98 => Ok(Val::int(self.u32()? as i32 as i128)),
            99 => {
                let b = self.take(31)?;
                let end = b.iter().position(|&c| c == 0).unwrap_or(31);
                if b[end..].iter().any(|&c| c != 0) {
                    return Err(RefErr::Invalid("text float: bytes after NUL"));
                }
                let s = std::str::from_utf8(&b[..end]).map_err(|_| RefErr::Invalid("text float"))?;
                let ok_chars = s
                    .chars()
                    .all(|c| c.is_ascii_digit() || matches!(c, '.' | 'e' | 'E' | '+' | '-' | ' '));
                if !ok_chars || s.is_empty() {
                    return Err(RefErr::Invalid("text float"));
                }
                let f: f64 = s.trim().parse().map_err(|_| RefErr::Invalid("text float"))?;
                if !f.is_finite() {
                    return Err(RefErr::Invalid("text float not finite"));
                }
                Ok(Val::float(f))
            }
            70 => {
                let bits = self.u64()?;
                Ok(Val::Float(bits))
            }
            100 => {
                let n = self.u16()? as usize;
                let b = self.take(n)?;
                Ok(Val::Atom(Self::latin1_atom(b)?))
            }
            115 => {
                let n = self.u8()? as usize;
                let b = self.take(n)?;
                Ok(Val::Atom(Self::latin1_atom(b)?))
            }
            118 => {
                let n = self.u16()? as usize;
                let b = self.take(n)?;
                Ok(Val::Atom(Self::utf8_atom(b)?))
            }
            119 => {
                let n = self.u8()? as usize;
                let b = self.take(n)?;
                Ok(Val::Atom(Self::utf8_atom(b)?))
            }
            82 => {
                let idx = self.u8()? as usize;
                match self.cache_refs {
                    Some(refs) if idx < refs.len() => Ok(Val::Atom(refs[idx].clone())),
                    _ => Err(RefErr::Invalid("atom cache reference without header entry")),
                }
            }
            104 | 105 => {
                let n = if tag == 104 {
                    self.u8()? as usize
                } else {
                    self.u32()? as usize
                };
                if n > self.data.len() - self.pos {
                    return Err(RefErr::Eof);
                }
                let mut e = Vec::with_capacity(n);
                for _ in 0..n {
                    e.push(self.term(depth + 1)?);
                }
                Ok(Val::Tuple(e))
            }
            106 => Ok(Val::Nil),
            107 => {
                let n = self.u16()? as usize;
                let b = self.take(n)?;
                Ok(Val::list(b.iter().map(|&c| Val::int(c as i128)).collect()))
            }
            108 => {
                let n = self.u32()? as usize;
                if n > self.data.len() - self.pos {
                    return Err(RefErr::Eof);
                }
                let mut e = Vec::with_capacity(n);
                for _ in 0..n {
                    e.push(self.term(depth + 1)?);
                }
                let tail = self.term(depth + 1)?;
                Ok(Val::cons(e, tail))
            }
            109 => {
                let n = self.u32()? as usize;
                Ok(Val::binary(self.take(n)?))
            }
            77 => {
                let n = self.u32()? as usize;
                let bits = self.u8()?;
                if n == 0 {
                    // OTP's encoder never emits this; accept only the harmless spelling
                    if bits == 0 || bits > 8 {
                        return Err(RefErr::Invalid("bit count"));
                    }
                    return Ok(Val::binary(&[]));
                }
                if bits == 0 || bits > 8 {
                    return Err(RefErr::Invalid("bit count"));
                }
                let b = self.take(n)?;
                Ok(Val::bitstring(b, bits))
            }
            110 | 111 => {
                let n = if tag == 110 {
                    self.u8()? as usize
                } else {
                    self.u32()? as usize
                };
                let sign = self.u8()?;
                if sign > 1 {
                    return Err(RefErr::Invalid("bignum sign"));
                }
                let d = self.take(n)?;
                Ok(Val::Int(Int::from_parts(sign == 1, d.to_vec())))
            }
            116 => {
                let n = self.u32()? as usize;
                if n > (self.data.len() - self.pos) / 2 + 1 {
                    return Err(RefErr::Eof);
                }
                let mut e: Vec<(Val, Val)> = Vec::with_capacity(n);
                for _ in 0..n {
                    let k = self.term(depth + 1)?;
                    let v = self.term(depth + 1)?;
                    if e.iter().any(|(k2, _)| k2.same(&k)) {
                        return Err(RefErr::Invalid("duplicate map key"));
                    }
                    e.push((k, v));
                }
                Ok(Val::Map(e))
            }
            88 => {
                let node = self.atom_of(depth + 1)?;
                let id = self.u32()?;
                let serial = self.u32()?;
                let creation = self.u32()?;
                Ok(Val::Pid {
                    node,
                    id,
                    serial,
                    creation,
                })
            }
            103 => {
                let node = self.atom_of(depth + 1)?;
                let id = self.u32()?;
                let serial = self.u32()?;
                let creation = self.u8()? as u32;
                Ok(Val::Pid {
                    node,
                    id,
                    serial,
                    creation,
                })
            }
            120 => {
                let node = self.atom_of(depth + 1)?;
                let id = self.u64()?;
                let creation = self.u32()?;
                Ok(Val::Port { node, id, creation })
            }
            89 => {
                let node = self.atom_of(depth + 1)?;
                let id = self.u32()? as u64;
                let creation = self.u32()?;
                Ok(Val::Port { node, id, creation })
            }
            102 => {
                let node = self.atom_of(depth + 1)?;
                let id = self.u32()? as u64;
                let creation = self.u8()? as u32;
                Ok(Val::Port { node, id, creation })
            }
            90 => {
                let n = self.u16()? as usize;
                let node = self.atom_of(depth + 1)?;
                let creation = self.u32()?;
                let mut ids = Vec::with_capacity(n.min(1024));
                for _ in 0..n {
                    ids.push(self.u32()?);
                }
                Ok(Val::Ref {
                    node,
                    creation,
                    ids,
                })
            }
            114 => {
                let n = self.u16()? as usize;
                let node = self.atom_of(depth + 1)?;
                let creation = self.u8()? as u32;
                let mut ids = Vec::with_capacity(n.min(1024));
                for _ in 0..n {
                    ids.push(self.u32()?);
                }
                Ok(Val::Ref {
                    node,
                    creation,
                    ids,
                })
            }
            101 => {
                let node = self.atom_of(depth + 1)?;
                let id = self.u32()?;
                let creation = self.u8()? as u32;
                Ok(Val::Ref {
                    node,
                    creation,
                    ids: vec![id],
                })
            }
            113 => {
                let module = self.atom_of(depth + 1)?;
                let function = self.atom_of(depth + 1)?;
                let arity = match self.term(depth + 1)? {
                    Val::Int(i) => match i.to_i128() {
                        Some(a) if (0..=255).contains(&a) => a as u8,
                        _ => return Err(RefErr::Invalid("export arity")),
                    },
                    _ => return Err(RefErr::Invalid("export arity")),
                };
                Ok(Val::ExtFun {
                    module,
                    function,
                    arity,
                })
            }
            112 => {
                let start = self.pos;
                let size = self.u32()? as usize;
                let arity = self.u8()?;
                let mut uniq = [0u8; 16];
                uniq.copy_from_slice(self.take(16)?);
                let index = self.u32()?;
                let num_free = self.u32()?;
                let module = self.atom_of(depth + 1)?;
                let small_or_int = |r: &mut Reader<'a>| -> Result<Int, RefErr> {
                    let t = r.u8()?;
                    match t {
                        97 => Ok(Int::from_i128(r.u8()? as i128)),
                        98 => Ok(Int::from_i128(r.u32()? as i32 as i128)),
                        _ => Err(RefErr::Invalid("fun OldIndex/OldUniq must be SMALL_INTEGER_EXT or INTEGER_EXT")),
                    }
                };
                let old_index = small_or_int(self)?;
                let old_uniq = small_or_int(self)?;
                let pid = self.term(depth + 1)?;
                if !matches!(pid, Val::Pid { .. }) {
                    return Err(RefErr::Invalid("fun pid"));
                }
                if num_free as usize > self.data.len() - self.pos {
                    return Err(RefErr::Eof);
                }
                let mut free = Vec::with_capacity(num_free as usize);
                for _ in 0..num_free {
                    free.push(self.term(depth + 1)?);
                }
                if self.pos - start != size {
                    return Err(RefErr::Invalid("fun size field does not match"));
                }
                Ok(Val::IntFun {
                    arity,
                    uniq,
                    index,
                    num_free,
                    module,
                    old_index,
                    old_uniq,
                    pid: Box::new(pid),
                    free,
                })
            }
            121 => {
                if !self.allow_local {
                    return Err(RefErr::BadTag(121));
                }
                let _hash = self.take(8)?;
                self.term(depth + 1)
            }
            80 => {
                let declared = self.u32()? as usize;
                let src = self.rest();
                let mut dec = flate2::read::ZlibDecoder::new(src);
                let mut out = Vec::new();
                let mut limited = (&mut dec).take((declared as u64 + 1).min(self.max_inflate as u64));
                let read = limited.read_to_end(&mut out);
                // bytes really inflated count even when the stream turns out to be broken further on
                self.inflated += out.len().min(declared);
                read.map_err(|_| RefErr::Invalid("zlib stream"))?;
                if out.len() != declared {
                    return Err(RefErr::Invalid("inflated size differs from the declared size"));
                }
                let consumed = dec.total_in() as usize;
                let mut inner = Reader::new(&out);
                inner.cache_refs = self.cache_refs;
                inner.allow_local = self.allow_local;
                inner.max_inflate = self.max_inflate;
                let v = inner.term(depth + 1);
                self.inflated += inner.inflated;
                for k in 0..4 {
                    self.tags_seen[k] |= inner.tags_seen[k];
                }
                let v = v?;
                if inner.pos != out.len() {
                    return Err(RefErr::Invalid("trailing bytes inside compressed section"));
                }
                self.pos += consumed;
                Ok(v)
            }
            t => Err(RefErr::BadTag(t)),
        }
    }
}

/// Decode one versioned term, requiring that nothing follows it.
pub fn ref_decode(data: &[u8]) -> Result<Val, RefErr> {
    let (v, rest) = ref_decode_prefix(data)?;
    if rest != data.len() {
        return Err(RefErr::Trailing(data.len() - rest));
    }
    Ok(v)
}

/// Decode one versioned term; returns the value and the offset just past it.
pub fn ref_decode_prefix(data: &[u8]) -> Result<(Val, usize), RefErr> {
    let mut r = Reader::new(data);
    let ver = r.u8()?;
    if ver != 131 {
        return Err(RefErr::BadVersion);
    }
    let v = r.term(0)?;
    Ok((v, r.pos))
}

/// Sum of the sizes all COMPRESSED sections of `data` *declare and really inflate to*, capped by
/// the declaration; used as the "inflated length" allowance of C02. Never fails.
pub fn inflated_allowance(data: &[u8]) -> usize {
    // cheap filter: a COMPRESSED section is tag 80, four size bytes, then a zlib header (0x78 ..)
    if !data.windows(6).any(|w| w[0] == 80 && w[5] == 0x78) {
        return 0;
    }
    let mut r = Reader::new(data);
    r.max_inflate = 1 << 28;
    if r.u8().ok() != Some(131) {
        return 0;
    }
    // the walk may stop at the first thing the reference reader does not accept; what was inflated up to
    // there still counts. It must run on a thread with a big stack (see `AllowanceWorker`).
    let _ = r.term(0);
    r.inflated
}

/// `inflated_allowance` on a dedicated thread with a large stack: the reference reader recurses up to
/// `MAX_DEPTH` levels and must not be the one to overflow the 2 MiB stack the decoders are tested on.
pub struct AllowanceWorker {
    tx: std::sync::mpsc::Sender<Vec<u8>>,
    rx: std::sync::mpsc::Receiver<usize>,
}

impl AllowanceWorker {
    pub fn start() -> AllowanceWorker {
        let (tx, rx_req) = std::sync::mpsc::channel::<Vec<u8>>();
        let (tx_res, rx) = std::sync::mpsc::channel::<usize>();
        std::thread::Builder::new()
            .name("inflate-allowance".into())
            .stack_size(512 << 20)
            .spawn(move || {
                while let Ok(data) = rx_req.recv() {
                    let n = std::panic::catch_unwind(|| inflated_allowance(&data)).unwrap_or(0);
                    if tx_res.send(n).is_err() {
                        break;
                    }
                }
            })
            .expect("spawn allowance worker");
        AllowanceWorker { tx, rx }
    }
    pub fn measure(&self, data: &[u8]) -> usize {
        if !data.windows(6).any(|w| w[0] == 80 && w[5] == 0x78) {
            return 0;
        }
        if self.tx.send(data.to_vec()).is_err() {
            return 0;
        }
        self.rx.recv().unwrap_or(0)
    }
}
