//! Distribution header (131, 68, ...) writer/reader with an atom-cache sender model, from
//! erl_dist_protocol. Independent of the library.

use super::decode::{Reader, RefErr};
use super::encode::{Canonical, Opts, encode_term};
use super::val::Val;
use crate::rng::Rng;
use std::collections::HashMap;

/// One atom reference of a header.
#[derive(Clone, Debug)]
pub struct AtomRef {
    pub atom: String,
    pub segment: u8,  // 0..7
    pub internal: u8, // 0..255
    pub new_entry: bool,
}

/// Sender-side cache: 8 segments x 256 slots.
#[derive(Default, Clone)]
pub struct SenderCache {
    pub slots: HashMap<(u8, u8), String>,
}

/// Receiver-side model (what a conforming reader keeps).
#[derive(Default, Clone)]
pub struct ReceiverCache {
    pub slots: HashMap<(u8, u8), String>,
}

pub fn collect_atoms(v: &Val, out: &mut Vec<String>) {
    let mut push = |a: &String| {
        if !out.contains(a) {
            out.push(a.clone());
        }
    };
    match v {
        Val::Atom(a) => push(a),
        Val::Pid { node, .. } | Val::Port { node, .. } | Val::Ref { node, .. } => push(node),
        Val::ExtFun { module, function, .. } => {
            push(module);
            push(function);
        }
        Val::IntFun { module, pid, free, .. } => {
            push(module);
            collect_atoms(pid, out);
            for f in free {
                collect_atoms(f, out);
            }
        }
        Val::Tuple(e) => e.iter().for_each(|x| collect_atoms(x, out)),
        Val::List { elems, tail } => {
            elems.iter().for_each(|x| collect_atoms(x, out));
            collect_atoms(tail, out);
        }
        Val::Map(e) => e.iter().for_each(|(k, x)| {
            collect_atoms(k, out);
            collect_atoms(x, out);
        }),
        _ => {}
    }
}

/// Write header + terms. `refs` are in header order; atoms not in `refs` are written inline.
pub fn write_message(refs: &[AtomRef], terms: &[&Val]) -> Vec<u8> {
    let n = refs.len();
    assert!(n <= 255);
    let mut o = vec![131u8, 68, n as u8];
    if n > 0 {
        let long = refs.iter().any(|r| r.new_entry && r.atom.len() > 255);
        let mut flags = vec![0u8; n / 2 + 1];
        for (i, r) in refs.iter().enumerate() {
            let nib = (r.segment & 7) | if r.new_entry { 8 } else { 0 };
            if i % 2 == 0 {
                flags[i / 2] |= nib;
            } else {
                flags[i / 2] |= nib << 4;
            }
        }
        if long {
            if n % 2 == 0 {
                flags[n / 2] |= 0x01;
            } else {
                flags[n / 2] |= 0x10;
            }
        }
        o.extend_from_slice(&flags);
        for r in refs {
            o.push(r.internal);
            if r.new_entry {
                let b = r.atom.as_bytes();
                if long {
                    o.extend_from_slice(&(b.len() as u16).to_be_bytes());
                } else {
                    o.push(b.len() as u8);
                }
                o.extend_from_slice(b);
            }
        }
    }
    let mut table = HashMap::new();
    for (i, r) in refs.iter().enumerate() {
        table.insert(r.atom.clone(), i as u8);
    }
    let opts = Opts { atom_refs: Some(table), ..Opts::default() };
    for t in terms {
        encode_term(&mut o, t, &mut Canonical, &opts).expect("encodable");
    }
    o
}

#[derive(Debug)]
pub struct ParsedHeader {
    pub refs: Vec<AtomRef>,
    pub long_atoms: bool,
    pub body_offset: usize,
}

/// Independent reader of the header; `cache` supplies the text of references that are not new.
pub fn read_header(data: &[u8], cache: &mut ReceiverCache) -> Result<ParsedHeader, RefErr> {
    let mut r = Reader::new(data);
    if r.u8()? != 131 {
        return Err(RefErr::BadVersion);
    }
    if r.u8()? != 68 {
        return Err(RefErr::Invalid("not a distribution header"));
    }
    let n = r.u8()? as usize;
    let mut refs = Vec::new();
    let mut long = false;
    if n > 0 {
        let flags = r.take(n / 2 + 1)?.to_vec();
        let nib = |i: usize| -> u8 {
            if i % 2 == 0 { flags[i / 2] & 0x0f } else { flags[i / 2] >> 4 }
        };
        long = nib(n) & 1 == 1;
        for i in 0..n {
            let f = nib(i);
            let segment = f & 7;
            let new_entry = f & 8 != 0;
            let internal = r.u8()?;
            let atom = if new_entry {
                let len = if long { r.u16()? as usize } else { r.u8()? as usize };
                let b = r.take(len)?;
                let s = std::str::from_utf8(b).map_err(|_| RefErr::Invalid("atom text"))?.to_string();
                cache.slots.insert((segment, internal), s.clone());
                s
            } else {
                cache.slots.get(&(segment, internal)).cloned().ok_or(RefErr::Invalid("reference to an empty cache slot"))?
            };
            refs.push(AtomRef { atom, segment, internal, new_entry });
        }
    }
    Ok(ParsedHeader { refs, long_atoms: long, body_offset: r.pos })
}

/// Read header + all terms that follow.
pub fn read_message(data: &[u8], cache: &mut ReceiverCache) -> Result<Vec<Val>, RefErr> {
    let h = read_header(data, cache)?;
    let names: Vec<String> = h.refs.iter().map(|r| r.atom.clone()).collect();
    let mut r = Reader::new(data);
    r.pos = h.body_offset;
    r.cache_refs = Some(&names);
    let mut out = Vec::new();
    while r.pos < data.len() {
        out.push(r.term(0)?);
    }
    Ok(out)
}

/// Sender model: choose the references of one message against the sender's cache.
/// Every atom of the message that is selected for caching gets a slot; a slot already holding
/// that atom yields an old reference, otherwise a new entry overwrites the slot.
pub fn plan_message(rng: &mut Rng, cache: &mut SenderCache, atoms: &[String], cache_fraction_percent: u32, slot_space: usize) -> Vec<AtomRef> {
    let mut refs: Vec<AtomRef> = Vec::new();
    let mut used_slots: Vec<(u8, u8)> = Vec::new();
    for a in atoms {
        if refs.len() >= 255 || !rng.chance(cache_fraction_percent, 100) || a.len() > 65535 {
            continue;
        }
        // slot = "hash" of the atom in a deliberately small space so that collisions (overwrites) happen
        let h = crate::rng::fnv(a.as_bytes()) as usize % slot_space.max(1);
        let slot = (((h / 256) % 8) as u8, (h % 256) as u8);
        if used_slots.contains(&slot) {
            continue; // two atoms of one message cannot share a slot; the second goes inline
        }
        used_slots.push(slot);
        let new_entry = cache.slots.get(&slot) != Some(a);
        if new_entry {
            cache.slots.insert(slot, a.clone());
        }
        refs.push(AtomRef { atom: a.clone(), segment: slot.0, internal: slot.1, new_entry });
    }
    rng.shuffle(&mut refs);
    refs
}
