//! `val_of`: the Erlang value a library term denotes. `term_of`: a library representation of a value.
//! This mapping is the one piece of judgement shared by most codec/ordering oracles; keep it small.

use super::val::{Int, Val};
use crate::rng::Rng;
use erltf::OwnedTerm;
use erltf::types::{
    Atom, BigInt, ExternalFun, ExternalPid, ExternalPort, ExternalReference, InternalFun,
};
use std::collections::BTreeMap;

pub fn pid_val(p: &ExternalPid) -> Val {
    Val::Pid {
        node: p.node.as_str().to_string(),
        id: p.id,
        serial: p.serial,
        creation: p.creation,
    }
}

pub fn val_of(t: &OwnedTerm) -> Val {
    match t {
        OwnedTerm::Atom(a) => Val::Atom(a.as_str().to_string()),
        OwnedTerm::Integer(i) => Val::int(*i as i128),
        OwnedTerm::BigInt(b) => Val::Int(Int::from_parts(b.sign.is_negative(), b.digits.clone())),
        OwnedTerm::Float(f) => Val::Float(f.to_bits()),
        OwnedTerm::Pid(p) => pid_val(p),
        OwnedTerm::Port(p) => Val::Port {
            node: p.node.as_str().to_string(),
            id: p.id,
            creation: p.creation,
        },
        OwnedTerm::Reference(r) => Val::Ref {
            node: r.node.as_str().to_string(),
            creation: r.creation,
            ids: r.ids.clone(),
        },
        OwnedTerm::Binary(b) => Val::binary(b),
        OwnedTerm::String(s) => Val::binary(s.as_bytes()),
        OwnedTerm::BitBinary { bytes, bits } => Val::bitstring(bytes, *bits),
        OwnedTerm::Nil => Val::Nil,
        OwnedTerm::List(l) => Val::list(l.iter().map(val_of).collect()),
        OwnedTerm::ImproperList { elements, tail } => {
            Val::cons(elements.iter().map(val_of).collect(), val_of(tail))
        }
        OwnedTerm::Tuple(e) => Val::Tuple(e.iter().map(val_of).collect()),
        OwnedTerm::Map(m) => Val::Map(m.iter().map(|(k, v)| (val_of(k), val_of(v))).collect()),
        OwnedTerm::ExternalFun(f) => Val::ExtFun {
            module: f.module.as_str().to_string(),
            function: f.function.as_str().to_string(),
            arity: f.arity,
        },
        OwnedTerm::InternalFun(f) => Val::IntFun {
            arity: f.arity,
            uniq: f.uniq,
            index: f.index,
            num_free: f.num_free,
            module: f.module.as_str().to_string(),
            old_index: Int::from_i128(f.old_index as i128),
            old_uniq: Int::from_i128(f.old_uniq as i128),
            pid: Box::new(pid_val(&f.pid)),
            free: f.free_vars.iter().map(val_of).collect(),
        },
    }
}

/// How `term_of` picks among the library's representations of one value.
#[derive(Clone, Copy, PartialEq, Eq, Debug)]
pub enum Style {
    /// what the library's own decoder would build (Integer inside i32 range... see below), List/Nil, Binary
    Wire,
    /// what a user would build by hand: Integer for everything in i64, BigInt beyond
    User,
    /// any admissible representation, at random (BigInt for small values, String for UTF-8 binaries, List([]) for nil)
    Mixed,
}

fn int_term(i: &Int, rng: &mut Rng, style: Style) -> OwnedTerm {
    let big = || OwnedTerm::BigInt(BigInt::new(i.neg, i.mag.clone()));
    match i.to_i128() {
        Some(v) if v >= i64::MIN as i128 && v <= i64::MAX as i128 => match style {
            Style::Wire => {
                if v >= i32::MIN as i128 && v <= i32::MAX as i128 {
                    OwnedTerm::Integer(v as i64)
                } else {
                    big()
                }
            }
            Style::User => OwnedTerm::Integer(v as i64),
            Style::Mixed => {
                if !i.is_zero() && rng.chance(1, 4) {
                    big()
                } else {
                    OwnedTerm::Integer(v as i64)
                }
            }
        },
        _ => big(),
    }
}

/// None when the value has no library representation (maps with numerically equal keys,
/// fun fields beyond u32).
pub fn term_of(v: &Val, rng: &mut Rng, style: Style) -> Option<OwnedTerm> {
    Some(match v {
        Val::Int(i) => int_term(i, rng, style),
        Val::Float(b) => OwnedTerm::Float(f64::from_bits(*b)),
        Val::Atom(a) => OwnedTerm::Atom(Atom::new(a)),
        Val::Bits { bytes, bits } => {
            if bits % 8 == 0 {
                if style == Style::Mixed && rng.chance(1, 4) {
                    if let Ok(s) = String::from_utf8(bytes.clone()) {
                        return Some(OwnedTerm::String(s));
                    }
                }
                OwnedTerm::Binary(bytes.clone())
            } else {
                OwnedTerm::BitBinary {
                    bytes: bytes.clone(),
                    bits: (bits % 8) as u8,
                }
            }
        }
        Val::Nil => {
            if style == Style::Mixed && rng.chance(1, 3) {
                OwnedTerm::List(vec![])
            } else {
                OwnedTerm::Nil
            }
        }
        Val::List { elems, tail } => {
            let e: Option<Vec<OwnedTerm>> = elems.iter().map(|x| term_of(x, rng, style)).collect();
            let mut e = e?;
            // a list may also be held as a head whose tail is itself a list term (what decoding a LIST_EXT
            // with a list tail yields, and what a user can build)
            if style == Style::Mixed && e.len() >= 2 && rng.chance(1, 5) {
                let k = 1 + rng.below(e.len() - 1);
                let rest: Vec<OwnedTerm> = e.split_off(k);
                let inner = if **tail == Val::Nil {
                    OwnedTerm::List(rest)
                } else {
                    OwnedTerm::ImproperList { elements: rest, tail: Box::new(term_of(tail, rng, style)?) }
                };
                return Some(OwnedTerm::ImproperList { elements: e, tail: Box::new(inner) });
            }
            if **tail == Val::Nil {
                OwnedTerm::List(e)
            } else {
                OwnedTerm::ImproperList {
                    elements: e,
                    tail: Box::new(term_of(tail, rng, style)?),
                }
            }
        }
        Val::Tuple(e) => {
            let e: Option<Vec<OwnedTerm>> = e.iter().map(|x| term_of(x, rng, style)).collect();
            OwnedTerm::Tuple(e?)
        }
        Val::Map(e) => {
            let mut m = BTreeMap::new();
            for (k, val) in e {
                let kt = term_of(k, rng, style)?;
                let vt = term_of(val, rng, style)?;
                if m.insert(kt, vt).is_some() {
                    return None;
                }
            }
            if m.len() != e.len() {
                return None;
            }
            OwnedTerm::Map(m)
        }
        // an identifier may also be held in the node-local form it arrived in (8 opaque bytes + its ordinary encoding)
        Val::Pid { .. } | Val::Port { .. } | Val::Ref { .. } if style == Style::Mixed && rng.chance(1, 3) && crate::refmodel::encode::ref_encode_canonical(v).is_ok() => {
            let mut local = rng.bytes(8);
            local.extend_from_slice(&crate::refmodel::encode::ref_encode_canonical(v).unwrap()[1..]);
            match v {
                Val::Pid { node, id, serial, creation } => OwnedTerm::Pid(ExternalPid::with_local_ext_bytes(Atom::new(node), *id, *serial, *creation, local)),
                Val::Port { node, id, creation } => OwnedTerm::Port(ExternalPort::with_local_ext_bytes(Atom::new(node), *id, *creation, local)),
                Val::Ref { node, creation, ids } => OwnedTerm::Reference(ExternalReference::with_local_ext_bytes(Atom::new(node), *creation, ids.clone(), local)),
                _ => unreachable!(),
            }
        }
        Val::Pid {
            node,
            id,
            serial,
            creation,
        } => OwnedTerm::Pid(ExternalPid::new(Atom::new(node), *id, *serial, *creation)),
        Val::Port { node, id, creation } => {
            OwnedTerm::Port(ExternalPort::new(Atom::new(node), *id, *creation))
        }
        Val::Ref {
            node,
            creation,
            ids,
        } => OwnedTerm::Reference(ExternalReference::new(Atom::new(node), *creation, ids.clone())),
        Val::ExtFun {
            module,
            function,
            arity,
        } => OwnedTerm::ExternalFun(ExternalFun::new(Atom::new(module), Atom::new(function), *arity)),
        Val::IntFun {
            arity,
            uniq,
            index,
            num_free,
            module,
            old_index,
            old_uniq,
            pid,
            free,
        } => {
            let p = match term_of(pid, rng, style)? {
                OwnedTerm::Pid(p) => p,
                _ => return None,
            };
            let oi = old_index.to_i128().filter(|v| (0..=u32::MAX as i128).contains(v))? as u32;
            let ou = old_uniq.to_i128().filter(|v| (0..=u32::MAX as i128).contains(v))? as u32;
            let f: Option<Vec<OwnedTerm>> = free.iter().map(|x| term_of(x, rng, style)).collect();
            OwnedTerm::InternalFun(Box::new(InternalFun::new(
                *arity,
                *uniq,
                *index,
                *num_free,
                Atom::new(module),
                oi,
                ou,
                p,
                f?,
            )))
        }
    })
}

/// Structural comparison of two library terms that does not go through the library's `==`:
/// float bits, raw node-local bytes and map entries included. Used by C13/C10.
pub fn deep_eq(a: &OwnedTerm, b: &OwnedTerm) -> bool {
    use OwnedTerm as T;
    match (a, b) {
        (T::Atom(x), T::Atom(y)) => x.as_str() == y.as_str(),
        (T::Integer(x), T::Integer(y)) => x == y,
        (T::Float(x), T::Float(y)) => x.to_bits() == y.to_bits(),
        (T::BigInt(x), T::BigInt(y)) => {
            x.sign.is_negative() == y.sign.is_negative() && x.digits == y.digits
        }
        (T::Pid(x), T::Pid(y)) => {
            x.node.as_str() == y.node.as_str()
                && x.id == y.id
                && x.serial == y.serial
                && x.creation == y.creation
                && x.local_ext_bytes == y.local_ext_bytes
        }
        (T::Port(x), T::Port(y)) => {
            x.node.as_str() == y.node.as_str()
                && x.id == y.id
                && x.creation == y.creation
                && x.local_ext_bytes == y.local_ext_bytes
        }
        (T::Reference(x), T::Reference(y)) => {
            x.node.as_str() == y.node.as_str()
                && x.creation == y.creation
                && x.ids == y.ids
                && x.local_ext_bytes == y.local_ext_bytes
        }
        (T::Binary(x), T::Binary(y)) => x == y,
        (T::String(x), T::String(y)) => x == y,
        (
            T::BitBinary { bytes: x, bits: xb },
            T::BitBinary { bytes: y, bits: yb },
        ) => x == y && xb == yb,
        (T::Nil, T::Nil) => true,
        (T::List(x), T::List(y)) | (T::Tuple(x), T::Tuple(y)) => {
            x.len() == y.len() && x.iter().zip(y).all(|(p, q)| deep_eq(p, q))
        }
        (
            T::ImproperList {
                elements: x,
                tail: tx,
            },
            T::ImproperList {
                elements: y,
                tail: ty,
            },
        ) => x.len() == y.len() && x.iter().zip(y).all(|(p, q)| deep_eq(p, q)) && deep_eq(tx, ty),
        (T::Map(x), T::Map(y)) => {
            x.len() == y.len()
                && x.iter()
                    .zip(y.iter())
                    .all(|((k1, v1), (k2, v2))| deep_eq(k1, k2) && deep_eq(v1, v2))
        }
        (T::ExternalFun(x), T::ExternalFun(y)) => {
            x.module.as_str() == y.module.as_str()
                && x.function.as_str() == y.function.as_str()
                && x.arity == y.arity
        }
        (T::InternalFun(x), T::InternalFun(y)) => {
            x.arity == y.arity
                && x.uniq == y.uniq
                && x.index == y.index
                && x.num_free == y.num_free
                && x.module.as_str() == y.module.as_str()
                && x.old_index == y.old_index
                && x.old_uniq == y.old_uniq
                && deep_eq(&T::Pid(x.pid.clone()), &T::Pid(y.pid.clone()))
                && x.free_vars.len() == y.free_vars.len()
                && x.free_vars.iter().zip(&y.free_vars).all(|(p, q)| deep_eq(p, q))
        }
        _ => false,
    }
}
