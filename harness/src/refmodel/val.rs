//! Canonical Erlang values, independent of the library's term type.
//! Written from the OTP `erl_ext_dist` document and the term-order rules of the reference manual.

use std::cmp::Ordering;
use std::fmt;

/// Arbitrary-precision integer: sign + little-endian magnitude with no trailing zero bytes.
/// Zero is `neg == false, mag == []`.
#[derive(Clone, PartialEq, Eq, Hash)]
pub struct Int {
    pub neg: bool,
    pub mag: Vec<u8>,
}

impl Int {
    pub fn from_parts(neg: bool, mut mag: Vec<u8>) -> Int {
        while mag.last() == Some(&0) {
            mag.pop();
        }
        let neg = neg && !mag.is_empty();
        Int { neg, mag }
    }

    pub fn from_i128(v: i128) -> Int {
        let neg = v < 0;
        let m = v.unsigned_abs();
        Int::from_parts(neg, m.to_le_bytes().to_vec())
    }

    pub fn from_u128(v: u128) -> Int {
        Int::from_parts(false, v.to_le_bytes().to_vec())
    }

    pub fn is_zero(&self) -> bool {
        self.mag.is_empty()
    }

    pub fn to_i128(&self) -> Option<i128> {
        if self.mag.len() > 16 {
            return None;
        }
        let mut b = [0u8; 16];
        b[..self.mag.len()].copy_from_slice(&self.mag);
        let m = u128::from_le_bytes(b);
        if self.neg {
            if m <= (i128::MAX as u128) + 1 {
                Some((m as i128).wrapping_neg())
            } else {
                None
            }
        } else if m <= i128::MAX as u128 {
            Some(m as i128)
        } else {
            None
        }
    }

    fn cmp_mag(a: &[u8], b: &[u8]) -> Ordering {
        a.len().cmp(&b.len()).then_with(|| {
            for i in (0..a.len()).rev() {
                match a[i].cmp(&b[i]) {
                    Ordering::Equal => continue,
                    o => return o,
                }
            }
            Ordering::Equal
        })
    }

    pub fn cmp_int(&self, other: &Int) -> Ordering {
        match (self.neg, other.neg) {
            (false, true) => Ordering::Greater,
            (true, false) => Ordering::Less,
            (false, false) => Int::cmp_mag(&self.mag, &other.mag),
            (true, true) => Int::cmp_mag(&self.mag, &other.mag).reverse(),
        }
    }

    /// Number of significant bits of the magnitude.
    pub fn bit_len(&self) -> u64 {
        match self.mag.last() {
            None => 0,
            Some(top) => (self.mag.len() as u64 - 1) * 8 + (8 - top.leading_zeros() as u64),
        }
    }

    /// 2^k
    pub fn pow2(k: u64) -> Int {
        let mut mag = vec![0u8; (k / 8) as usize + 1];
        mag[(k / 8) as usize] = 1 << (k % 8);
        Int::from_parts(false, mag)
    }

    pub fn add_small(&self, d: i64) -> Int {
        // only used by generators near boundaries; go through i128 when possible
        if let Some(v) = self.to_i128() {
            if let Some(r) = v.checked_add(d as i128) {
                return Int::from_i128(r);
            }
        }
        // big path: magnitude +/- |d|
        let dn = d < 0;
        let dm = d.unsigned_abs();
        if self.neg == dn {
            Int::from_parts(self.neg, mag_add(&self.mag, dm))
        } else {
            // |self| is huge here (> 2^126) so it dominates
            Int::from_parts(self.neg, mag_sub(&self.mag, dm))
        }
    }

    pub fn negate(&self) -> Int {
        Int::from_parts(!self.neg, self.mag.clone())
    }
}

fn mag_add(a: &[u8], d: u64) -> Vec<u8> {
    let mut out = a.to_vec();
    let mut carry = d as u128;
    let mut i = 0;
    while carry > 0 {
        if i == out.len() {
            out.push(0);
        }
        let s = out[i] as u128 + (carry & 0xff);
        out[i] = (s & 0xff) as u8;
        carry = (carry >> 8) + (s >> 8);
        i += 1;
    }
    out
}

fn mag_sub(a: &[u8], d: u64) -> Vec<u8> {
    let mut out = a.to_vec();
    let db = d.to_le_bytes();
    let mut borrow = 0i32;
    for i in 0..out.len() {
        let sub = if i < 8 { db[i] as i32 } else { 0 } + borrow;
        let mut v = out[i] as i32 - sub;
        if v < 0 {
            v += 256;
            borrow = 1;
        } else {
            borrow = 0;
        }
        out[i] = v as u8;
        if i >= 8 && borrow == 0 {
            break;
        }
    }
    out
}

impl fmt::Debug for Int {
    fn fmt(&self, f: &mut fmt::Formatter<'_>) -> fmt::Result {
        if let Some(v) = self.to_i128() {
            write!(f, "{}", v)
        } else {
            write!(
                f,
                "{}0x{}(le,{}B)",
                if self.neg { "-" } else { "" },
                crate::out::hex_cap(&self.mag, 12),
                self.mag.len()
            )
        }
    }
}

#[derive(Clone, PartialEq, Eq, Hash)]
pub enum Val {
    Int(Int),
    /// IEEE-754 bit pattern
    Float(u64),
    Atom(String),
    /// Bit-string: `bytes` holds ceil(bits/8) bytes, unused low bits of the last byte are zero.
    Bits {
        bytes: Vec<u8>,
        bits: u64,
    },
    Nil,
    /// Non-empty list cells flattened: `elems` non-empty, `tail` is not a `List` (Nil for proper).
    List {
        elems: Vec<Val>,
        tail: Box<Val>,
    },
    Tuple(Vec<Val>),
    /// Entries in encounter order; keys are distinct under *exact* identity (1 and 1.0 differ).
    Map(Vec<(Val, Val)>),
    Pid {
        node: String,
        id: u32,
        serial: u32,
        creation: u32,
    },
    Port {
        node: String,
        id: u64,
        creation: u32,
    },
    Ref {
        node: String,
        creation: u32,
        ids: Vec<u32>,
    },
    ExtFun {
        module: String,
        function: String,
        arity: u8,
    },
    IntFun {
        arity: u8,
        uniq: [u8; 16],
        index: u32,
        num_free: u32,
        module: String,
        old_index: Int,
        old_uniq: Int,
        pid: Box<Val>,
        free: Vec<Val>,
    },
}

impl Val {
    pub fn int(v: i128) -> Val {
        Val::Int(Int::from_i128(v))
    }
    pub fn float(f: f64) -> Val {
        Val::Float(f.to_bits())
    }
    pub fn atom(s: &str) -> Val {
        Val::Atom(s.to_string())
    }
    pub fn binary(b: &[u8]) -> Val {
        Val::Bits {
            bytes: b.to_vec(),
            bits: b.len() as u64 * 8,
        }
    }
    /// Bit-string from raw bytes and "bits used in the last byte" (1..=8), masking the padding.
    pub fn bitstring(bytes: &[u8], last_bits: u8) -> Val {
        if bytes.is_empty() {
            return Val::Bits {
                bytes: vec![],
                bits: 0,
            };
        }
        let mut b = bytes.to_vec();
        let lb = last_bits.clamp(1, 8);
        let n = b.len();
        if lb < 8 {
            b[n - 1] &= 0xffu8 << (8 - lb);
        }
        Val::Bits {
            bytes: b,
            bits: (n as u64 - 1) * 8 + lb as u64,
        }
    }
    pub fn list(elems: Vec<Val>) -> Val {
        Val::cons(elems, Val::Nil)
    }
    /// Smart constructor keeping the flattened normal form.
    pub fn cons(mut elems: Vec<Val>, tail: Val) -> Val {
        match tail {
            Val::List {
                elems: more,
                tail: t2,
            } => {
                elems.extend(more);
                Val::cons(elems, *t2)
            }
            t => {
                if elems.is_empty() {
                    t
                } else {
                    Val::List {
                        elems,
                        tail: Box::new(t),
                    }
                }
            }
        }
    }

    pub fn kind(&self) -> &'static str {
        match self {
            Val::Int(_) => "int",
            Val::Float(_) => "float",
            Val::Atom(_) => "atom",
            Val::Bits { bits, .. } => {
                if bits % 8 == 0 {
                    "binary"
                } else {
                    "bitstring"
                }
            }
            Val::Nil => "nil",
            Val::List { tail, .. } => {
                if **tail == Val::Nil {
                    "list"
                } else {
                    "improper"
                }
            }
            Val::Tuple(_) => "tuple",
            Val::Map(_) => "map",
            Val::Pid { .. } => "pid",
            Val::Port { .. } => "port",
            Val::Ref { .. } => "ref",
            Val::ExtFun { .. } => "extfun",
            Val::IntFun { .. } => "intfun",
        }
    }

    /// Exact structural identity, with map entries compared as sets of (key, value) pairs.
    pub fn same(&self, other: &Val) -> bool {
        match (self, other) {
            (Val::Map(a), Val::Map(b)) => {
                if a.len() != b.len() {
                    return false;
                }
                let mut used = vec![false; b.len()];
                'outer: for (k, v) in a {
                    for (j, (k2, v2)) in b.iter().enumerate() {
                        if !used[j] && k.same(k2) && v.same(v2) {
                            used[j] = true;
                            continue 'outer;
                        }
                    }
                    return false;
                }
                true
            }
            (Val::Tuple(a), Val::Tuple(b)) => {
                a.len() == b.len() && a.iter().zip(b).all(|(x, y)| x.same(y))
            }
            (
                Val::List { elems: a, tail: ta },
                Val::List { elems: b, tail: tb },
            ) => a.len() == b.len() && a.iter().zip(b).all(|(x, y)| x.same(y)) && ta.same(tb),
            (
                Val::IntFun {
                    arity: a1,
                    uniq: u1,
                    index: i1,
                    num_free: n1,
                    module: m1,
                    old_index: oi1,
                    old_uniq: ou1,
                    pid: p1,
                    free: f1,
                },
                Val::IntFun {
                    arity: a2,
                    uniq: u2,
                    index: i2,
                    num_free: n2,
                    module: m2,
                    old_index: oi2,
                    old_uniq: ou2,
                    pid: p2,
                    free: f2,
                },
            ) => {
                a1 == a2
                    && u1 == u2
                    && i1 == i2
                    && n1 == n2
                    && m1 == m2
                    && oi1 == oi2
                    && ou1 == ou2
                    && p1.same(p2)
                    && f1.len() == f2.len()
                    && f1.iter().zip(f2).all(|(x, y)| x.same(y))
            }
            (a, b) => a == b,
        }
    }

    pub fn node_count(&self) -> usize {
        match self {
            Val::List { elems, tail } => {
                1 + elems.iter().map(|e| e.node_count()).sum::<usize>() + tail.node_count()
            }
            Val::Tuple(e) => 1 + e.iter().map(|e| e.node_count()).sum::<usize>(),
            Val::Map(e) => {
                1 + e
                    .iter()
                    .map(|(k, v)| k.node_count() + v.node_count())
                    .sum::<usize>()
            }
            Val::IntFun { free, .. } => 2 + free.iter().map(|e| e.node_count()).sum::<usize>(),
            _ => 1,
        }
    }

    /// Short rendering for witnesses and samples.
    pub fn show(&self) -> String {
        let s = format!("{:?}", self);
        if s.len() > 400 {
            let mut cut = 400;
            while !s.is_char_boundary(cut) {
                cut -= 1;
            }
            format!("{}…(+{} chars)", &s[..cut], s.len() - cut)
        } else {
            s
        }
    }
}

impl fmt::Debug for Val {
    fn fmt(&self, f: &mut fmt::Formatter<'_>) -> fmt::Result {
        match self {
            Val::Int(i) => write!(f, "{:?}", i),
            Val::Float(b) => write!(f, "{:e}f", f64::from_bits(*b)),
            Val::Atom(a) => {
                if a.len() > 24 {
                    let mut cut = 24;
                    while !a.is_char_boundary(cut) {
                        cut -= 1;
                    }
                    write!(f, "'{}…'({}B)", &a[..cut], a.len())
                } else {
                    write!(f, "'{}'", a)
                }
            }
            Val::Bits { bytes, bits } => write!(f, "<<{}:{}b>>", crate::out::hex_cap(bytes, 12), bits),
            Val::Nil => write!(f, "[]"),
            Val::List { elems, tail } => {
                write!(f, "[")?;
                for (i, e) in elems.iter().enumerate().take(12) {
                    if i > 0 {
                        write!(f, ",")?;
                    }
                    write!(f, "{:?}", e)?;
                }
                if elems.len() > 12 {
                    write!(f, ",…×{}", elems.len())?;
                }
                if **tail != Val::Nil {
                    write!(f, "|{:?}", tail)?;
                }
                write!(f, "]")
            }
            Val::Tuple(e) => {
                write!(f, "{{")?;
                for (i, x) in e.iter().enumerate().take(12) {
                    if i > 0 {
                        write!(f, ",")?;
                    }
                    write!(f, "{:?}", x)?;
                }
                if e.len() > 12 {
                    write!(f, ",…×{}", e.len())?;
                }
                write!(f, "}}")
            }
            Val::Map(e) => {
                write!(f, "#{{")?;
                for (i, (k, v)) in e.iter().enumerate().take(8) {
                    if i > 0 {
                        write!(f, ",")?;
                    }
                    write!(f, "{:?}=>{:?}", k, v)?;
                }
                if e.len() > 8 {
                    write!(f, ",…×{}", e.len())?;
                }
                write!(f, "}}")
            }
            Val::Pid {
                node,
                id,
                serial,
                creation,
            } => write!(f, "pid({},{},{},{})", node, id, serial, creation),
            Val::Port { node, id, creation } => write!(f, "port({},{},{})", node, id, creation),
            Val::Ref {
                node,
                creation,
                ids,
            } => {
                if ids.len() > 6 {
                    write!(f, "ref({},{},[{} words])", node, creation, ids.len())
                } else {
                    write!(f, "ref({},{},{:?})", node, creation, ids)
                }
            }
            Val::ExtFun {
                module,
                function,
                arity,
            } => write!(f, "fun {}:{}/{}", module, function, arity),
            Val::IntFun {
                arity,
                index,
                num_free,
                module,
                old_index,
                old_uniq,
                pid,
                free,
                ..
            } => write!(
                f,
                "fun#{}.{}/{}(nf={},oi={:?},ou={:?},{:?},free={:?})",
                module, index, arity, num_free, old_index, old_uniq, pid, free
            ),
        }
    }
}

// ---------------------------------------------------------------------------------------------
// Erlang term order

fn rank(v: &Val) -> u8 {
    match v {
        Val::Int(_) | Val::Float(_) => 0,
        Val::Atom(_) => 1,
        Val::Ref { .. } => 2,
        Val::ExtFun { .. } | Val::IntFun { .. } => 3,
        Val::Port { .. } => 4,
        Val::Pid { .. } => 5,
        Val::Tuple(_) => 6,
        Val::Map(_) => 7,
        Val::Nil => 8,
        Val::List { .. } => 9,
        Val::Bits { .. } => 10,
    }
}

/// Exact comparison of an integer with a finite float (mathematical values).
pub fn cmp_int_float(i: &Int, fbits: u64) -> Ordering {
    let f = f64::from_bits(fbits);
    debug_assert!(f.is_finite());
    if f == 0.0 {
        return if i.is_zero() {
            Ordering::Equal
        } else if i.neg {
            Ordering::Less
        } else {
            Ordering::Greater
        };
    }
    let fneg = f < 0.0;
    if i.is_zero() {
        return if fneg { Ordering::Greater } else { Ordering::Less };
    }
    if i.neg != fneg {
        return if i.neg { Ordering::Less } else { Ordering::Greater };
    }
    // same sign, both non-zero: compare magnitudes, flip if negative
    let exp_bits = ((fbits >> 52) & 0x7ff) as i64;
    let frac = fbits & ((1u64 << 52) - 1);
    let (mant, e) = if exp_bits == 0 {
        (frac, -1074i64)
    } else {
        (frac | (1u64 << 52), exp_bits - 1075)
    };
    // |f| = mant * 2^e
    let mag_ord = if e >= 0 {
        // integer valued: mant << e
        let mut mag = vec![0u8; (e / 8) as usize];
        let shifted = (mant as u128) << (e % 8);
        mag.extend_from_slice(&shifted.to_le_bytes());
        let fi = Int::from_parts(false, mag);
        Int::cmp_mag(&i.mag, &fi.mag)
    } else {
        let sh = (-e) as u32;
        let (ipart, has_frac) = if sh >= 64 {
            (0u64, mant != 0)
        } else {
            (mant >> sh, mant & ((1u64 << sh) - 1) != 0)
        };
        let fi = Int::from_parts(false, ipart.to_le_bytes().to_vec());
        match Int::cmp_mag(&i.mag, &fi.mag) {
            Ordering::Equal => {
                if has_frac {
                    Ordering::Less
                } else {
                    Ordering::Equal
                }
            }
            o => o,
        }
    };
    if fneg { mag_ord.reverse() } else { mag_ord }
}

fn cmp_float(a: u64, b: u64) -> Ordering {
    let (x, y) = (f64::from_bits(a), f64::from_bits(b));
    x.partial_cmp(&y).unwrap_or(Ordering::Equal)
}

fn cmp_num(a: &Val, b: &Val) -> Ordering {
    match (a, b) {
        (Val::Int(x), Val::Int(y)) => x.cmp_int(y),
        (Val::Float(x), Val::Float(y)) => cmp_float(*x, *y),
        (Val::Int(x), Val::Float(y)) => cmp_int_float(x, *y),
        (Val::Float(x), Val::Int(y)) => cmp_int_float(y, *x).reverse(),
        _ => unreachable!(),
    }
}

fn cmp_bits(ab: &[u8], abits: u64, bb: &[u8], bbits: u64) -> Ordering {
    // compare bit by bit; a proper prefix is smaller
    let common = abits.min(bbits);
    let full = (common / 8) as usize;
    match ab[..full].cmp(&bb[..full]) {
        Ordering::Equal => {}
        o => return o,
    }
    let rem = (common % 8) as u32;
    if rem > 0 {
        let mask = 0xffu8 << (8 - rem);
        match (ab[full] & mask).cmp(&(bb[full] & mask)) {
            Ordering::Equal => {}
            o => return o,
        }
    }
    abits.cmp(&bbits)
}

/// Order of identifiers/funs is not fixed by the property beyond equality; a deterministic
/// field-wise order is used and callers only rely on `== Equal`.
fn cmp_fields_pid(a: &Val, b: &Val) -> Ordering {
    format!("{:?}", a).cmp(&format!("{:?}", b))
}

pub fn erl_cmp(a: &Val, b: &Val) -> Ordering {
    let (ra, rb) = (rank(a), rank(b));
    if ra != rb {
        return ra.cmp(&rb);
    }
    match (a, b) {
        (Val::Int(_) | Val::Float(_), _) => cmp_num(a, b),
        (Val::Atom(x), Val::Atom(y)) => {
            // by code points == by UTF-8 bytes
            x.as_bytes().cmp(y.as_bytes())
        }
        (Val::Tuple(x), Val::Tuple(y)) => x.len().cmp(&y.len()).then_with(|| {
            for (p, q) in x.iter().zip(y) {
                match erl_cmp(p, q) {
                    Ordering::Equal => continue,
                    o => return o,
                }
            }
            Ordering::Equal
        }),
        (Val::Map(x), Val::Map(y)) => x.len().cmp(&y.len()).then_with(|| {
            let mut xs: Vec<&(Val, Val)> = x.iter().collect();
            let mut ys: Vec<&(Val, Val)> = y.iter().collect();
            xs.sort_by(|p, q| erl_cmp(&p.0, &q.0));
            ys.sort_by(|p, q| erl_cmp(&p.0, &q.0));
            for (p, q) in xs.iter().zip(&ys) {
                match erl_cmp(&p.0, &q.0) {
                    Ordering::Equal => continue,
                    o => return o,
                }
            }
            for (p, q) in xs.iter().zip(&ys) {
                match erl_cmp(&p.1, &q.1) {
                    Ordering::Equal => continue,
                    o => return o,
                }
            }
            Ordering::Equal
        }),
        (Val::Nil, Val::Nil) => Ordering::Equal,
        (
            Val::List { elems: x, tail: tx },
            Val::List { elems: y, tail: ty },
        ) => {
            for (p, q) in x.iter().zip(y) {
                match erl_cmp(p, q) {
                    Ordering::Equal => continue,
                    o => return o,
                }
            }
            // one list ran out of cells: compare the remaining structure
            if x.len() == y.len() {
                erl_cmp(tx, ty)
            } else if x.len() < y.len() {
                // a's tail vs the rest of b (a non-empty list cell chain)
                let rest = Val::List {
                    elems: y[x.len()..].to_vec(),
                    tail: ty.clone(),
                };
                erl_cmp(tx, &rest)
            } else {
                let rest = Val::List {
                    elems: x[y.len()..].to_vec(),
                    tail: tx.clone(),
                };
                erl_cmp(&rest, ty)
            }
        }
        (
            Val::Bits { bytes: x, bits: xb },
            Val::Bits { bytes: y, bits: yb },
        ) => cmp_bits(x, *xb, y, *yb),
        _ => {
            if ident_same(a, b) {
                Ordering::Equal
            } else {
                match cmp_fields_pid(a, b) {
                    Ordering::Equal => Ordering::Less,
                    o => o,
                }
            }
        }
    }
}

/// Identity of identifiers and funs "by their identifying fields": internal funs are identified by
/// module, indices, uniq, creating pid and environment (arity and the free-variable count are implied).
pub fn ident_same(a: &Val, b: &Val) -> bool {
    match (a, b) {
        (
            Val::IntFun { uniq: u1, index: i1, module: m1, old_index: oi1, old_uniq: ou1, pid: p1, free: f1, .. },
            Val::IntFun { uniq: u2, index: i2, module: m2, old_index: oi2, old_uniq: ou2, pid: p2, free: f2, .. },
        ) => {
            u1 == u2
                && i1 == i2
                && m1 == m2
                && oi1 == oi2
                && ou1 == ou2
                && p1.same(p2)
                && f1.len() == f2.len()
                && f1.iter().zip(f2).all(|(x, y)| erl_cmp(x, y) == Ordering::Equal)
        }
        _ => a.same(b),
    }
}

/// True when the order between the two values is fixed by the property (everything except
/// the internal order among identifiers and funs of the same kind).
pub fn order_is_specified(a: &Val, b: &Val) -> bool {
    let (ra, rb) = (rank(a), rank(b));
    if ra != rb {
        return true;
    }
    !matches!(ra, 2 | 3 | 4 | 5)
}

/// Erlang `==` on values.
pub fn erl_eq(a: &Val, b: &Val) -> bool {
    erl_cmp(a, b) == Ordering::Equal
}

/// Does the value (transitively) contain an identifier or fun, whose mutual order is unspecified?
pub fn contains_unordered_kind(v: &Val) -> bool {
    match v {
        Val::Ref { .. } | Val::Port { .. } | Val::Pid { .. } | Val::ExtFun { .. } | Val::IntFun { .. } => true,
        Val::Tuple(e) => e.iter().any(contains_unordered_kind),
        Val::List { elems, tail } => {
            elems.iter().any(contains_unordered_kind) || contains_unordered_kind(tail)
        }
        Val::Map(e) => e
            .iter()
            .any(|(k, v)| contains_unordered_kind(k) || contains_unordered_kind(v)),
        _ => false,
    }
}

/// Does the value contain a map with both an integer and a float among its keys
/// (Erlang orders such keys by type inside maps; excluded from C12, see DESIGN.md)?
pub fn has_mixed_numeric_map_keys(v: &Val) -> bool {
    match v {
        Val::Map(e) => {
            let ints = e.iter().any(|(k, _)| matches!(k, Val::Int(_)));
            let floats = e.iter().any(|(k, _)| matches!(k, Val::Float(_)));
            (ints && floats)
                || e.iter()
                    .any(|(k, v)| has_mixed_numeric_map_keys(k) || has_mixed_numeric_map_keys(v))
        }
        Val::Tuple(e) => e.iter().any(has_mixed_numeric_map_keys),
        Val::List { elems, tail } => {
            elems.iter().any(has_mixed_numeric_map_keys) || has_mixed_numeric_map_keys(tail)
        }
        Val::IntFun { free, .. } => free.iter().any(has_mixed_numeric_map_keys),
        _ => false,
    }
}
