pub mod decode;
pub mod denote;
pub mod encode;
pub mod val;
pub mod dist;
pub mod md5;
