//! MD5 (RFC 1321), hand-written so that the handshake oracle does not share code with the library.

const S: [u32; 64] = [
    7, 12, 17, 22, 7, 12, 17, 22, 7, 12, 17, 22, 7, 12, 17, 22, 5, 9, 14, 20, 5, 9, 14, 20, 5, 9, 14, 20, 5, 9, 14, 20,
    4, 11, 16, 23, 4, 11, 16, 23, 4, 11, 16, 23, 4, 11, 16, 23, 6, 10, 15, 21, 6, 10, 15, 21, 6, 10, 15, 21, 6, 10, 15, 21,
];

fn k(i: usize) -> u32 {
    ((i as f64 + 1.0).sin().abs() * 4294967296.0) as u32
}

pub fn md5(data: &[u8]) -> [u8; 16] {
    let mut a0: u32 = 0x67452301;
    let mut b0: u32 = 0xefcdab89;
    let mut c0: u32 = 0x98badcfe;
    let mut d0: u32 = 0x10325476;
    let mut msg = data.to_vec();
    let bitlen = (data.len() as u64).wrapping_mul(8);
    msg.push(0x80);
    while msg.len() % 64 != 56 {
        msg.push(0);
    }
    msg.extend_from_slice(&bitlen.to_le_bytes());
    for chunk in msg.chunks(64) {
        let mut m = [0u32; 16];
        for i in 0..16 {
            m[i] = u32::from_le_bytes([chunk[4 * i], chunk[4 * i + 1], chunk[4 * i + 2], chunk[4 * i + 3]]);
        }
        let (mut a, mut b, mut c, mut d) = (a0, b0, c0, d0);
        for i in 0..64 {
            let (mut f, g);
            if i < 16 {
                f = (b & c) | (!b & d);
                g = i;
            } else if i < 32 {
                f = (d & b) | (!d & c);
                g = (5 * i + 1) % 16;
            } else if i < 48 {
                f = b ^ c ^ d;
                g = (3 * i + 5) % 16;
            } else {
                f = c ^ (b | !d);
                g = (7 * i) % 16;
            }
            f = f.wrapping_add(a).wrapping_add(k(i)).wrapping_add(m[g]);
            a = d;
            d = c;
            c = b;
            b = b.wrapping_add(f.rotate_left(S[i]));
        }
        a0 = a0.wrapping_add(a);
        b0 = b0.wrapping_add(b);
        c0 = c0.wrapping_add(c);
        d0 = d0.wrapping_add(d);
    }
    let mut out = [0u8; 16];
    out[0..4].copy_from_slice(&a0.to_le_bytes());
    out[4..8].copy_from_slice(&b0.to_le_bytes());
    out[8..12].copy_from_slice(&c0.to_le_bytes());
    out[12..16].copy_from_slice(&d0.to_le_bytes());
    out
}

/// RFC 1321 test suite; false means the harness itself is broken.
pub fn selfcheck() -> bool {
    let v: [(&str, &str); 5] = [
        ("", "d41d8cd98f00b204e9800998ecf8427e"),
        ("a", "0cc175b9c0f1b6a831c399e269772661"),
        ("abc", "900150983cd24fb0d6963f7d28e17f72"),
        ("message digest", "f96b697d7cb7938d525a2f31aaf161d0"),
        ("12345678901234567890123456789012345678901234567890123456789012345678901234567890", "57edf4a22be3c955ac49da2e2107b67a"),
    ];
    v.iter().all(|(i, o)| crate::out::hex(&md5(i.as_bytes())) == *o)
}

/// Distribution handshake digest: MD5(cookie ++ decimal text of the unsigned challenge).
pub fn challenge_digest(cookie: &str, challenge: u32) -> [u8; 16] {
    let mut v = cookie.as_bytes().to_vec();
    v.extend_from_slice(challenge.to_string().as_bytes());
    md5(&v)
}
