//! Independent writer of the External Term Format that can walk *all admissible encodings*
//! of a value. Every decision goes through a `Chooser`, so the same code serves random sampling
//! and exhaustive enumeration of the alternatives.

use super::val::{Int, Val};
use crate::rng::Rng;
use std::io::Write;

pub trait Chooser {
    /// Pick one of the named alternatives (at least one). Alternative 0 is always the
    /// modern/minimal form; the names identify the encoding alternative (mostly the tag name).
    fn choose(&mut self, alts: &[&'static str]) -> usize;
}

/// Takes the alternative called `name` wherever it is offered, the canonical one elsewhere.
pub struct OnlyNamed(pub &'static str);
impl Chooser for OnlyNamed {
    fn choose(&mut self, alts: &[&'static str]) -> usize {
        alts.iter().position(|a| *a == self.0).unwrap_or(0)
    }
}

/// Takes alternatives from the set `names` at random, canonical elsewhere.
pub struct RandomAmong<'a> {
    pub rng: &'a mut Rng,
    pub names: &'a [&'static str],
    pub percent: u32,
    pub taken: Vec<&'static str>,
}
impl<'a> Chooser for RandomAmong<'a> {
    fn choose(&mut self, alts: &[&'static str]) -> usize {
        let cand: Vec<usize> = (1..alts.len()).filter(|i| self.names.contains(&alts[*i])).collect();
        if cand.is_empty() || !self.rng.chance(self.percent, 100) {
            return 0;
        }
        let k = cand[self.rng.below(cand.len())];
        if self.taken.len() < 64 {
            self.taken.push(alts[k]);
        }
        k
    }
}

/// Always the canonical modern encoding (what OTP 26+ emits for a freshly built term).
pub struct Canonical;
impl Chooser for Canonical {
    fn choose(&mut self, _alts: &[&'static str]) -> usize {
        0
    }
}

/// Random alternatives; `legacy_bias` in 0..=100 is the probability (percent) of leaving the
/// canonical form at a choice point.
pub struct RandomChooser<'a> {
    pub rng: &'a mut Rng,
    pub legacy_bias: u32,
    pub taken: Vec<&'static str>,
}
impl<'a> Chooser for RandomChooser<'a> {
    fn choose(&mut self, alts: &[&'static str]) -> usize {
        let n = alts.len();
        if n <= 1 || !self.rng.chance(self.legacy_bias, 100) {
            return 0;
        }
        let k = 1 + self.rng.below(n - 1);
        if self.taken.len() < 64 {
            self.taken.push(alts[k]);
        }
        k
    }
}

/// Odometer over all choice sequences: call `encode` repeatedly until `advance()` is false.
#[derive(Default)]
pub struct EnumChooser {
    /// (chosen, arity) per choice point of the current run
    pub trail: Vec<(usize, usize)>,
    cursor: usize,
    pub taken: Vec<&'static str>,
}
impl EnumChooser {
    pub fn new() -> Self {
        Self::default()
    }
    pub fn begin(&mut self) {
        self.cursor = 0;
        self.taken.clear();
    }
    /// Move to the next combination; false when all have been visited.
    pub fn advance(&mut self) -> bool {
        self.trail.truncate(self.cursor);
        while let Some((c, n)) = self.trail.pop() {
            if c + 1 < n {
                self.trail.push((c + 1, n));
                return true;
            }
        }
        false
    }
}
impl Chooser for EnumChooser {
    fn choose(&mut self, alts: &[&'static str]) -> usize {
        let n = alts.len();
        let i = self.cursor;
        self.cursor += 1;
        if i < self.trail.len() {
            // arity may legitimately differ if earlier choices changed the path
            let (c, _) = self.trail[i];
            let c = c.min(n - 1);
            self.trail[i] = (c, n);
            if c != 0 {
                self.taken.push(alts[c]);
            }
            c
        } else {
            self.trail.push((0, n));
            0
        }
    }
}

fn put_u16(o: &mut Vec<u8>, v: u16) {
    o.extend_from_slice(&v.to_be_bytes());
}
fn put_u32(o: &mut Vec<u8>, v: u32) {
    o.extend_from_slice(&v.to_be_bytes());
}
fn put_u64(o: &mut Vec<u8>, v: u64) {
    o.extend_from_slice(&v.to_be_bytes());
}

#[derive(Debug, Clone, PartialEq, Eq)]
pub enum EncErr {
    /// the value has a component the format cannot express (name of the component)
    Inexpressible(&'static str),
}

pub struct Opts {
    /// allow wrapping sub-terms in LOCAL_EXT (hash bytes drawn from `local_hash`)
    pub allow_local: bool,
    pub local_hash: [u8; 8],
    /// restrict to the tags a current OTP release emits over distribution
    pub modern_only: bool,
    /// atoms that are written as ATOM_CACHE_REF <position in the distribution header>
    pub atom_refs: Option<std::collections::HashMap<String, u8>>,
}

impl Default for Opts {
    fn default() -> Self {
        Opts {
            allow_local: false,
            local_hash: [0xA5, 1, 2, 3, 4, 5, 6, 0x5A],
            modern_only: false,
            atom_refs: None,
        }
    }
}

pub fn c_float_text(f: f64) -> Vec<u8> {
    // C's "%.20e": d.dddddddddddddddddddde[+-]XX, NUL padded to 31 bytes
    let s = format!("{:.20e}", f);
    let (mant, exp) = s.split_once('e').unwrap();
    let expv: i32 = exp.parse().unwrap();
    let txt = format!(
        "{}e{}{:02}",
        mant,
        if expv < 0 { '-' } else { '+' },
        expv.abs()
    );
    let mut b = txt.into_bytes();
    assert!(b.len() <= 31);
    b.resize(31, 0);
    b
}

fn is_latin1(s: &str) -> bool {
    s.chars().all(|c| (c as u32) <= 0xff)
}

pub fn encode_atom(o: &mut Vec<u8>, a: &str, ch: &mut dyn Chooser, opts: &Opts) -> Result<(), EncErr> {
    if let Some(refs) = &opts.atom_refs {
        if let Some(pos) = refs.get(a) {
            o.push(82);
            o.push(*pos);
            return Ok(());
        }
    }
    let b = a.as_bytes();
    if b.len() > 65535 {
        return Err(EncErr::Inexpressible("atom > 65535 bytes"));
    }
    // alternatives: 0 = minimal UTF-8 tag, then the remaining admissible ones
    let mut alts: Vec<u8> = Vec::new();
    let mut names: Vec<&'static str> = Vec::new();
    if b.len() <= 255 {
        alts.push(119);
        names.push("SMALL_ATOM_UTF8_EXT");
    }
    alts.push(118);
    names.push(if b.len() <= 255 { "ATOM_UTF8_EXT/nonminimal" } else { "ATOM_UTF8_EXT" });
    if !opts.modern_only && is_latin1(a) {
        let nchars = a.chars().count();
        let high = a.chars().any(|c| c as u32 >= 0x80);
        if nchars <= 255 {
            alts.push(115);
            names.push(if high { "SMALL_ATOM_EXT/latin1-high" } else { "SMALL_ATOM_EXT" });
        }
        if nchars <= 65535 {
            alts.push(100);
            names.push(if high { "ATOM_EXT/latin1-high" } else { "ATOM_EXT" });
        }
    }
    let tag = alts[ch.choose(&names)];
    match tag {
        119 => {
            o.push(119);
            o.push(b.len() as u8);
            o.extend_from_slice(b);
        }
        118 => {
            o.push(118);
            put_u16(o, b.len() as u16);
            o.extend_from_slice(b);
        }
        115 => {
            let l: Vec<u8> = a.chars().map(|c| c as u32 as u8).collect();
            o.push(115);
            o.push(l.len() as u8);
            o.extend_from_slice(&l);
        }
        _ => {
            let l: Vec<u8> = a.chars().map(|c| c as u32 as u8).collect();
            o.push(100);
            put_u16(o, l.len() as u16);
            o.extend_from_slice(&l);
        }
    }
    Ok(())
}

fn encode_int(o: &mut Vec<u8>, i: &Int, ch: &mut dyn Chooser, opts: &Opts) -> Result<(), EncErr> {
    let small = i.to_i128();
    let mut alts: Vec<u8> = Vec::new();
    // minimal first
    match small {
        Some(v) if (0..=255).contains(&v) => alts.push(97),
        Some(v) if v >= i32::MIN as i128 && v <= i32::MAX as i128 => alts.push(98),
        _ => {}
    }
    if !opts.modern_only || alts.is_empty() {
        if let Some(v) = small {
            if (0..=255).contains(&v) && !alts.contains(&98) {
                alts.push(98);
            }
        }
        if i.mag.len() <= 255 {
            alts.push(110);
            if !opts.modern_only {
                alts.push(210); // SMALL_BIG padded with a zero digit
            }
        }
        if !opts.modern_only || i.mag.len() > 255 {
            alts.push(111);
        }
    }
    let names: Vec<&'static str> = alts
        .iter()
        .enumerate()
        .map(|(k, t)| match (*t, k) {
            (97, _) => "SMALL_INTEGER_EXT",
            (98, 0) => "INTEGER_EXT",
            (98, _) => "INTEGER_EXT/nonminimal",
            (110, 0) => "SMALL_BIG_EXT",
            (110, _) => "SMALL_BIG_EXT/nonminimal",
            (210, _) => "SMALL_BIG_EXT/zero-padded",
            (111, 0) => "LARGE_BIG_EXT",
            _ => "LARGE_BIG_EXT/nonminimal",
        })
        .collect();
    let tag = alts[ch.choose(&names)];
    match tag {
        97 => {
            o.push(97);
            o.push(small.unwrap() as u8);
        }
        98 => {
            o.push(98);
            o.extend_from_slice(&(small.unwrap() as i32).to_be_bytes());
        }
        110 => {
            o.push(110);
            o.push(i.mag.len() as u8);
            o.push(i.neg as u8);
            o.extend_from_slice(&i.mag);
        }
        210 => {
            if i.mag.len() >= 255 {
                o.push(110);
                o.push(i.mag.len() as u8);
                o.push(i.neg as u8);
                o.extend_from_slice(&i.mag);
            } else {
                o.push(110);
                o.push(i.mag.len() as u8 + 1);
                o.push(i.neg as u8);
                o.extend_from_slice(&i.mag);
                o.push(0);
            }
        }
        _ => {
            if i.mag.len() > u32::MAX as usize {
                return Err(EncErr::Inexpressible("bignum digits"));
            }
            o.push(111);
            put_u32(o, i.mag.len() as u32);
            o.push(i.neg as u8);
            o.extend_from_slice(&i.mag);
        }
    }
    Ok(())
}

fn wrap_local(o: &mut Vec<u8>, ch: &mut dyn Chooser, opts: &Opts, what: &'static str) {
    let _ = what;
    if opts.allow_local && !opts.modern_only && ch.choose(&["plain", "LOCAL_EXT"]) == 1 {
        o.push(121);
        o.extend_from_slice(&opts.local_hash);
    }
}

pub fn encode_term(o: &mut Vec<u8>, v: &Val, ch: &mut dyn Chooser, opts: &Opts) -> Result<(), EncErr> {
    match v {
        Val::Int(i) => encode_int(o, i, ch, opts),
        Val::Float(bits) => {
            let f = f64::from_bits(*bits);
            let alts: &[&'static str] = if opts.modern_only || !f.is_finite() {
                &["NEW_FLOAT_EXT"]
            } else {
                &["NEW_FLOAT_EXT", "FLOAT_EXT"]
            };
            if ch.choose(alts) == 1 {
                o.push(99);
                o.extend_from_slice(&c_float_text(f));
            } else {
                o.push(70);
                put_u64(o, *bits);
            }
            Ok(())
        }
        Val::Atom(a) => encode_atom(o, a, ch, opts),
        Val::Bits { bytes, bits } => {
            if bytes.len() > u32::MAX as usize {
                return Err(EncErr::Inexpressible("binary length"));
            }
            if bits % 8 == 0 {
                let alts: &[&'static str] = if opts.modern_only || bytes.is_empty() {
                    &["BINARY_EXT"]
                } else {
                    &["BINARY_EXT", "BIT_BINARY_EXT/bits8"]
                };
                if ch.choose(alts) == 1 {
                    o.push(77);
                    put_u32(o, bytes.len() as u32);
                    o.push(8);
                } else {
                    o.push(109);
                    put_u32(o, bytes.len() as u32);
                }
                o.extend_from_slice(bytes);
            } else {
                o.push(77);
                put_u32(o, bytes.len() as u32);
                o.push((bits % 8) as u8);
                o.extend_from_slice(bytes);
            }
            Ok(())
        }
        Val::Nil => {
            o.push(106);
            Ok(())
        }
        Val::List { elems, tail } => {
            if elems.len() > u32::MAX as usize {
                return Err(EncErr::Inexpressible("list length"));
            }
            let stringable = **tail == Val::Nil
                && elems.len() <= 65535
                && elems.iter().all(|e| match e {
                    Val::Int(i) => matches!(i.to_i128(), Some(v) if (0..=255).contains(&v)),
                    _ => false,
                });
            if stringable && ch.choose(&["LIST_EXT", "STRING_EXT"]) == 1 {
                o.push(107);
                put_u16(o, elems.len() as u16);
                for e in elems {
                    if let Val::Int(i) = e {
                        o.push(i.to_i128().unwrap() as u8);
                    }
                }
                return Ok(());
            }
            // the format does not require the tail of a LIST_EXT to be NIL or a non-list: the same list may be
            // written as a head of k elements whose tail is the encoding of the remaining list
            if elems.len() >= 2 && ch.choose(&["LIST_EXT", "LIST_EXT/tail-is-a-list"]) == 1 {
                let k = 1 + (elems.len() - 1) / 2;
                o.push(108);
                put_u32(o, k as u32);
                for e in &elems[..k] {
                    encode_term(o, e, ch, opts)?;
                }
                let rest = Val::List { elems: elems[k..].to_vec(), tail: tail.clone() };
                return encode_term(o, &rest, ch, opts);
            }
            o.push(108);
            put_u32(o, elems.len() as u32);
            for e in elems {
                encode_term(o, e, ch, opts)?;
            }
            encode_term(o, tail, ch, opts)
        }
        Val::Tuple(e) => {
            if e.len() > u32::MAX as usize {
                return Err(EncErr::Inexpressible("tuple arity"));
            }
            let alts: &[&'static str] = if e.len() <= 255 && !opts.modern_only {
                &["SMALL_TUPLE_EXT", "LARGE_TUPLE_EXT/nonminimal"]
            } else {
                &["TUPLE"]
            };
            let large = e.len() > 255 || ch.choose(alts) == 1;
            if large {
                o.push(105);
                put_u32(o, e.len() as u32);
            } else {
                o.push(104);
                o.push(e.len() as u8);
            }
            for x in e {
                encode_term(o, x, ch, opts)?;
            }
            Ok(())
        }
        Val::Map(e) => {
            if e.len() > u32::MAX as usize {
                return Err(EncErr::Inexpressible("map size"));
            }
            o.push(116);
            put_u32(o, e.len() as u32);
            let rev = e.len() > 1 && ch.choose(&["map-order", "map-order/reversed"]) == 1;
            let it: Box<dyn Iterator<Item = &(Val, Val)>> = if rev {
                Box::new(e.iter().rev())
            } else {
                Box::new(e.iter())
            };
            for (k, v) in it {
                encode_term(o, k, ch, opts)?;
                encode_term(o, v, ch, opts)?;
            }
            Ok(())
        }
        Val::Pid {
            node,
            id,
            serial,
            creation,
        } => {
            wrap_local(o, ch, opts, "local-pid");
            let alts: &[&'static str] = if !opts.modern_only && *creation <= 3 {
                &["NEW_PID_EXT", "PID_EXT"]
            } else {
                &["NEW_PID_EXT"]
            };
            if ch.choose(alts) == 1 {
                o.push(103);
                encode_atom(o, node, ch, opts)?;
                put_u32(o, *id);
                put_u32(o, *serial);
                o.push(*creation as u8);
            } else {
                o.push(88);
                encode_atom(o, node, ch, opts)?;
                put_u32(o, *id);
                put_u32(o, *serial);
                put_u32(o, *creation);
            }
            Ok(())
        }
        Val::Port { node, id, creation } => {
            wrap_local(o, ch, opts, "local-port");
            let mut alts = vec![120u8];
            let mut names: Vec<&'static str> = vec!["V4_PORT_EXT"];
            // NEW_PORT_EXT is what OTP 24+ emits for every port whose number fits 28 bits
            if *id < (1u64 << 28) || (!opts.modern_only && *id <= u32::MAX as u64) {
                alts.push(89);
                names.push("NEW_PORT_EXT");
            }
            if !opts.modern_only && *id <= u32::MAX as u64 && *creation <= 3 {
                alts.push(102);
                names.push("PORT_EXT");
            }
            match alts[ch.choose(&names)] {
                120 => {
                    o.push(120);
                    encode_atom(o, node, ch, opts)?;
                    put_u64(o, *id);
                    put_u32(o, *creation);
                }
                89 => {
                    o.push(89);
                    encode_atom(o, node, ch, opts)?;
                    put_u32(o, *id as u32);
                    put_u32(o, *creation);
                }
                _ => {
                    o.push(102);
                    encode_atom(o, node, ch, opts)?;
                    put_u32(o, *id as u32);
                    o.push(*creation as u8);
                }
            }
            Ok(())
        }
        Val::Ref {
            node,
            creation,
            ids,
        } => {
            if ids.len() > 65535 {
                return Err(EncErr::Inexpressible("reference words"));
            }
            wrap_local(o, ch, opts, "local-ref");
            let mut alts = vec![90u8];
            let mut names: Vec<&'static str> = vec!["NEWER_REFERENCE_EXT"];
            if !opts.modern_only && *creation <= 3 {
                alts.push(114);
                names.push("NEW_REFERENCE_EXT");
                if ids.len() == 1 {
                    alts.push(101);
                    names.push("REFERENCE_EXT");
                }
            }
            match alts[ch.choose(&names)] {
                90 => {
                    o.push(90);
                    put_u16(o, ids.len() as u16);
                    encode_atom(o, node, ch, opts)?;
                    put_u32(o, *creation);
                    for i in ids {
                        put_u32(o, *i);
                    }
                }
                114 => {
                    o.push(114);
                    put_u16(o, ids.len() as u16);
                    encode_atom(o, node, ch, opts)?;
                    o.push(*creation as u8);
                    for i in ids {
                        put_u32(o, *i);
                    }
                }
                _ => {
                    o.push(101);
                    encode_atom(o, node, ch, opts)?;
                    put_u32(o, ids[0]);
                    o.push(*creation as u8);
                }
            }
            Ok(())
        }
        Val::ExtFun {
            module,
            function,
            arity,
        } => {
            o.push(113);
            encode_atom(o, module, ch, opts)?;
            encode_atom(o, function, ch, opts)?;
            o.push(97);
            o.push(*arity);
            Ok(())
        }
        Val::IntFun {
            arity,
            uniq,
            index,
            num_free,
            module,
            old_index,
            old_uniq,
            pid,
            free,
        } => {
            let mut body: Vec<u8> = Vec::new();
            body.push(*arity);
            body.extend_from_slice(uniq);
            put_u32(&mut body, *index);
            put_u32(&mut body, *num_free);
            encode_atom(&mut body, module, ch, opts)?;
            for x in [old_index, old_uniq] {
                match x.to_i128() {
                    Some(v) if (0..=255).contains(&v) => {
                        body.push(97);
                        body.push(v as u8);
                    }
                    Some(v) if v >= i32::MIN as i128 && v <= i32::MAX as i128 => {
                        body.push(98);
                        body.extend_from_slice(&(v as i32).to_be_bytes());
                    }
                    _ => return Err(EncErr::Inexpressible("fun OldIndex/OldUniq beyond INTEGER_EXT")),
                }
            }
            encode_term(&mut body, pid, ch, opts)?;
            for f in free {
                encode_term(&mut body, f, ch, opts)?;
            }
            if body.len() + 4 > u32::MAX as usize {
                return Err(EncErr::Inexpressible("fun size"));
            }
            o.push(112);
            put_u32(o, body.len() as u32 + 4);
            o.extend_from_slice(&body);
            Ok(())
        }
    }
}

/// Full external encoding: version byte, optionally COMPRESSED at top level.
pub fn ref_encode(v: &Val, ch: &mut dyn Chooser, opts: &Opts) -> Result<Vec<u8>, EncErr> {
    let mut body = Vec::new();
    encode_term(&mut body, v, ch, opts)?;
    let alts: &[&'static str] = if opts.modern_only {
        &["uncompressed"]
    } else {
        &["uncompressed", "COMPRESSED"]
    };
    let mut out = vec![131u8];
    if ch.choose(alts) == 1 {
        if body.len() > u32::MAX as usize {
            return Err(EncErr::Inexpressible("compressed size"));
        }
        out.push(80);
        put_u32(&mut out, body.len() as u32);
        let mut enc = flate2::write::ZlibEncoder::new(Vec::new(), flate2::Compression::fast());
        enc.write_all(&body).unwrap();
        out.extend_from_slice(&enc.finish().unwrap());
    } else {
        out.extend_from_slice(&body);
    }
    Ok(out)
}

pub fn ref_encode_canonical(v: &Val) -> Result<Vec<u8>, EncErr> {
    ref_encode(v, &mut Canonical, &Opts::default())
}
