//! Small deterministic PRNG (xoshiro256** seeded by splitmix64). No external crates.

#[derive(Clone, Debug)]
pub struct Rng {
    s: [u64; 4],
}

fn splitmix(x: &mut u64) -> u64 {
    *x = x.wrapping_add(0x9E37_79B9_7F4A_7C15);
    let mut z = *x;
    z = (z ^ (z >> 30)).wrapping_mul(0xBF58_476D_1CE4_E5B9);
    z = (z ^ (z >> 27)).wrapping_mul(0x94D0_49BB_1331_11EB);
    z ^ (z >> 31)
}

impl Rng {
    pub fn new(seed: u64) -> Self {
        let mut x = seed;
        Rng {
            s: [
                splitmix(&mut x),
                splitmix(&mut x),
                splitmix(&mut x),
                splitmix(&mut x),
            ],
        }
    }

    /// Independent stream derived from this seed and a label.
    pub fn derive(seed: u64, a: u64, b: u64) -> Self {
        let mut x = seed ^ a.wrapping_mul(0xD6E8_FEB8_6659_FD93) ^ b.wrapping_mul(0xA076_1D64_78BD_642F);
        let _ = splitmix(&mut x);
        Rng::new(x)
    }

    pub fn next_u64(&mut self) -> u64 {
        let s = &mut self.s;
        let result = s[1].wrapping_mul(5).rotate_left(7).wrapping_mul(9);
        let t = s[1] << 17;
        s[2] ^= s[0];
        s[3] ^= s[1];
        s[1] ^= s[2];
        s[0] ^= s[3];
        s[2] ^= t;
        s[3] = s[3].rotate_left(45);
        result
    }

    pub fn next_u32(&mut self) -> u32 {
        (self.next_u64() >> 32) as u32
    }

    /// Uniform in 0..n (n > 0).
    pub fn below(&mut self, n: usize) -> usize {
        if n <= 1 {
            return 0;
        }
        (self.next_u64() % (n as u64)) as usize
    }

    pub fn range(&mut self, lo: i64, hi_incl: i64) -> i64 {
        let span = (hi_incl - lo) as u64 + 1;
        lo + (self.next_u64() % span) as i64
    }

    pub fn chance(&mut self, num: u32, den: u32) -> bool {
        (self.next_u64() % den as u64) < num as u64
    }

    pub fn bool(&mut self) -> bool {
        self.next_u64() & 1 == 1
    }

    pub fn pick<'a, T>(&mut self, xs: &'a [T]) -> &'a T {
        &xs[self.below(xs.len())]
    }

    pub fn bytes(&mut self, n: usize) -> Vec<u8> {
        let mut v = Vec::with_capacity(n);
        while v.len() < n {
            let x = self.next_u64().to_le_bytes();
            let take = (n - v.len()).min(8);
            v.extend_from_slice(&x[..take]);
        }
        v
    }

    pub fn shuffle<T>(&mut self, xs: &mut [T]) {
        for i in (1..xs.len()).rev() {
            let j = self.below(i + 1);
            xs.swap(i, j);
        }
    }
}

/// FNV-1a 64 for cheap, stable hashing of traces / classes.
pub fn fnv(data: &[u8]) -> u64 {
    let mut h: u64 = 0xcbf2_9ce4_8422_2325;
    for b in data {
        h ^= *b as u64;
        h = h.wrapping_mul(0x0000_0100_0000_01B3);
    }
    h
}
