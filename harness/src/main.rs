//! `vh <property> [--tier quick|thorough] [--seed N] [--replay file] [--budget secs]`
//! Runs the workload + monitors of one property against the library built from /repo's
//! working tree and prints one `RESULT {json}` line. Exit code: 0 = ran, 2 = harness problem.

mod genr;
mod mon;
mod out;
mod props;
mod refmodel;
mod rng;

use out::{Ctx, Tier};

#[global_allocator]
static GLOBAL: mon::alloc::CountingAlloc = mon::alloc::CountingAlloc;

fn main() {
    let args: Vec<String> = std::env::args().collect();
    if args.len() < 2 {
        eprintln!("usage: vh <property|selftest> [--tier quick|thorough] [--seed N] [--replay file]");
        std::process::exit(2);
    }
    let prop = args[1].to_lowercase();
    if prop == "c02-child" {
        props::c02::child_main();
        return;
    }
    let mut tier = Tier::Quick;
    let mut seed: u64 = 1;
    let mut replay = None;
    let mut budget = 0.0f64;
    let mut rest: Vec<String> = Vec::new();
    let mut i = 2;
    while i < args.len() {
        match args[i].as_str() {
            "--tier" => {
                i += 1;
                tier = if args[i] == "thorough" { Tier::Thorough } else { Tier::Quick };
            }
            "--seed" => {
                i += 1;
                seed = args[i].parse().unwrap_or(1);
            }
            "--budget" => {
                i += 1;
                budget = args[i].parse().unwrap_or(0.0);
            }
            "--replay" => {
                i += 1;
                let txt = std::fs::read_to_string(&args[i]).expect("replay file");
                replay = Some(serde_json::from_str(&txt).expect("replay json"));
            }
            other => rest.push(other.to_string()),
        }
        i += 1;
    }
    let mut ctx = Ctx::new(&prop, tier, seed, replay);
    ctx.budget_s = budget;
    // leaked on purpose: the stall watchdog thread (out.rs) needs it for the life of the process
    let ctx: &'static Ctx = Box::leak(Box::new(ctx));
    let ok = props::dispatch(&prop, ctx, &rest);
    if !ok {
        eprintln!("unknown property {}", prop);
        std::process::exit(2);
    }
    let res = ctx.finish();
    println!("RESULT {}", res);
}
