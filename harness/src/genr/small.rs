//! Exhaustive small structures: every list, improper list, tuple and map of up to four (maps: two) elements
//! over a handful of the smallest leaves, bare and placed last / first inside one more container. Boundary
//! arithmetic on counts and remaining bytes ("every element takes at least two bytes") is decided by exactly
//! such values - a list of empty lists, a tuple of empty tuples - which random generators rarely produce.

use crate::refmodel::val::Val;

fn leaves() -> Vec<Val> {
    vec![Val::Nil, Val::int(1), Val::atom("a"), Val::Tuple(vec![]), Val::binary(&[]), Val::Map(vec![]), Val::float(0.0)]
}

fn sequences(of: &[Val], max_len: usize) -> Vec<Vec<Val>> {
    let mut out: Vec<Vec<Val>> = vec![vec![]];
    let mut frontier: Vec<Vec<Val>> = vec![vec![]];
    for _ in 0..max_len {
        let mut next = Vec::new();
        for s in &frontier {
            for l in of {
                let mut t = s.clone();
                t.push(l.clone());
                next.push(t);
            }
        }
        out.extend(next.iter().cloned());
        frontier = next;
    }
    out
}

pub fn all_small_values() -> Vec<Val> {
    let ls = leaves();
    let mut level1: Vec<Val> = ls.clone();
    for s in sequences(&ls, 4) {
        if !s.is_empty() {
            level1.push(Val::list(s.clone()));
            // improper: the last element becomes the tail when it is not a list
            if s.len() >= 2 && !matches!(s[s.len() - 1], Val::Nil) {
                let mut e = s.clone();
                let t = e.pop().unwrap();
                level1.push(Val::cons(e, t));
            }
        }
        level1.push(Val::Tuple(s));
    }
    // maps with one or two distinct small keys
    let keys = [Val::Nil, Val::int(1), Val::atom("a"), Val::Tuple(vec![])];
    for (i, k) in keys.iter().enumerate() {
        for v in &ls {
            level1.push(Val::Map(vec![(k.clone(), v.clone())]));
            for k2 in &keys[i + 1..] {
                level1.push(Val::Map(vec![(k.clone(), v.clone()), (k2.clone(), Val::Nil)]));
            }
        }
    }
    level1
}

/// The small values bare and in the positions where "what comes after it" differs: last in a tuple, first in a
/// tuple, list element before the tail, list tail, map value, map key.
pub fn placed(v: &Val) -> Vec<Val> {
    let mut out = vec![
        v.clone(),
        Val::Tuple(vec![Val::atom("ok"), v.clone()]),
        Val::Tuple(vec![v.clone(), Val::atom("ok")]),
        Val::list(vec![v.clone()]),
        Val::Map(vec![(Val::atom("k"), v.clone())]),
    ];
    if !matches!(v, Val::Nil | Val::List { .. }) {
        out.push(Val::cons(vec![Val::int(1)], v.clone()));
    }
    if !crate::genr::val::contains_float(v) {
        out.push(Val::Map(vec![(v.clone(), Val::atom("v"))]));
    }
    out
}
