//! Seeded generators of Erlang values: boundary pools straight from the quantifiers of the
//! properties, and random trees over all kinds.

use crate::refmodel::val::{Int, Val};
use crate::rng::Rng;

#[derive(Clone, Debug)]
pub struct GenCfg {
    pub max_depth: usize,
    /// soft cap on the number of nodes of a generated tree
    pub max_nodes: usize,
    /// allow maps whose keys are numerically equal but distinct (1 and 1.0)
    pub numeric_twin_keys: bool,
    /// allow very large leaves (64 KiB atoms, 65535-word references, 300-digit bignums)
    pub huge_leaves: bool,
    /// identifiers / funs allowed
    pub ids: bool,
    pub funs: bool,
    /// floats allowed as map keys (off where -0.0/0.0 or int/float twins would be ambiguous)
    pub float_keys: bool,
}

impl Default for GenCfg {
    fn default() -> Self {
        GenCfg {
            max_depth: 5,
            max_nodes: 60,
            numeric_twin_keys: false,
            huge_leaves: false,
            ids: true,
            funs: true,
            float_keys: false,
        }
    }
}

pub fn pow2(k: u32) -> i128 {
    1i128 << k
}

/// Integers at every encoding / representation boundary named by the properties.
pub fn boundary_ints() -> Vec<Int> {
    let mut v: Vec<i128> = vec![0, 1, 2, 127, 128, 254, 255, 256, 257, 65535, 65536];
    for k in [15u32, 16, 24, 27, 28, 31, 32, 40, 48, 52, 53, 54, 56, 59, 60, 62, 63, 64, 65, 72, 100, 120] {
        for d in [-2i128, -1, 0, 1, 2] {
            v.push(pow2(k) + d);
        }
    }
    v.push(100_000_000_000_000_000_000i128); // 10^20
    v.push(100_000_000_000_000_000_001i128);
    v.push(i64::MAX as i128);
    v.push(i64::MIN as i128);
    v.push(i64::MIN as i128 - 1);
    v.push(u64::MAX as i128);
    v.push(u64::MAX as i128 + 1);
    let mut out: Vec<Int> = Vec::new();
    for x in v {
        out.push(Int::from_i128(x));
        out.push(Int::from_i128(-x));
    }
    // multi-digit big integers of equal length differing in a low / a high digit
    let base: Vec<u8> = (1..=12u8).collect();
    let mut lo = base.clone();
    lo[0] = 200;
    let mut hi = base.clone();
    hi[11] = 200;
    for m in [base, lo, hi] {
        out.push(Int::from_parts(false, m.clone()));
        out.push(Int::from_parts(true, m));
    }
    // 255 / 256-digit boundary, and a 300-digit one
    for n in [254usize, 255, 256, 257, 300] {
        let mut m = vec![0x5au8; n];
        m[n - 1] = 1;
        out.push(Int::from_parts(false, m.clone()));
        out.push(Int::from_parts(true, m));
    }
    out.sort_by(|a, b| a.cmp_int(b));
    out.dedup();
    out
}

pub fn boundary_floats() -> Vec<f64> {
    let mut v = vec![
        0.0,
        -0.0,
        1.0,
        -1.0,
        0.5,
        1.5,
        -1.5,
        255.0,
        256.0,
        f64::MIN_POSITIVE,
        f64::MIN_POSITIVE / 2.0, // subnormal
        5e-324,
        f64::MAX,
        f64::MIN,
        f64::EPSILON,
        1e20,
        1e20 + 16384.0,
        123456.789,
        -2.5e-300,
    ];
    for k in [31u32, 32, 52, 53, 54, 62, 63, 64, 65, 100] {
        let p = (2.0f64).powi(k as i32);
        for f in [p, next_up(p), next_down(p), -p, -next_up(p), -next_down(p)] {
            v.push(f);
        }
    }
    // floats adjacent to small integers
    for i in [1.0f64, 2.0, 255.0, 2147483647.0, 2147483648.0] {
        v.push(next_up(i));
        v.push(next_down(i));
    }
    v
}

pub fn next_up(f: f64) -> f64 {
    if f == 0.0 {
        return f64::from_bits(1);
    }
    let b = f.to_bits();
    if f > 0.0 {
        f64::from_bits(b + 1)
    } else {
        f64::from_bits(b - 1)
    }
}
pub fn next_down(f: f64) -> f64 {
    -next_up(-f)
}

const ATOM_WORDS: &[&str] = &[
    "", "a", "b", "ok", "error", "true", "false", "nil", "undefined", "rex", "node@host", "Elixir.Foo",
    "é", "日本", "𝔘", "a b", "x@y.z", "ÿ", "\u{80}", "zz",
    // Latin-1 text whose byte string is also well-formed UTF-8 (C3 A9, C2 B5, E2 82 AC ...)
    "Ã©", "Âµ", "â\u{82}¬", "cafÃ©", "Ã\u{9f}x",
];

/// Atoms an Erlang node actually sends: exit reasons, error classes, message tags, common module and
/// function names, booleans and friends. Implementations like to special-case (intern, pre-hash, shortcut)
/// such names, so the generators use the real vocabulary and not only synthetic strings.
pub const OTP_VOCABULARY: &[&str] = &[
    "ok", "error", "true", "false", "undefined", "nil", "infinity", "normal", "shutdown", "kill", "killed", "noproc", "noconnection", "nodedown",
    "nodeup", "timeout", "timeout_value", "badarg", "badarith", "badmatch", "badfun", "badarity", "badkey", "badmap", "badrecord", "badrpc", "undef",
    "function_clause", "case_clause", "if_clause", "try_clause", "nocatch", "system_limit", "noreply", "reply", "stop", "ignore", "EXIT", "DOWN",
    "process", "port", "rex", "call", "cast", "$gen_call", "$gen_cast", "$gen_event", "$ancestors", "$initial_call", "system", "user", "init",
    "erlang", "lists", "maps", "gen_server", "gen_statem", "gen_event", "supervisor", "application", "net_kernel", "global", "rpc", "erpc", "io",
    "file", "ets", "code", "kernel", "stdlib", "os", "timer", "proc_lib", "sys", "logger", "error_logger", "alias", "monitor", "demonitor", "link",
    "unlink", "spawn", "spawn_reply", "send", "reg_send", "exit", "exit2", "group_leader", "trap_exit", "apply", "node", "nonode@nohost", "self",
    "start", "start_link", "handle_call", "handle_cast", "handle_info", "terminate", "code_change", "module", "function", "arity", "line", "reason",
    "state", "data", "name", "value", "key", "id", "type", "result", "info", "warning", "debug", "notice", "critical", "enoent", "eacces", "eexist",
    "closed", "econnrefused", "econnreset", "etimedout", "einval", "Elixir.Kernel", "Elixir.Enum", "Elixir.String", "Elixir.GenServer", "Elixir.Map",
    "Elixir.MapSet", "Elixir.Range", "Elixir.Date", "Elixir.Time", "Elixir.DateTime", "Elixir.NaiveDateTime", "Elixir.ArgumentError",
    "Elixir.RuntimeError", "Elixir.KeyError", "Elixir.FunctionClauseError", "Elixir.UndefinedFunctionError", "__struct__", "__exception__",
    "message", "first", "last", "step", "year", "month", "day", "hour", "minute", "second", "microsecond", "calendar", "Elixir.Calendar.ISO",
    "time_zone", "zone_abbr", "utc_offset", "std_offset", "map", "args", "term", "struct", "exception",
];

pub fn gen_atom(rng: &mut Rng, cfg: &GenCfg) -> String {
    match rng.below(20) {
        0 => {
            // length boundaries: 255 / 256 bytes, with multi-byte characters
            let n = *rng.pick(&[254usize, 255, 256, 257, 300]);
            let mut s = String::new();
            while s.len() + 2 <= n {
                s.push(*rng.pick(&['a', 'é', 'z']));
            }
            while s.len() < n {
                s.push('x');
            }
            s
        }
        1 if cfg.huge_leaves => {
            let n = *rng.pick(&[1020usize, 65535]);
            let mut s = String::with_capacity(n);
            while s.len() + 4 <= n {
                s.push(*rng.pick(&['q', 'ü', '日', '𝔘']));
            }
            while s.len() < n {
                s.push('y');
            }
            s
        }
        5 => {
            // the bytes of some UTF-8 text, read as Latin-1 characters
            let src: String = (0..1 + rng.below(6)).map(|_| *rng.pick(&['é', 'ß', 'µ', 'ü', '€', 'a', '日'])).collect();
            src.bytes().map(|b| b as char).collect()
        }
        6 | 7 | 8 => rng.pick(OTP_VOCABULARY).to_string(),
        2..=4 => {
            let n = rng.below(12);
            (0..n)
                .map(|_| *rng.pick(&['a', 'b', 'c', '_', '@', '1', 'é', 'ÿ', '日', 'Z']))
                .collect()
        }
        _ => rng.pick(ATOM_WORDS).to_string(),
    }
}

pub fn gen_node(rng: &mut Rng) -> String {
    match rng.below(6) {
        0 => "n@h".to_string(),
        1 => "nonode@nohost".to_string(),
        2 => "é@ÿ".to_string(),
        3 => {
            let n = 1 + rng.below(255);
            let mut s = String::new();
            for i in 0..n {
                s.push(if i == n / 2 { '@' } else { 'k' });
            }
            s
        }
        _ => format!("node{}@host{}", rng.below(4), rng.below(3)),
    }
}

pub fn gen_int(rng: &mut Rng, cfg: &GenCfg, pool: &[Int]) -> Int {
    match rng.below(10) {
        0..=3 => rng.pick(pool).clone(),
        4 => Int::from_i128(rng.range(-300, 300) as i128),
        5 => Int::from_i128(rng.next_u64() as i64 as i128),
        6 => Int::from_i128((rng.next_u64() as i64 as i128) >> rng.below(48)),
        7 => {
            let n = 1 + rng.below(if cfg.huge_leaves { 300 } else { 24 });
            let mut m = rng.bytes(n);
            if m[n - 1] == 0 {
                m[n - 1] = 1;
            }
            Int::from_parts(rng.bool(), m)
        }
        _ => Int::from_i128(rng.range(0, 255) as i128),
    }
}

pub fn gen_float(rng: &mut Rng, pool: &[f64]) -> f64 {
    match rng.below(6) {
        0..=2 => *rng.pick(pool),
        3 => {
            // random finite bit pattern
            loop {
                let f = f64::from_bits(rng.next_u64());
                if f.is_finite() {
                    return f;
                }
            }
        }
        4 => (rng.range(-1_000_000, 1_000_000) as f64) / 1000.0,
        _ => (rng.next_u64() >> rng.below(40)) as f64,
    }
}

pub fn gen_bits(rng: &mut Rng, cfg: &GenCfg) -> Val {
    let n = match rng.below(12) {
        0 => 0,
        1 => 255 + rng.below(3),
        2 if cfg.huge_leaves => 65535 + rng.below(3),
        _ => rng.below(20),
    };
    let bytes = match rng.below(4) {
        0 => vec![b'a' + (rng.below(3) as u8); n],
        1 => "héllo wörld ✓".as_bytes().iter().cycle().take(n).cloned().collect(),
        _ => rng.bytes(n),
    };
    if n > 0 && rng.chance(1, 3) {
        Val::bitstring(&bytes, 1 + rng.below(7) as u8)
    } else {
        Val::binary(&bytes)
    }
}

pub fn gen_pid(rng: &mut Rng) -> Val {
    Val::Pid {
        node: gen_node(rng),
        id: *rng.pick(&[0u32, 1, 32767, 32768, 0x0fff_ffff, u32::MAX, 77]),
        serial: *rng.pick(&[0u32, 1, 8191, 8192, u32::MAX, 5]),
        creation: *rng.pick(&[0u32, 1, 3, 4, 255, 256, u32::MAX, 1234567]),
    }
}

pub fn gen_port(rng: &mut Rng) -> Val {
    Val::Port {
        node: gen_node(rng),
        id: *rng.pick(&[0u64, 1, 0x0fff_ffff, u32::MAX as u64, u32::MAX as u64 + 1, u64::MAX, 99]),
        creation: *rng.pick(&[0u32, 1, 3, 4, 255, 256, u32::MAX]),
    }
}

pub fn gen_ref(rng: &mut Rng, cfg: &GenCfg) -> Val {
    let n = match rng.below(16) {
        0 => 0,
        1 if cfg.huge_leaves => *rng.pick(&[255usize, 256, 65535]),
        2 => 1,
        3 => 5,
        _ => 1 + rng.below(5),
    };
    Val::Ref {
        node: gen_node(rng),
        creation: *rng.pick(&[0u32, 1, 3, 4, 255, 256, u32::MAX]),
        ids: (0..n).map(|_| rng.next_u32() >> rng.below(32)).collect(),
    }
}

pub struct Gen<'a> {
    pub rng: &'a mut Rng,
    pub cfg: GenCfg,
    pub ints: Vec<Int>,
    pub floats: Vec<f64>,
    nodes: usize,
}

impl<'a> Gen<'a> {
    pub fn new(rng: &'a mut Rng, cfg: GenCfg) -> Self {
        static INTS: std::sync::OnceLock<Vec<Int>> = std::sync::OnceLock::new();
        static FLOATS: std::sync::OnceLock<Vec<f64>> = std::sync::OnceLock::new();
        Gen {
            rng,
            cfg,
            ints: INTS.get_or_init(boundary_ints).clone(),
            floats: FLOATS.get_or_init(boundary_floats).clone(),
            nodes: 0,
        }
    }

    pub fn leaf(&mut self) -> Val {
        let k = self.rng.below(if self.cfg.ids { 12 } else { 8 });
        match k {
            0 | 1 => Val::Int(gen_int(self.rng, &self.cfg, &self.ints)),
            2 => Val::float(gen_float(self.rng, &self.floats)),
            3 | 4 => Val::Atom(gen_atom(self.rng, &self.cfg)),
            5 | 6 => gen_bits(self.rng, &self.cfg),
            7 => Val::Nil,
            8 => gen_pid(self.rng),
            9 => gen_port(self.rng),
            10 => gen_ref(self.rng, &self.cfg),
            _ => {
                if self.cfg.funs {
                    Val::ExtFun {
                        module: gen_atom(self.rng, &self.cfg),
                        function: gen_atom(self.rng, &self.cfg),
                        arity: *self.rng.pick(&[0u8, 1, 2, 255]),
                    }
                } else {
                    gen_pid(self.rng)
                }
            }
        }
    }

    fn key(&mut self, depth: usize) -> Val {
        loop {
            let k = self.tree(depth);
            if !self.cfg.float_keys && contains_float(&k) {
                continue;
            }
            return k;
        }
    }

    pub fn tree(&mut self, depth: usize) -> Val {
        self.nodes += 1;
        if depth >= self.cfg.max_depth || self.nodes >= self.cfg.max_nodes || self.rng.chance(2, 5) {
            return self.leaf();
        }
        let width = |g: &mut Gen| -> usize {
            match g.rng.below(10) {
                0 => 0,
                1 => 1,
                9 => 6 + g.rng.below(6),
                _ => 2 + g.rng.below(3),
            }
        };
        match self.rng.below(if self.cfg.funs { 7 } else { 6 }) {
            0 | 1 => {
                let n = width(self);
                Val::Tuple((0..n).map(|_| self.tree(depth + 1)).collect())
            }
            2 => {
                let n = width(self);
                Val::list((0..n).map(|_| self.tree(depth + 1)).collect())
            }
            3 => {
                // improper list: >= 1 element and a non-list tail
                let n = 1 + self.rng.below(3);
                let e: Vec<Val> = (0..n).map(|_| self.tree(depth + 1)).collect();
                let tail = loop {
                    let t = self.tree(depth + 1);
                    if !matches!(t, Val::Nil | Val::List { .. }) {
                        break t;
                    }
                };
                Val::cons(e, tail)
            }
            4 | 5 => {
                let n = width(self);
                let mut entries: Vec<(Val, Val)> = Vec::new();
                for _ in 0..n {
                    let k = self.key(depth + 1);
                    // keys distinct under Erlang == (no numeric twins unless asked for)
                    let clash = entries.iter().any(|(k2, _)| {
                        if self.cfg.numeric_twin_keys {
                            k2.same(&k)
                        } else {
                            crate::refmodel::val::erl_eq(k2, &k)
                        }
                    });
                    if clash {
                        continue;
                    }
                    let v = self.tree(depth + 1);
                    entries.push((k, v));
                }
                Val::Map(entries)
            }
            _ => {
                let nfree = self.rng.below(3);
                let free: Vec<Val> = (0..nfree).map(|_| self.tree(depth + 1)).collect();
                Val::IntFun {
                    arity: *self.rng.pick(&[0u8, 1, 3, 255]),
                    uniq: {
                        let mut u = [0u8; 16];
                        u.copy_from_slice(&self.rng.bytes(16));
                        u
                    },
                    index: *self.rng.pick(&[0u32, 1, 255, 256, u32::MAX]),
                    num_free: nfree as u32,
                    module: gen_atom(self.rng, &self.cfg),
                    old_index: Int::from_i128(*self.rng.pick(&[0i128, 1, 255, 256, 0x7fff_ffff])),
                    old_uniq: Int::from_i128(*self.rng.pick(&[0i128, 7, 255, 256, 0x07ff_ffff, 0x7fff_ffff])),
                    pid: Box::new(gen_pid(self.rng)),
                    free,
                }
            }
        }
    }

    pub fn value(&mut self) -> Val {
        self.nodes = 0;
        self.tree(0)
    }
}

pub fn contains_float(v: &Val) -> bool {
    match v {
        Val::Float(_) => true,
        Val::Tuple(e) => e.iter().any(contains_float),
        Val::List { elems, tail } => elems.iter().any(contains_float) || contains_float(tail),
        Val::Map(e) => e.iter().any(|(k, v)| contains_float(k) || contains_float(v)),
        Val::IntFun { free, .. } => free.iter().any(contains_float),
        _ => false,
    }
}

/// Deterministic boundary leaves: one value per boundary named in C01's quantifier.
pub fn boundary_leaves(huge: bool) -> Vec<Val> {
    let mut out: Vec<Val> = Vec::new();
    for i in boundary_ints() {
        out.push(Val::Int(i));
    }
    for f in boundary_floats() {
        out.push(Val::float(f));
    }
    for n in [0usize, 1, 254, 255, 256, 257, 1020] {
        out.push(Val::Atom("a".repeat(n)));
    }
    // multi-byte atoms around the 255-byte boundary
    out.push(Val::Atom("é".repeat(127)));
    out.push(Val::Atom(format!("{}x", "é".repeat(127))));
    out.push(Val::Atom("é".repeat(128)));
    out.push(Val::Atom("𝔘".repeat(255)));
    if huge {
        out.push(Val::Atom("z".repeat(65535)));
        out.push(Val::Atom("z".repeat(65536)));
        out.push(Val::Atom("日".repeat(21845))); // 65535 bytes
    }
    for w in ATOM_WORDS {
        out.push(Val::atom(w));
    }
    for w in OTP_VOCABULARY {
        out.push(Val::atom(w));
    }
    for n in [0usize, 1, 2, 255, 256, 65535, 65536] {
        if n > 1000 && !huge {
            continue;
        }
        out.push(Val::binary(&vec![0xabu8; n]));
    }
    for bits in 1..=8u8 {
        out.push(Val::bitstring(&[0xff, 0xff], bits));
        out.push(Val::bitstring(&[0xff], bits));
    }
    out.push(Val::Nil);
    // identifiers
    for creation in [0u32, 1, 3, 4, 255, 256, u32::MAX] {
        out.push(Val::Pid {
            node: "n@h".into(),
            id: 1,
            serial: 2,
            creation,
        });
        out.push(Val::Port {
            node: "n@h".into(),
            id: 3,
            creation,
        });
        out.push(Val::Ref {
            node: "n@h".into(),
            creation,
            ids: vec![1, 2, 3],
        });
    }
    out.push(Val::Pid {
        node: "n@h".into(),
        id: u32::MAX,
        serial: u32::MAX,
        creation: 7,
    });
    for id in [0u64, 0x0fff_ffff, u32::MAX as u64, u32::MAX as u64 + 1, u64::MAX] {
        out.push(Val::Port {
            node: "é@ÿ".into(),
            id,
            creation: 2,
        });
    }
    for n in [0usize, 1, 2, 3, 5, 255, 256, 65535, 65536] {
        if n > 1000 && !huge {
            continue;
        }
        out.push(Val::Ref {
            node: "n@h".into(),
            creation: 9,
            ids: (0..n as u32).map(|i| i.wrapping_mul(2654435761)).collect(),
        });
    }
    for arity in [0u8, 1, 255] {
        out.push(Val::ExtFun {
            module: "m".into(),
            function: "f".into(),
            arity,
        });
    }
    for (oi, ou) in [(0i128, 0i128), (255, 256), (0x7fff_ffff, 0x07ff_ffff), (0x8000_0000, 1), (1, 0xffff_ffff)] {
        out.push(Val::IntFun {
            arity: 2,
            uniq: [7u8; 16],
            index: 3,
            num_free: 1,
            module: "mod".into(),
            old_index: Int::from_i128(oi),
            old_uniq: Int::from_i128(ou),
            pid: Box::new(Val::Pid {
                node: "n@h".into(),
                id: 1,
                serial: 0,
                creation: 1,
            }),
            free: vec![Val::int(42)],
        });
    }
    out
}

/// Container skeletons with one hole; the boundary leaf is placed in every position.
pub fn skeletons(leaf: &Val) -> Vec<Val> {
    let a = || Val::atom("k");
    vec![
        leaf.clone(),
        Val::Tuple(vec![leaf.clone()]),
        Val::Tuple(vec![a(), leaf.clone(), Val::int(1)]),
        Val::list(vec![leaf.clone()]),
        Val::list(vec![Val::int(1), leaf.clone()]),
        Val::cons(vec![Val::int(1)], leaf.clone()),
        Val::cons(vec![leaf.clone()], Val::atom("t")),
        Val::Map(vec![(a(), leaf.clone())]),
        Val::Map(vec![(leaf.clone(), a())]),
        Val::Tuple(vec![Val::Map(vec![(Val::list(vec![leaf.clone()]), Val::Tuple(vec![leaf.clone()]))])]),
    ]
}
