//! Byte-level mutators for hostile inputs.

use crate::rng::Rng;

pub const INTERESTING_U32: &[u32] = &[
    0, 1, 2, 255, 256, 65535, 65536, 1_000_000, 10_000_000, 10_000_001, 100_000_000, 100_000_001,
    0x7fff_ffff, 0x8000_0000, 0xffff_fffe, 0xffff_ffff,
];

pub const ALL_TAGS: &[u8] = &[
    70, 77, 80, 82, 88, 89, 90, 97, 98, 99, 100, 101, 102, 103, 104, 105, 106, 107, 108, 109, 110, 111, 112,
    113, 114, 115, 116, 118, 119, 120, 121, 68, 69, 131,
];

/// One random mutation of a byte string (never returns it unchanged unless it is empty).
pub fn mutate(rng: &mut Rng, input: &[u8], donor: &[u8]) -> Vec<u8> {
    let mut b = input.to_vec();
    if b.is_empty() {
        return vec![rng.next_u32() as u8];
    }
    match rng.below(11) {
        0 => {
            let i = rng.below(b.len());
            b[i] ^= 1 << rng.below(8);
        }
        1 => {
            let i = rng.below(b.len());
            b[i] = rng.next_u32() as u8;
        }
        2 => {
            let i = rng.below(b.len());
            b[i] = *rng.pick(ALL_TAGS);
        }
        3 => {
            let n = rng.below(b.len());
            b.truncate(n);
        }
        4 => {
            // overwrite 4 bytes with an interesting big-endian count
            if b.len() >= 4 {
                let i = rng.below(b.len() - 3);
                let v = rng.pick(INTERESTING_U32).to_be_bytes();
                b[i..i + 4].copy_from_slice(&v);
            }
        }
        5 => {
            // splice a piece of the donor in
            if !donor.is_empty() {
                let s = rng.below(donor.len());
                let e = s + rng.below(donor.len() - s + 1);
                let at = rng.below(b.len() + 1);
                let piece = donor[s..e].to_vec();
                b.splice(at..at, piece);
            }
        }
        6 => {
            // delete a range
            let s = rng.below(b.len());
            let e = s + rng.below((b.len() - s).min(16) + 1);
            b.drain(s..e);
        }
        7 => {
            // duplicate a range
            let s = rng.below(b.len());
            let e = s + rng.below((b.len() - s).min(32) + 1);
            let piece = b[s..e].to_vec();
            b.splice(e..e, piece);
        }
        8 => {
            let k = 1 + rng.below(8);
            b.extend(rng.bytes(k));
        }
        9 => {
            // 2-byte count
            if b.len() >= 2 {
                let i = rng.below(b.len() - 1);
                let v = (*rng.pick(&[0u16, 1, 255, 256, 65535])).to_be_bytes();
                b[i..i + 2].copy_from_slice(&v);
            }
        }
        _ => {
            let i = rng.below(b.len());
            b[i] = *rng.pick(&[0u8, 1, 7, 8, 9, 127, 128, 255]);
        }
    }
    b
}
