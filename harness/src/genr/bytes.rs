//! Byte-level mutators for hostile inputs.

use crate::rng::Rng;

pub const INTERESTING_U32: &[u32] = &[
    0, 1, 2, 255, 256, 65535, 65536, 1_000_000, 10_000_000, 10_000_001, 100_000_000, 100_000_001,
    0x7fff_ffff, 0x8000_0000, 0xffff_fffe, 0xffff_ffff,
];

pub const ALL_TAGS: &[u8] = &[
    70, 77, 80, 82, 88, 89, 90, 97, 98, 99, 100, 101, 102, 103, 104, 105, 106, 107, 108, 109, 110, 111, 112,
    113, 114, 115, 116, 118, 119, 120, 121, 68, 69, 131,
];

/// One random mutation of a byte string (never returns it unchanged unless it is empty).
pub fn mutate(rng: &mut Rng, input: &[u8], donor: &[u8]) -> Vec<u8> {
    let mut b = input.to_vec();
    if b.is_empty() {
        return vec![rng.next_u32() as u8];
    }
    match rng.below(11) {
        0 => {
            let i = rng.below(b.len());
            b[i] ^= 1 << rng.below(8);
        }
        1 => {
            let i = rng.below(b.len());
            b[i] = rng.next_u32() as u8;
        }
        2 => {
            let i = rng.below(b.len());
            b[i] = *rng.pick(ALL_TAGS);
        }
        3 => {
            let n = rng.below(b.len());
            b.truncate(n);
        }
        4 => {
            // overwrite 4 bytes with an interesting big-endian count
            if b.len() >= 4 {
                let i = rng.below(b.len() - 3);
                let v = rng.pick(INTERESTING_U32).to_be_bytes();
                b[i..i + 4].copy_from_slice(&v);
            }
        }
        5 => {
            // splice a piece of the donor in
            if !donor.is_empty() {
                let s = rng.below(donor.len());
                let e = s + rng.below(donor.len() - s + 1);
                let at = rng.below(b.len() + 1);
                let piece = donor[s..e].to_vec();
                b.splice(at..at, piece);
            }
        }
        6 => {
            // delete a range
            let s = rng.below(b.len());
            let e = s + rng.below((b.len() - s).min(16) + 1);
            b.drain(s..e);
        }
        7 => {
            // duplicate a range
            let s = rng.below(b.len());
            let e = s + rng.below((b.len() - s).min(32) + 1);
            let piece = b[s..e].to_vec();
            b.splice(e..e, piece);
        }
        8 => {
            let k = 1 + rng.below(8);
            b.extend(rng.bytes(k));
        }
        9 => {
            // 2-byte count
            if b.len() >= 2 {
                let i = rng.below(b.len() - 1);
                let v = (*rng.pick(&[0u16, 1, 255, 256, 65535])).to_be_bytes();
                b[i..i + 2].copy_from_slice(&v);
            }
        }
        _ => {
            let i = rng.below(b.len());
            b[i] = *rng.pick(&[0u8, 1, 7, 8, 9, 127, 128, 255]);
        }
    }
    b
}

/// The same input with one place spelled another way the format offers for the same thing (a small integer in the
/// four-byte form or as a one-digit big integer, an atom under another atom tag, a small tuple with a four-byte arity,
/// the empty list as an empty string or an empty LIST_EXT, a byte string as a list of small integers): one result
/// per operator and occurrence, at most `cap` in all. Where the occurrence is not really a term the result is just
/// another hostile input.
pub fn respellings(input: &[u8], cap: usize) -> Vec<(&'static str, Vec<u8>)> {
    let mut out: Vec<(&'static str, Vec<u8>)> = Vec::new();
    let b = input;
    let mut push = |name: &'static str, at: usize, cut: usize, with: Vec<u8>, out: &mut Vec<(&'static str, Vec<u8>)>| {
        if out.len() < cap {
            let mut m = b[..at].to_vec();
            m.extend_from_slice(&with);
            m.extend_from_slice(&b[at + cut..]);
            out.push((name, m));
        }
    };
    for i in 1..b.len() {
        match b[i] {
            97 if i + 1 < b.len() => {
                let n = b[i + 1];
                push("small-int-as-INTEGER_EXT", i, 2, vec![98, 0, 0, 0, n], &mut out);
                push("small-int-as-SMALL_BIG_EXT", i, 2, vec![110, 1, 0, n], &mut out);
            }
            98 if i + 4 < b.len() && b[i + 1] == 0 && b[i + 2] == 0 && b[i + 3] == 0 => {
                push("INTEGER_EXT-as-small-int", i, 5, vec![97, b[i + 4]], &mut out);
            }
            119 if i + 1 < b.len() => {
                let l = b[i + 1];
                push("SMALL_ATOM_UTF8-as-ATOM_UTF8", i, 2, vec![118, 0, l], &mut out);
                push("SMALL_ATOM_UTF8-as-SMALL_ATOM", i, 2, vec![115, l], &mut out);
                push("SMALL_ATOM_UTF8-as-ATOM", i, 2, vec![100, 0, l], &mut out);
            }
            118 if i + 2 < b.len() && b[i + 1] == 0 => {
                push("ATOM_UTF8-as-SMALL_ATOM_UTF8", i, 3, vec![119, b[i + 2]], &mut out);
            }
            104 if i + 1 < b.len() => {
                push("SMALL_TUPLE-as-LARGE_TUPLE", i, 2, vec![105, 0, 0, 0, b[i + 1]], &mut out);
            }
            106 => {
                push("NIL-as-empty-STRING_EXT", i, 1, vec![107, 0, 0], &mut out);
                push("NIL-as-empty-LIST_EXT", i, 1, vec![108, 0, 0, 0, 0, 106], &mut out);
            }
            107 if i + 2 < b.len() && b[i + 1] == 0 && (1..=8).contains(&b[i + 2]) && i + 3 + b[i + 2] as usize <= b.len() => {
                let l = b[i + 2] as usize;
                let mut with = vec![108, 0, 0, 0, l as u8];
                for c in &b[i + 3..i + 3 + l] {
                    with.extend_from_slice(&[97, *c]);
                }
                with.push(106);
                push("STRING_EXT-as-LIST_EXT", i, 3 + l, with, &mut out);
            }
            _ => {}
        }
    }
    out
}
