//! Families of *sibling* values: members of one family differ in as little as possible (one digit,
//! one field, one trailing word, one padding bit, one more list cell, the kind of a list tail …).
//! Ordering, hashing, map construction and caches keyed by terms are decided on exactly such
//! pairs, so every check that builds ordered or keyed collections draws from here: the members go
//! into the comparison universes, and pairs of members become the keys of one map.

use super::val::{next_down, next_up};
use crate::refmodel::val::{Int, Val, erl_eq};
use crate::rng::Rng;

pub struct Family {
    pub name: &'static str,
    pub members: Vec<Val>,
}

/// Exact integer value of an integral finite float.
pub fn int_of_float(f: f64) -> Option<Int> {
    if !f.is_finite() || f.fract() != 0.0 {
        return None;
    }
    if f == 0.0 {
        return Some(Int::from_i128(0));
    }
    let bits = f.to_bits();
    let neg = bits >> 63 == 1;
    let e = ((bits >> 52) & 0x7ff) as i64;
    let frac = bits & ((1u64 << 52) - 1);
    let (mant, exp) = if e == 0 { (frac, -1074i64) } else { (frac | (1u64 << 52), e - 1075) };
    if exp >= 0 {
        let mut mag = vec![0u8; (exp / 8) as usize];
        mag.extend_from_slice(&((mant as u128) << (exp % 8)).to_le_bytes());
        Some(Int::from_parts(neg, mag))
    } else {
        let sh = (-exp) as u32;
        if sh >= 64 {
            return None;
        }
        Some(Int::from_parts(neg, (mant >> sh).to_le_bytes().to_vec()))
    }
}

/// Nearest double of an integer below 2^127.
fn float_of_int(i: &Int) -> Option<f64> {
    i.to_i128().map(|v| v as f64)
}

fn numeric_family(name: &'static str, n: &Int) -> Family {
    let mut m: Vec<Val> = vec![Val::Int(n.add_small(-1)), Val::Int(n.clone()), Val::Int(n.add_small(1))];
    if let Some(f) = float_of_int(n) {
        for g in [f, next_up(f), next_down(f)] {
            m.push(Val::float(g));
            if let Some(i) = int_of_float(g) {
                m.push(Val::Int(i.clone()));
                m.push(Val::Int(i.add_small(1)));
                m.push(Val::Int(i.add_small(-1)));
            }
        }
    }
    Family { name, members: dedupe(m) }
}

fn dedupe(m: Vec<Val>) -> Vec<Val> {
    let mut out: Vec<Val> = Vec::new();
    for v in m {
        if !out.iter().any(|o| o.same(&v)) {
            out.push(v);
        }
    }
    out
}

fn pid(node: &str, id: u32, serial: u32, creation: u32) -> Val {
    Val::Pid { node: node.into(), id, serial, creation }
}
fn port(node: &str, id: u64, creation: u32) -> Val {
    Val::Port { node: node.into(), id, creation }
}
fn rf(node: &str, creation: u32, ids: &[u32]) -> Val {
    Val::Ref { node: node.into(), creation, ids: ids.to_vec() }
}

pub fn one_of_each_kind() -> Vec<Val> {
    vec![
        Val::int(2),
        Val::Int(Int::pow2(70)),
        Val::float(2.0),
        Val::atom("a"),
        rf("n@h", 1, &[1, 2, 3]),
        Val::ExtFun { module: "m".into(), function: "f".into(), arity: 1 },
        port("n@h", 1, 1),
        pid("n@h", 1, 0, 1),
        Val::Tuple(vec![]),
        Val::Tuple(vec![Val::int(1)]),
        Val::Map(vec![]),
        Val::binary(&[]),
        Val::binary(&[1]),
        Val::binary(b"ab"),
        Val::bitstring(&[0x80], 1),
        Val::bitstring(&[1, 0x80], 1),
        Val::bitstring(&[1, 2], 7),
    ]
}

/// The deterministic families plus a few seeded ones.
pub fn families(rng: &mut Rng) -> Vec<Family> {
    let mut out: Vec<Family> = Vec::new();

    // numbers: an integer, its neighbours, the doubles around it and *their* exact integer values
    let p = |k: u64| Int::pow2(k);
    let bases: Vec<(&'static str, Int)> = vec![
        ("num:2^31", p(31)),
        ("num:2^53", p(53)),
        ("num:2^53+odd", Int::from_i128((1i128 << 53) + 0x10_0001)),
        ("num:timestamp-ns", Int::from_i128(1_700_000_000_123_456_789)),
        ("num:2^62+1", Int::from_i128((1i128 << 62) + 1)),
        ("num:2^63", p(63)),
        ("num:2^63+1025", Int::from_i128((1i128 << 63) + 1025)),
        ("num:2^64-1", Int::from_i128((1i128 << 64) - 1)),
        ("num:2^64", p(64)),
        ("num:2^64+2049", Int::from_i128((1i128 << 64) + 2049)),
        ("num:10^20+1", Int::from_i128(100_000_000_000_000_000_001)),
        ("num:2^100+1", Int::from_i128((1i128 << 100) + 1)),
        ("num:2^120", p(120)),
    ];
    for (name, n) in &bases {
        out.push(numeric_family(name, n));
        out.push(numeric_family(name, &n.negate()));
    }
    for _ in 0..3 {
        // a random integer between 2^53 and 2^64 that a double cannot hold
        let n = (rng.next_u64() | (1 << (53 + rng.below(11)))) | 1;
        out.push(numeric_family("num:random>2^53", &Int::from_u128(n as u128)));
        out.push(numeric_family("num:random>2^53", &Int::from_u128(n as u128).negate()));
    }
    // zero and its neighbours
    out.push(Family {
        name: "num:zero",
        members: vec![
            Val::int(0), Val::float(0.0), Val::float(-0.0), Val::float(5e-324), Val::float(-5e-324),
            Val::int(1), Val::int(-1), Val::float(1.0), Val::float(-1.0), Val::float(0.5),
        ],
    });
    // long big integers against huge doubles (the double's digits overlap the integer's top digits)
    for neg in [false, true] {
        let mut m: Vec<Val> = Vec::new();
        for len in [17usize, 64, 112, 113, 114, 115, 120, 121, 122, 127, 128, 129, 136, 137, 138, 160, 255, 256] {
            m.push(Val::Int(Int::from_parts(neg, vec![0xff; len])));
            let mut one = vec![0u8; len];
            one[len - 1] = 1;
            one[0] = 1;
            m.push(Val::Int(Int::from_parts(neg, one)));
        }
        for e in [126i32, 511, 895, 896, 903, 904, 911, 912, 952, 955, 956, 957, 960, 967, 968, 1000, 1016, 1022, 1023] {
            let f = (2.0f64).powi(e);
            for g in [f, next_up(f), next_down(f)] {
                m.push(Val::float(if neg { -g } else { g }));
            }
        }
        for g in [1e300f64, f64::MAX, 1.7976931348623155e308] {
            m.push(Val::float(if neg { -g } else { g }));
        }
        // the exact integer values of some of those doubles
        for g in [(2.0f64).powi(956), 1e300, f64::MAX] {
            if let Some(i) = int_of_float(g) {
                let i = if neg { i.negate() } else { i };
                m.push(Val::Int(i.add_small(1)));
                m.push(Val::Int(i.add_small(-1)));
                m.push(Val::Int(i));
            }
        }
        out.push(Family { name: if neg { "num:long-negative" } else { "num:long-positive" }, members: dedupe(m) });
    }

    // lists: common prefix, then more cells / the end / a tail of every kind
    {
        let mut m: Vec<Val> = vec![
            Val::Nil,
            Val::list(vec![Val::int(1)]),
            Val::list(vec![Val::int(1), Val::int(2)]),
            Val::list(vec![Val::int(1), Val::int(2), Val::int(3)]),
            Val::list(vec![Val::int(1), Val::Nil]),
            Val::list(vec![Val::int(1), Val::binary(&[])]),
        ];
        for t in one_of_each_kind() {
            m.push(Val::cons(vec![Val::int(1)], t.clone()));
            m.push(Val::cons(vec![Val::int(1), Val::int(2)], t));
        }
        out.push(Family { name: "list:tails", members: dedupe(m) });
    }
    // bit-strings: prefixes, extensions, partial last bytes
    out.push(Family {
        name: "bits",
        members: dedupe(vec![
            Val::binary(&[]), Val::binary(&[0]), Val::binary(&[1]), Val::binary(&[1, 0]), Val::binary(&[1, 2]), Val::binary(&[255]),
            Val::bitstring(&[0], 1), Val::bitstring(&[0], 7), Val::bitstring(&[0x80], 1), Val::bitstring(&[0x80], 2),
            Val::bitstring(&[1, 0], 1), Val::bitstring(&[1, 0x80], 1), Val::bitstring(&[1, 2], 7), Val::bitstring(&[1, 2, 0], 1),
            Val::bitstring(&[255], 7), Val::bitstring(&[254], 7), Val::bitstring(&[255, 0x80], 1),
        ]),
    });
    // identifiers differing in one field / one trailing word
    out.push(Family {
        name: "id:pid",
        members: vec![
            pid("n@h", 1, 0, 1), pid("n@h", 2, 0, 1), pid("n@h", 0, 0, 1), pid("n@h", 1, 1, 1), pid("n@h", 1, 0, 2), pid("n@h", 1, 0, 0),
            pid("m@h", 1, 0, 1), pid("n@h", u32::MAX, 0, 1), pid("n@h", 1, u32::MAX, 1), pid("n@h", 1, 0, u32::MAX), pid("n@h", 0, 1, 1),
            pid("n@h", 256, 0, 1), pid("n@h", 1, 256, 1), pid("n@h", 1, 0, 257),
        ],
    });
    out.push(Family {
        name: "id:port",
        members: vec![
            port("n@h", 1, 1), port("n@h", 2, 1), port("n@h", 0, 1), port("n@h", 1, 2), port("m@h", 1, 1), port("n@h", 1 << 32, 1),
            port("n@h", (1 << 32) + 1, 1), port("n@h", u64::MAX, 1), port("n@h", 1 << 28, 1), port("n@h", 1, 0), port("n@h", 1, u32::MAX),
        ],
    });
    for base in [[7u32, 8, 9], [0, 0, 0], [rng.next_u32(), rng.next_u32(), rng.next_u32()]] {
        let [a, b, c] = base;
        out.push(Family {
            name: "id:ref",
            members: dedupe(vec![
                rf("n@h", 1, &[a, b, c]), rf("n@h", 1, &[a, b]), rf("n@h", 1, &[a]), rf("n@h", 1, &[a, b, c, 0]), rf("n@h", 1, &[a, b, c, 0, 0]),
                rf("n@h", 1, &[a, b, c, 1]), rf("n@h", 1, &[a, b, c, 0, 1]), rf("n@h", 1, &[0, a, b, c]), rf("n@h", 1, &[a, b, 0]), rf("n@h", 1, &[a, 0]),
                rf("n@h", 1, &[a, b, c.wrapping_add(1)]), rf("n@h", 1, &[a.wrapping_add(1), b, c]), rf("n@h", 2, &[a, b, c]), rf("m@h", 1, &[a, b, c]),
                rf("n@h", 0, &[a, b, c]), rf("n@h", 1, &[c, b, a]),
            ]),
        });
    }
    {
        let f = |arity: u8, uniq0: u8, index: u32, free: Vec<Val>, old_uniq: i128, module: &str| Val::IntFun {
            arity,
            uniq: { let mut u = [3u8; 16]; u[0] = uniq0; u },
            index,
            num_free: free.len() as u32,
            module: module.into(),
            old_index: Int::from_i128(1),
            old_uniq: Int::from_i128(old_uniq),
            pid: Box::new(pid("n@h", 1, 0, 1)),
            free,
        };
        out.push(Family {
            name: "fun",
            members: vec![
                f(1, 3, 1, vec![], 2, "m"), f(2, 3, 1, vec![], 2, "m"), f(1, 4, 1, vec![], 2, "m"), f(1, 3, 2, vec![], 2, "m"),
                f(1, 3, 1, vec![Val::int(0)], 2, "m"), f(1, 3, 1, vec![Val::int(1)], 2, "m"), f(1, 3, 1, vec![], 3, "m"), f(1, 3, 1, vec![], 2, "n"),
                // environments of different lengths whose elements order the other way round than their lengths
                f(1, 3, 1, vec![Val::int(5)], 2, "m"), f(1, 3, 1, vec![Val::int(1), Val::int(2)], 2, "m"), f(1, 3, 1, vec![Val::int(9)], 2, "m"),
                f(1, 3, 1, vec![Val::int(0), Val::int(0), Val::int(0)], 2, "m"), f(1, 3, 1, vec![Val::int(1), Val::int(2), Val::int(0)], 2, "m"),
                f(1, 3, 1, vec![Val::atom("a")], 2, "m"), f(1, 3, 1, vec![Val::int(7), Val::atom("a")], 2, "m"),
                Val::ExtFun { module: "m".into(), function: "f".into(), arity: 1 }, Val::ExtFun { module: "m".into(), function: "f".into(), arity: 2 },
                Val::ExtFun { module: "m".into(), function: "g".into(), arity: 1 }, Val::ExtFun { module: "n".into(), function: "f".into(), arity: 1 },
            ],
        });
    }
    out.push(Family {
        name: "atom",
        members: ["", "a", "aa", "ab", "b", "A", "é", "e\u{301}", "Ã©", "ÿ", "z", "日", "日本", "true", "nil", "undefined"].iter().map(|s| Val::atom(s)).collect(),
    });
    out.push(Family {
        name: "tuple-map",
        members: dedupe(vec![
            Val::Tuple(vec![]), Val::Tuple(vec![Val::int(1)]), Val::Tuple(vec![Val::int(2)]), Val::Tuple(vec![Val::int(1), Val::int(1)]),
            Val::Tuple(vec![Val::float(1.5)]), Val::Tuple(vec![Val::Tuple(vec![])]), Val::Tuple(vec![Val::Nil]),
            Val::Map(vec![]), Val::Map(vec![(Val::atom("a"), Val::int(1))]), Val::Map(vec![(Val::atom("a"), Val::int(2))]),
            Val::Map(vec![(Val::atom("b"), Val::int(1))]), Val::Map(vec![(Val::atom("a"), Val::int(1)), (Val::atom("b"), Val::int(1))]),
            Val::Map(vec![(Val::atom("a"), Val::int(2)), (Val::atom("b"), Val::int(0))]), Val::Map(vec![(Val::int(1), Val::atom("a"))]),
            Val::Map(vec![(Val::Tuple(vec![]), Val::Nil)]),
        ]),
    });
    // text in its three spellings: list of code points, binary, atom
    out.push(Family {
        name: "text",
        members: vec![
            Val::list(vec![Val::int(97), Val::int(98)]), Val::binary(b"ab"), Val::atom("ab"), Val::list(vec![Val::int(97)]), Val::list(vec![Val::int(97), Val::int(98), Val::int(99)]),
            Val::list(vec![Val::int(97), Val::int(256)]), Val::list(vec![Val::int(97), Val::float(98.0)]), Val::list(vec![Val::int(0)]), Val::list(vec![Val::int(255)]),
        ],
    });
    out
}

#[derive(Clone, Copy, PartialEq)]
pub enum Twins {
    /// skip pairs that Erlang's == identifies (1 / 1.0, 0.0 / -0.0): the library's map cannot hold both
    Skip,
    Keep,
}

/// Maps whose keys are two siblings (both insertion orders), plus one map per family holding all of
/// its members. Values are distinct atoms so that a merged or dropped entry is visible. With
/// `wrap`, the siblings are additionally placed at the same position of otherwise equal compound keys.
pub fn sibling_maps(fams: &[Family], twins: Twins, wrap: bool) -> Vec<(&'static str, Val)> {
    let mut out: Vec<(&'static str, Val)> = Vec::new();
    let ok = |a: &Val, b: &Val| twins == Twins::Keep || !erl_eq(a, b);
    for fam in fams {
        let m = &fam.members;
        for i in 0..m.len() {
            for j in 0..m.len() {
                if i == j || !ok(&m[i], &m[j]) {
                    continue;
                }
                out.push((fam.name, Val::Map(vec![(m[i].clone(), Val::atom("first")), (m[j].clone(), Val::atom("second"))])));
                if wrap && i < j {
                    out.push((
                        fam.name,
                        Val::Map(vec![
                            (Val::Tuple(vec![Val::atom("k"), m[i].clone()]), Val::atom("first")),
                            (Val::Tuple(vec![Val::atom("k"), m[j].clone()]), Val::atom("second")),
                        ]),
                    ));
                    out.push((
                        fam.name,
                        Val::Map(vec![
                            (Val::list(vec![m[j].clone(), Val::int(0)]), Val::atom("first")),
                            (Val::list(vec![m[i].clone(), Val::int(0)]), Val::atom("second")),
                        ]),
                    ));
                }
            }
        }
        // all members at once (greedily keeping only members no earlier one is == to)
        let mut entries: Vec<(Val, Val)> = Vec::new();
        for (n, v) in m.iter().enumerate() {
            if entries.iter().all(|(k, _)| ok(k, v)) {
                entries.push((v.clone(), Val::int(n as i128)));
            }
        }
        out.push((fam.name, Val::Map(entries.clone())));
        entries.reverse();
        out.push((fam.name, Val::Map(entries)));
    }
    out
}
