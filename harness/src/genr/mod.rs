pub mod val;
pub mod bytes;
pub mod near;
pub mod small;
