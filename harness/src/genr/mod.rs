pub mod val;
pub mod bytes;
