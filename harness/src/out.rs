//! Result recorder: what the monitors observed, violations with signatures and witnesses.
//! The driver script (`/verif/check`) reads the single `RESULT {json}` line printed at the end.

use serde_json::{Map, Value, json};
use std::collections::{BTreeMap, HashSet};
use std::sync::Mutex;
use std::time::Instant;

pub struct Ctx {
    pub prop: String,
    pub tier: Tier,
    pub seed: u64,
    pub replay: Option<Value>,
    pub started: Instant,
    pub budget_s: f64,
    inner: Mutex<Inner>,
    /// (time of the last heartbeat, what was starting then); see `watch_stalls`
    heartbeat: Mutex<(Instant, String)>,
}

#[derive(Clone, Copy, PartialEq, Eq, Debug)]
pub enum Tier {
    Quick,
    Thorough,
}

#[derive(Default)]
struct Inner {
    evaluations: u64,
    classes: HashSet<u64>,
    class_names: BTreeMap<String, u64>,
    samples: Vec<Value>,
    viols: BTreeMap<String, ViolEntry>,
    inconclusive: Vec<String>,
    extra: Map<String, Value>,
    counters: BTreeMap<String, u64>,
    rule: String,
    assumptions: Vec<String>,
    exhaustive: Option<bool>,
}

struct ViolEntry {
    count: u64,
    msg: String,
    witnesses: Vec<Value>,
}

impl Ctx {
    pub fn new(prop: &str, tier: Tier, seed: u64, replay: Option<Value>) -> Self {
        Ctx {
            prop: prop.to_string(),
            tier,
            seed,
            replay,
            started: Instant::now(),
            budget_s: 0.0,
            inner: Mutex::new(Inner::default()),
            heartbeat: Mutex::new((Instant::now(), String::from("start"))),
        }
    }

    /// A scenario (or a phase of one) begins: the stall watchdog counts from here.
    pub fn beat(&self, label: &str) {
        *self.heartbeat.lock().unwrap() = (Instant::now(), label.to_string());
    }

    /// Observer outside the async runtime: a plain thread that reports a violation and ends the process when
    /// no heartbeat arrived for `limit`. The in-runtime watchdogs of the checks cannot fire when the runtime's
    /// own thread is blocked (a lock held across an await, a blocking call): then only this thread can tell.
    /// `limit` must be far above anything a scenario can legitimately take (they are bounded by timeouts).
    pub fn watch_stalls(&'static self, sig_prefix: &'static str, limit: std::time::Duration) {
        self.beat("start");
        std::thread::Builder::new()
            .name("stall-watchdog".into())
            .spawn(move || loop {
                std::thread::sleep(std::time::Duration::from_millis(500));
                let (at, label) = self.heartbeat.lock().unwrap().clone();
                if at.elapsed() > limit {
                    let class: String = label.split('/').next().unwrap_or("").to_string();
                    self.viol(
                        &format!("{}:{}", sig_prefix, class),
                        "the workload made no progress at all: the runtime is blocked (every operation in flight is bounded by a timeout far below this limit)",
                        json!({"last_heartbeat": label, "seconds_without_progress": at.elapsed().as_secs(), "limit_s": limit.as_secs()}),
                    );
                    println!("RESULT {}", self.finish());
                    use std::io::Write;
                    let _ = std::io::stdout().flush();
                    std::process::exit(0);
                }
            })
            .expect("spawn stall watchdog");
    }

    pub fn quick(&self) -> bool {
        self.tier == Tier::Quick
    }

    /// `q` for the quick tier, `t` for the thorough tier.
    pub fn pick<T>(&self, q: T, t: T) -> T {
        if self.quick() { q } else { t }
    }

    pub fn elapsed(&self) -> f64 {
        self.started.elapsed().as_secs_f64()
    }

    /// True while the (soft) time budget of this run is not used up.
    pub fn time_left(&self) -> bool {
        self.budget_s <= 0.0 || self.elapsed() < self.budget_s
    }

    pub fn eval(&self, n: u64) {
        self.inner.lock().unwrap().evaluations += n;
    }

    /// Record that a non-trivial class (by the property's rule) was exercised.
    pub fn class(&self, name: &str) {
        let mut g = self.inner.lock().unwrap();
        let h = crate::rng::fnv(name.as_bytes());
        g.classes.insert(h);
        if g.class_names.len() < 400 || g.class_names.contains_key(name) {
            *g.class_names.entry(name.to_string()).or_insert(0) += 1;
        }
    }

    /// Record a distinct case by hash only (no name kept).
    pub fn class_hash(&self, h: u64) {
        self.inner.lock().unwrap().classes.insert(h);
    }

    pub fn count(&self, name: &str, n: u64) {
        *self
            .inner
            .lock()
            .unwrap()
            .counters
            .entry(name.to_string())
            .or_insert(0) += n;
    }

    pub fn sample(&self, v: Value) {
        let mut g = self.inner.lock().unwrap();
        if g.samples.len() < 12 {
            g.samples.push(v);
        }
    }

    pub fn samples_len(&self) -> usize {
        self.inner.lock().unwrap().samples.len()
    }

    pub fn rule(&self, r: &str) {
        self.inner.lock().unwrap().rule = r.to_string();
    }

    pub fn assume(&self, a: &str) {
        let mut g = self.inner.lock().unwrap();
        if !g.assumptions.iter().any(|x| x == a) {
            g.assumptions.push(a.to_string());
        }
    }

    pub fn exhaustive(&self, e: bool) {
        self.inner.lock().unwrap().exhaustive = Some(e);
    }

    pub fn extra(&self, k: &str, v: Value) {
        self.inner.lock().unwrap().extra.insert(k.to_string(), v);
    }

    pub fn inconclusive(&self, why: &str) {
        let mut g = self.inner.lock().unwrap();
        if g.inconclusive.len() < 50 {
            g.inconclusive.push(why.to_string());
        }
        *g.counters.entry("inconclusive".into()).or_insert(0) += 1;
    }

    /// A violation of the property. `sig` names the *cause class* (see DESIGN.md section 3),
    /// `witness` is everything needed to look at / replay the case.
    pub fn viol(&self, sig: &str, msg: &str, witness: Value) {
        let mut g = self.inner.lock().unwrap();
        let seed = self.seed;
        let tier = if self.tier == Tier::Quick { "quick" } else { "thorough" };
        let e = g.viols.entry(sig.to_string()).or_insert(ViolEntry {
            count: 0,
            msg: msg.to_string(),
            witnesses: vec![],
        });
        e.count += 1;
        if e.witnesses.len() < 3 {
            e.witnesses.push(json!({"seed": seed, "tier": tier, "sig": sig, "msg": msg, "case": witness}));
        }
    }

    pub fn viol_count(&self) -> u64 {
        self.inner.lock().unwrap().viols.values().map(|v| v.count).sum()
    }

    pub fn has_sig(&self, sig: &str) -> bool {
        self.inner.lock().unwrap().viols.contains_key(sig)
    }

    pub fn finish(&self) -> Value {
        let g = self.inner.lock().unwrap();
        let viols: Vec<Value> = g
            .viols
            .iter()
            .map(|(sig, e)| json!({"sig": sig, "count": e.count, "msg": e.msg, "witnesses": e.witnesses}))
            .collect();
        let mut class_names: Vec<(&String, &u64)> = g.class_names.iter().collect();
        class_names.sort_by(|a, b| b.1.cmp(a.1));
        let class_sample: Vec<Value> = class_names
            .iter()
            .take(60)
            .map(|(k, v)| json!([k, v]))
            .collect();
        json!({
            "prop": self.prop,
            "tier": if self.tier == Tier::Quick { "quick" } else { "thorough" },
            "seed": self.seed,
            "evaluations": g.evaluations,
            "distinct": g.classes.len(),
            "classes_top": class_sample,
            "rule": g.rule,
            "samples": g.samples,
            "violations": viols,
            "inconclusive": g.inconclusive,
            "counters": g.counters,
            "extra": g.extra,
            "assumptions": g.assumptions,
            "exhaustive": g.exhaustive,
            "wall_s": self.elapsed(),
        })
    }
}

pub fn hex(b: &[u8]) -> String {
    let mut s = String::with_capacity(b.len() * 2);
    for x in b {
        s.push_str(&format!("{:02x}", x));
    }
    s
}

/// Hex with a cap so that witnesses stay readable: `head..(+n bytes)`.
pub fn hex_cap(b: &[u8], cap: usize) -> String {
    if b.len() <= cap {
        hex(b)
    } else {
        format!("{}..(+{} bytes)", hex(&b[..cap]), b.len() - cap)
    }
}

pub fn unhex(s: &str) -> Option<Vec<u8>> {
    if s.len() % 2 != 0 {
        return None;
    }
    let mut v = Vec::with_capacity(s.len() / 2);
    let b = s.as_bytes();
    for i in (0..b.len()).step_by(2) {
        let h = (b[i] as char).to_digit(16)?;
        let l = (b[i + 1] as char).to_digit(16)?;
        v.push((h * 16 + l) as u8);
    }
    Some(v)
}
