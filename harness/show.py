import sys,json
for l in sys.stdin:
    if l.startswith('RESULT '):
        r=json.loads(l[7:])
        print({k:r[k] for k in ['evaluations','distinct','wall_s','counters']}, 'inconclusive:',len(r['inconclusive']), r['inconclusive'][:3])
        print('extra',json.dumps(r['extra'])[:1500])
        for v in r['violations']: print('VIOL',v['sig'],v['count'],v['msg'],'\n    ', json.dumps(v['witnesses'][0]['case'])[:700])
    elif not l.startswith('{'):
        print(l.rstrip()[:300])
