#!/usr/bin/env python3
"""Runs the repository's test suite with the hook feature OFF and compares with BASELINE.json's
stable_pass list. Exit 0 iff every stable test still passes."""
import json, os, re, subprocess, sys
REPO = os.environ.get('VERIF_REPO', '/repo')
b = json.load(open('/root/.vp/BASELINE.json'))
stable = set(b['stable_pass'])
r = subprocess.run(['cargo', 'nextest', 'run', '--workspace', '--no-fail-fast', '--offline', '--test-threads', '8',
                    '--status-level', 'all', '--final-status-level', 'none', '--failure-output', 'never', '--success-output', 'never'],
                   cwd=REPO, stdout=subprocess.PIPE, stderr=subprocess.STDOUT, text=True)
passed, failed = set(), set()
for line in r.stdout.splitlines():
    m = re.match(r'\s+(PASS|FAIL|FLAKY)\s+\[[^\]]*\]\s+(?:\(\s*\d+/\d+\)\s+)?(\S+)(?:\s+(\S+))?\s+(\S+)\s*$', line)
    if not m:
        continue
    status = m.group(1)
    parts = line.split()
    # "... crate::binary test::path"  or "... crate test::path" (lib/unit tests)
    binid, test = parts[-2], parts[-1]
    name = f"{binid}::{test}"
    (passed if status != 'FAIL' else failed).add(name)
missing = sorted(stable - passed)
print(f"ran: {len(passed)} passed, {len(failed)} failed; baseline stable = {len(stable)}; stable tests not passing now = {len(missing)}")
for m_ in missing[:30]:
    print("  NOT PASSING:", m_)
sys.exit(0 if not missing else 1)
